"""C05 library-only generator and oracles: save/load round trip and continuation.

Every public function takes the imported ``rebound`` module as first argument
(``rebound.clibrebound`` is the ctypes handle); nothing in here knows where the
library lives.  Nothing prints except under ``__main__``.

Public functions
    recipes(rng, n, thorough=False)             -> list[dict]
    build(rebound, recipe)                      -> sim
    reattach(rebound, recipe, sim)              -> sim
    save_bytes(rebound, sim)                    -> bytes
    load_bytes(rebound, b, warn_out=None)       -> sim
    parse(b)                                    -> (header, [(type, payload)], trailer)
    descriptors(rebound)                        -> list[dict]
    canon(rebound, b)                           -> list[(type, name, payload)]
    diff_fields(c1, c2)                         -> list[str]
    continuation_oracle(rebound, recipe, ks=(1, 7, 50)) -> list[dict]
    mutation_oracle(rebound, rng, which=None)   -> (n_checked, failures, skipped)
    scalar_members(rebound)                     -> list[(path, ctype)]
    EXEMPT                                      : dict member path -> reason
"""
import ctypes
import math
import struct
import warnings

# ----------------------------------------------------------------------------
# stream format
# ----------------------------------------------------------------------------

HEADER_LEN = 64
FIELD_HEADER_LEN = 16
TRAILER_LEN = 12
END_TYPE = 9999
FUNCTIONPOINTERS_TYPE = 87

# reb_binary_field_descriptor.dtype values (rebound.h)
DTYPE = {
    "DOUBLE": 0, "INT": 1, "UINT": 2, "UINT32": 3, "INT64": 4, "UINT64": 5,
    "VEC3D": 7, "PARTICLE": 8, "POINTER": 9, "POINTER_ALIGNED": 10, "DP7": 11,
    "OTHER": 12, "FIELD_END": 13, "FIELD_NOT_FOUND": 14, "PARTICLE4": 15,
    "POINTER_FIXED_SIZE": 16,
}
DTYPE_NAME = {v: k for k, v in DTYPE.items()}
SCALAR_DTYPES = (0, 1, 2, 3, 4, 5)
SCALAR_DTYPE_SIZE = {0: 8, 1: 4, 2: 4, 3: 4, 4: 8, 5: 8}

# payloads that are arrays of struct reb_particle
PARTICLE_ARRAY_FIELDS = ("particles", "ri_whfast.p_jh", "ri_whfast512.pjh0")


def parse(b):
    """Strict parser of one save stream.

    Returns (header, fields, trailer); ``fields`` is the list of (type, payload)
    in stream order WITHOUT the terminating END field (its presence, with size
    0, is required).  Raises ValueError on anything malformed.
    """
    if not isinstance(b, (bytes, bytearray, memoryview)):
        raise ValueError("not a bytes-like object")
    b = bytes(b)
    if len(b) < HEADER_LEN + FIELD_HEADER_LEN + TRAILER_LEN:
        raise ValueError("stream too short (%d bytes)" % len(b))
    header = b[:HEADER_LEN]
    pos = HEADER_LEN
    fields = []
    while True:
        if pos + FIELD_HEADER_LEN > len(b):
            raise ValueError("missing END field (ran off the stream at %d)" % pos)
        ftype, pad, size = struct.unpack_from("<I4sQ", b, pos)
        if pad != b"\0\0\0\0":
            raise ValueError("non-zero pad bytes in field header at offset %d" % pos)
        pos += FIELD_HEADER_LEN
        if ftype == END_TYPE:
            if size != 0:
                raise ValueError("END field with non-zero size %d" % size)
            break
        if pos + size > len(b):
            raise ValueError("field %d at offset %d overruns the stream (size %d)" % (ftype, pos - FIELD_HEADER_LEN, size))
        fields.append((ftype, b[pos:pos + size]))
        pos += size
    trailer = b[pos:]
    if len(trailer) != TRAILER_LEN:
        raise ValueError("trailer length %d != %d" % (len(trailer), TRAILER_LEN))
    return header, fields, trailer


def unparse(header, fields, trailer=b"\0" * TRAILER_LEN):
    """Inverse of parse (adds the END field)."""
    out = [bytes(header)]
    for ftype, payload in fields:
        out.append(struct.pack("<I4sQ", ftype, b"\0\0\0\0", len(payload)))
        out.append(bytes(payload))
    out.append(struct.pack("<I4sQ", END_TYPE, b"\0\0\0\0", 0))
    out.append(bytes(trailer))
    return b"".join(out)


_DESC_CACHE = {}


def descriptors(rebound):
    """The library's reb_binary_field_descriptor_list as a list of dicts
    (id, dtype, name, offset, offset_N, element_size), END entry included."""
    key = id(rebound.clibrebound)
    if key in _DESC_CACHE:
        return [dict(d) for d in _DESC_CACHE[key]]

    class _FD(ctypes.Structure):
        _fields_ = [("type", ctypes.c_uint), ("dtype", ctypes.c_int),
                    ("name", ctypes.c_char * 1024), ("offset", ctypes.c_size_t),
                    ("offset_N", ctypes.c_size_t), ("element_size", ctypes.c_size_t)]

    base = ctypes.addressof(_FD.in_dll(rebound.clibrebound, "reb_binary_field_descriptor_list"))
    out = []
    i = 0
    while True:
        fd = _FD.from_address(base + i * ctypes.sizeof(_FD))
        out.append({"id": int(fd.type), "dtype": int(fd.dtype), "name": fd.name.decode("ascii"),
                    "offset": int(fd.offset), "offset_N": int(fd.offset_N),
                    "element_size": int(fd.element_size)})
        if fd.dtype == DTYPE["FIELD_END"]:
            break
        i += 1
        if i > 100000:
            raise RuntimeError("descriptor list has no end marker")
    _DESC_CACHE[key] = out
    return [dict(d) for d in out]


def _particle_pointer_spans(rebound):
    """(offset, size) of the address-valued members of struct reb_particle."""
    P = rebound.Particle
    spans = []
    names = [n for n, _ in P._fields_]
    for want in ("c", "ap", "sim", "_sim"):
        if want in names:
            f = getattr(P, want)
            spans.append((f.offset, f.size))
    if len(spans) != 3:
        raise RuntimeError("expected 3 pointer members in rebound.Particle, got %r" % (spans,))
    return spans, ctypes.sizeof(P)


def _varconfig_pointer_span(rebound):
    V = rebound.Variation
    names = [n for n, _ in V._fields_]
    for want in ("sim", "_sim"):
        if want in names:
            f = getattr(V, want)
            return (f.offset, f.size), ctypes.sizeof(V)
    raise RuntimeError("no sim pointer in rebound.Variation")


def _zero_spans(payload, stride, spans):
    if stride <= 0 or len(payload) % stride:
        return payload  # leave odd-sized payloads alone: a difference must stay visible
    ba = bytearray(payload)
    for base in range(0, len(ba), stride):
        for off, size in spans:
            ba[base + off:base + off + size] = b"\0" * size
    return bytes(ba)


def _unread_spans(rebound):
    """Bytes that the library allocates but never initialises NOR reads (checked
    against the C source, see canon()):
      * ri_whfast.p_jh[i].r, .last_collision, .hash (+ the 4 pad bytes after hash):
        p_jh comes from realloc() in reb_integrator_whfast_init and only x..vz, ax..az, m
        are ever written or read (integrator_whfast.c, transformations.c);
      * ri_whfast.p_jh[i].ax/ay/az when ri_whfast.coordinates != JACOBI (added in canon());
      * var_config[i]: the 4 struct padding bytes before lrescale, and for order==1
        records index_1st_order_a/b (reb_simulation_add_variation_1st_order leaves them
        unset; only gravity.c's order==2 branch reads them)."""
    P = rebound.Particle
    pj = [(P.r.offset, P.r.size), (P.last_collision.offset, P.last_collision.size),
          (P._hash.offset, P.ap.offset - P._hash.offset)]
    V = rebound.Variation
    vpad = (V.index_1st_order_b.offset + V.index_1st_order_b.size,
            V._lrescale.offset - V.index_1st_order_b.offset - V.index_1st_order_b.size)
    v1 = [(V.index_1st_order_a.offset, V.index_1st_order_a.size),
          (V.index_1st_order_b.offset, V.index_1st_order_b.size)]
    return pj, vpad, v1, V.order.offset


def canon(rebound, b, mask_unread=False):
    """Canonical view of a save stream: list of (type, name, payload) in stream
    order, wall-clock fields (names starting with "walltime") dropped and
    address-valued bytes zeroed (c/ap/sim of every struct reb_particle in
    "particles", "ri_whfast.p_jh", "ri_whfast512.pjh0"; sim of every "var_config"
    record).  Everything else is untouched.

    mask_unread=True additionally zeroes bytes that are uninitialised heap memory
    which the library never reads (see _unread_spans).  This is needed only when two
    simulations that allocated these arrays independently are compared; a restored
    stream must match its source without it."""
    names = {d["id"]: d["name"] for d in descriptors(rebound)}
    pspans, psize = _particle_pointer_spans(rebound)
    vspan, vsize = _varconfig_pointer_span(rebound)
    _, fields, _ = parse(b)
    if mask_unread:
        pj, vpad, v1, order_off = _unread_spans(rebound)
        # with non-Jacobi coordinates p_jh[i].ax/ay/az are never written nor read either
        # (reb_whfast_interaction_step uses particles[i].a*; kernels/variations need Jacobi)
        coord = [p for t, p in fields if names.get(t) == "ri_whfast.coordinates"]
        if coord and struct.unpack("<i", coord[0][:4])[0] != 0:
            P = rebound.Particle
            pj = pj + [(P.ax.offset, 24)]
    out = []
    for ftype, payload in fields:
        name = names.get(ftype, "unknown:%d" % ftype)
        if name.startswith("walltime"):
            continue
        if name in PARTICLE_ARRAY_FIELDS:
            payload = _zero_spans(payload, psize, pspans)
            if mask_unread and name == "ri_whfast.p_jh":
                payload = _zero_spans(payload, psize, pj)
        elif name == "var_config":
            payload = _zero_spans(payload, vsize, [vspan])
            if mask_unread and vsize > 0 and len(payload) % vsize == 0:
                ba = bytearray(payload)
                for base in range(0, len(ba), vsize):
                    spans = [vpad]
                    if struct.unpack_from("<i", ba, base + order_off)[0] == 1:
                        spans = spans + v1
                    for off, size in spans:
                        ba[base + off:base + off + size] = b"\0" * size
                payload = bytes(ba)
        out.append((ftype, name, payload))
    return out


def diff_fields(c1, c2):
    """Names of fields that differ between two canon() lists (by field type;
    a field present in only one of them is reported as 'name(+)' / 'name(-)')."""
    d1 = {}
    d2 = {}
    order = []
    for t, n, p in c1:
        d1.setdefault(t, []).append(p)
        if (t, n) not in order:
            order.append((t, n))
    for t, n, p in c2:
        d2.setdefault(t, []).append(p)
        if (t, n) not in order:
            order.append((t, n))
    out = []
    for t, n in order:
        if t not in d2:
            out.append(n + "(-)")
        elif t not in d1:
            out.append(n + "(+)")
        elif d1[t] != d2[t]:
            out.append(n)
    if not out and [t for t, _, _ in c1] != [t for t, _, _ in c2]:
        out.append("<field order>")
    return out


# ----------------------------------------------------------------------------
# save / load
# ----------------------------------------------------------------------------

def save_bytes(rebound, sim):
    """reb_simulation_save_to_stream, as Simulation.__reduce__ does."""
    clib = rebound.clibrebound
    buf = ctypes.c_char_p()
    size = ctypes.c_size_t()
    clib.reb_simulation_save_to_stream(ctypes.byref(sim), ctypes.byref(buf), ctypes.byref(size))
    s = bytes(ctypes.string_at(buf, size=size.value))
    clib.reb_simulation_output_free_stream(buf)
    return s


def load_bytes(rebound, b, warn_out=None):
    """rebound.Simulation(bytes).  Warnings are appended to warn_out (if a list)
    and otherwise ignored; nothing is printed."""
    with warnings.catch_warnings(record=True) as w:
        warnings.simplefilter("always")
        sim = rebound.Simulation(bytes(b))
    if warn_out is not None:
        warn_out.extend(str(x.message) for x in w)
    return sim


def _quiet(fn, *a, **kw):
    with warnings.catch_warnings():
        warnings.simplefilter("ignore")
        return fn(*a, **kw)


def copy_sim(rebound, sim):
    return _quiet(sim.copy)


def _steps_err(sim, k):
    """steps(); returns None or the text of the error the library reported."""
    try:
        steps(sim, k)
        return None
    except Exception as e:
        return "%s: %s" % (type(e).__name__, e)


def steps(sim, k):
    if k > 0:
        _quiet(sim.steps, int(k))


# ----------------------------------------------------------------------------
# recipes
# ----------------------------------------------------------------------------

KS = (0, 1, 2, 5, 13)

INTEGRATORS = ("ias15", "whfast", "saba", "eos", "leapfrog", "sei", "janus",
               "mercurius", "trace", "bs", "none", "whfast512")

SABA_TYPES = ("1", "2", "3", "4", "cm1", "cm2", "cm3", "cm4", "cl1", "cl2", "cl3", "cl4",
              "(10,4)", "(8,6,4)", "(10,6,4)", "h(8,4,4)", "h(8,6,4)", "h(10,6,4)")
EOS_TYPES = ("lf", "lf4", "lf6", "lf8", "lf4_2", "lf8_6_4", "plf7_6_4", "pmlf4", "pmlf6")
WHFAST_KERNELS = ("default", "modifiedkick", "composition", "lazy")
WHFAST_COORDS = ("jacobi", "democraticheliocentric", "whds", "barycentric")


def _r(rng, lo, hi):
    return lo + (hi - lo) * rng.random()


def _planetary(rng, n, G=1.0, close=False, radii=False, ecc_peri=False):
    """Star + (n-1) planets in explicit cartesian coordinates."""
    ps = [{"m": 1.0, "x": 0.0, "y": 0.0, "z": 0.0, "vx": 0.0, "vy": 0.0, "vz": 0.0,
           "r": 0.005 if radii else 0.0}]
    a = 1.0
    th0 = _r(rng, 0.0, 2 * math.pi)
    for i in range(1, n):
        m = _r(rng, 2e-4, 2e-3)
        if close and i >= 2:
            a_i = a * _r(rng, 1.02, 1.04)
            th = th0 + _r(rng, -0.01, 0.01)
        else:
            a_i = a * (1.0 if i == 1 else _r(rng, 1.45, 1.75))
            th = th0 + (0.0 if i == 1 else _r(rng, 0.5, 5.5))
        a = a_i
        v = math.sqrt(G * (1.0 + m) / a_i) * _r(rng, 0.97, 1.03)
        if ecc_peri and i == 1:
            # very eccentric orbit started near pericentre: triggers TRACE's pericentre switch
            a_i = 0.08
            v = math.sqrt(G * (1.0 + m) / a_i) * 1.38
        ps.append({"m": m,
                   "x": a_i * math.cos(th), "y": a_i * math.sin(th), "z": _r(rng, -0.01, 0.01) * a_i,
                   "vx": -v * math.sin(th), "vy": v * math.cos(th), "vz": _r(rng, -0.01, 0.01) * v,
                   "r": (_r(rng, 0.001, 0.003) if radii else 0.0)})
    return ps


def _colliders(rng, G=1.0, star=True):
    """Two bodies with radii on a collision course (overlap after ~2-4 steps of
    dt=0.01), optionally orbiting a star, plus one bystander."""
    ps = []
    if star:
        ps.append({"m": 1.0, "x": 0.0, "y": 0.0, "z": 0.0, "vx": 0.0, "vy": 0.0, "vz": 0.0, "r": 0.001})
    vk = math.sqrt(G * 1.0 / 1.0) if star else 0.0
    rad = _r(rng, 0.004, 0.006)
    gap = _r(rng, 0.02, 0.03)
    vrel = _r(rng, 0.4, 0.6)
    ps.append({"m": _r(rng, 1e-4, 1e-3), "x": 1.0, "y": 0.0, "z": 0.0,
               "vx": +vrel / 2, "vy": vk, "vz": 0.0, "r": rad})
    ps.append({"m": _r(rng, 1e-4, 1e-3), "x": 1.0 + gap, "y": _r(rng, -0.001, 0.001), "z": 0.0,
               "vx": -vrel / 2, "vy": vk, "vz": 0.0, "r": rad})
    ps.append({"m": _r(rng, 1e-4, 1e-3), "x": -1.7, "y": 0.1, "z": 0.02,
               "vx": 0.0, "vy": -(math.sqrt(G / 1.7) if star else 0.05), "vz": 0.0, "r": 0.002})
    return ps


def _shear_particles(rng, n):
    ps = []
    for i in range(n):
        x = _r(rng, -0.3, 0.3)
        ps.append({"m": _r(rng, 1e-7, 1e-6), "x": x, "y": _r(rng, -0.3, 0.3), "z": _r(rng, -0.02, 0.02),
                   "vx": _r(rng, -0.02, 0.02), "vy": -1.5 * x + _r(rng, -0.02, 0.02), "vz": _r(rng, -0.01, 0.01),
                   "r": _r(rng, 0.01, 0.03)})
    return ps


def _box_particles(rng, n, escaping=False):
    ps = []
    for i in range(n):
        ps.append({"m": _r(rng, 0.1, 1.0),
                   "x": _r(rng, -3.0, 3.0), "y": _r(rng, -3.0, 3.0), "z": _r(rng, -3.0, 3.0),
                   "vx": _r(rng, -0.3, 0.3), "vy": _r(rng, -0.3, 0.3), "vz": _r(rng, -0.3, 0.3),
                   "r": _r(rng, 0.05, 0.15)})
    if escaping and ps:
        ps[-1]["x"] = 4.9
        ps[-1]["vx"] = 8.0
    return ps


def _base(rng, integrator, label, particles=None, dt=None):
    """A plain recipe for one integrator; every optional key has a default."""
    shear = integrator == "sei"
    rec = {
        "id": "%s/%s" % (integrator, label),
        "integrator": integrator,
        "particles": particles,
        "sim": {"dt": dt if dt is not None else (0.01 if shear else 0.05), "rand_seed": rng.randrange(1, 2 ** 31)},
        "set": [],              # [ [member path, value], ... ] applied after the integrator is chosen
        "gravity": None, "collision": None, "collision_resolve": None, "boundary": None,
        "box": None,            # [boxsize, nx, ny, nz] -> sim.configure_box
        "ghost": None,          # [N_ghost_x, N_ghost_y, N_ghost_z]
        "N_active": None,
        "var": [],              # [ {"order":1,"testparticle":-1}, {"order":2,"first":i,"second":j,"testparticle":-1}, ... ]
        "megno": None,          # None | seed (int)
        "mercurius_L": None, "trace_S_peri": None,
        "presteps": 0,          # steps taken before variational particles are added (0 normally)
        "move_to_com": False,
        "prio": 0,              # 1: listed early by recipes()
        "k": 0,                 # steps to the save point
        "integrate": None,      # [n_dt, exact_finish_time]: after the k steps, sim.integrate(t + n_dt*dt)
        "synchronize": False,   # call sim.synchronize() at the save point
        "after": [],            # operations the user performs right AFTER the save point, on every
                                # variant (original, restored, copy, never-saved twin); see apply_after()
    }
    if particles is None:
        if shear:
            rec["particles"] = _shear_particles(rng, 3)
            rec["set"].append(["ri_sei.OMEGA", 1.0])
            rec["gravity"] = "none"
        else:
            rec["particles"] = _planetary(rng, 3)
    return rec


def _with(rec, label=None, **kw):
    import copy as _copy
    out = _copy.deepcopy(rec)
    for k, v in kw.items():
        if k == "set":
            out["set"] = out["set"] + [list(x) for x in v]
        elif k == "sim":
            out["sim"].update(v)
        else:
            out[k] = v
    if label is not None:
        out["id"] = "%s/%s" % (out["integrator"], label)
    return out


def _generic_variants(rng, integ):
    """Sim-level options that make sense with (almost) every integrator."""
    out = []
    G = 2.5
    out.append(("G", dict(particles=_planetary(rng, 3, G=G), sim={"G": G})))
    out.append(("softening", dict(sim={"softening": 0.01})))
    out.append(("dt<0", dict(sim={"dt": -0.05})))
    out.append(("t!=0", dict(sim={"t": 3.7})))
    out.append(("exit", dict(sim={"exit_max_distance": 50.0, "exit_min_distance": 1e-3})))
    out.append(("misc", dict(sim={"track_energy_offset": 1, "minimum_collision_velocity": 1e-3,
                                  "collision_resolve_keep_sorted": 1, "exact_finish_time": 0,
                                  "force_is_velocity_dependent": 1, "usleep": 0.0,
                                  "testparticle_hidewarnings": 1, "opening_angle2": 0.49,
                                  "simulationarchive_auto_interval": 12.5, "simulationarchive_next": 1.25,
                                  "simulationarchive_auto_step": 7, "simulationarchive_next_step": 9,
                                  "simulationarchive_auto_walltime": 0.0,
                                  "python_unit_l": 1234567, "python_unit_m": 7654321, "python_unit_t": 424242,
                                  "hash_ctr": 5, "energy_offset": 0.125, "collisions_plog": 0.5,
                                  "collisions_log_n": 3, "_output_timing_last": 17.5})))
    out.append(("tp0", dict(particles=_planetary(rng, 4), N_active=2, sim={"testparticle_type": 0})))
    out.append(("tp1", dict(particles=_planetary(rng, 4), N_active=3, sim={"testparticle_type": 1})))
    out.append(("N2", dict(particles=_planetary(rng, 2))))
    out.append(("com", dict(move_to_com=True)))
    return out


def _sweep_for(rng, integ):
    """Deterministic sweep for one integrator (list of recipes)."""
    out = []
    ki = [0]

    def nextk():
        k = KS[ki[0] % len(KS)]
        ki[0] += 1
        return k

    def add(rec, k=None):
        rec = _with(rec, k=nextk() if k is None else k)
        rec["id"] += "/k=%d" % rec["k"]
        # recipes that exercise restart-sensitive state come first in each integrator's list, so
        # that a small n still contains them
        rid = rec["id"]
        rec["prio"] = int(any(t in rid for t in ("/close", "after:", "/sm0", "/peri/", "synchronize",
                                                 "collision=direct/hardsphere")))
        if any(t in rid for t in ("hardsphere+3rd", "merge/eps0/after:add", "bs/close", "bs/after:dt", "sei/after:OMEGA",
                                  "tree/cellcrossing")):
            rec["prio"] = 2
        out.append(rec)

    b = _base(rng, integ, "base")

    if integ == "whfast512":
        # compiled without AVX512: never stepped, only its settable members are exercised
        for lab, st in (("base", []),
                        ("gr", [["ri_whfast512.gr_potential", 1]]),
                        ("Nsys2", [["ri_whfast512.N_systems", 2]]),
                        ("keepunsync", [["ri_whfast512.keep_unsynchronized", 1]])):
            add(_with(b, lab, set=st, sim={"exact_finish_time": 0}), k=0)
        return out

    for k in KS:
        add(_with(b, "base"), k=k)

    if integ not in ("sei",):
        for lab, kw in _generic_variants(rng, integ):
            add(_with(b, lab, **kw))

    # ---------------- integrator specific options
    if integ == "ias15":
        for e in (1e-7, 1e-11, 0.0):
            add(_with(b, "epsilon=%g" % e, set=[["ri_ias15.epsilon", e]]))
        add(_with(b, "min_dt", set=[["ri_ias15.min_dt", 0.01]]))
        for m in (0, 1, 2, 3):
            for k in (1, 5):
                add(_with(b, "adaptive_mode=%d" % m, set=[["ri_ias15.adaptive_mode", m]]), k=k)
        # close encounter + large initial dt: step rejections
        for k in KS:
            add(_with(b, "close", particles=_planetary(rng, 3, close=True), sim={"dt": 0.5},
                      set=[["ri_ias15.epsilon", 1e-10]]), k=k)
        add(_with(b, "close/mode1", particles=_planetary(rng, 3, close=True), sim={"dt": 0.7},
                  set=[["ri_ias15.adaptive_mode", 1]]), k=5)
    if integ == "whfast":
        for c in (3, 5, 7, 11, 17):
            add(_with(b, "corrector=%d" % c, set=[["ri_whfast.corrector", c]]))
            add(_with(b, "corrector=%d/sm0" % c, set=[["ri_whfast.corrector", c], ["ri_whfast.safe_mode", 0]]))
        add(_with(b, "corrector2", set=[["ri_whfast.corrector", 11], ["ri_whfast.corrector2", 1]]))
        add(_with(b, "corrector2/sm0", set=[["ri_whfast.corrector", 17], ["ri_whfast.corrector2", 1], ["ri_whfast.safe_mode", 0]]))
        for kern in WHFAST_KERNELS:
            add(_with(b, "kernel=%s" % kern, set=[["ri_whfast.kernel", kern]]))
            add(_with(b, "kernel=%s/c17/sm0" % kern, set=[["ri_whfast.kernel", kern], ["ri_whfast.corrector", 17], ["ri_whfast.safe_mode", 0]]))
        for co in WHFAST_COORDS:
            add(_with(b, "coordinates=%s" % co, set=[["ri_whfast.coordinates", co]]))
            add(_with(b, "coordinates=%s/sm0" % co, set=[["ri_whfast.coordinates", co], ["ri_whfast.safe_mode", 0]]))
        for k in KS:
            add(_with(b, "sm0", set=[["ri_whfast.safe_mode", 0]]), k=k)
        for k in (1, 5):
            add(_with(b, "sm0/keepunsync", set=[["ri_whfast.safe_mode", 0], ["ri_whfast.keep_unsynchronized", 1]]), k=k)
        add(_with(b, "sm0/tp1", particles=_planetary(rng, 4), N_active=3, sim={"testparticle_type": 1},
                  set=[["ri_whfast.safe_mode", 0]]))
        add(_with(b, "sm0/tp0/dh", particles=_planetary(rng, 4), N_active=2,
                  set=[["ri_whfast.safe_mode", 0], ["ri_whfast.coordinates", "democraticheliocentric"]]))
        add(_with(b, "gravity=jacobi", gravity="jacobi"))
    if integ == "saba":
        for t in SABA_TYPES:
            add(_with(b, "type=%s" % t, set=[["ri_saba.type", t]]))
        for t in ("(10,6,4)", "(8,6,4)", "cm2", "cl4", "h(8,4,4)", "1"):
            for k in (1, 5):
                add(_with(b, "type=%s/sm0" % t, set=[["ri_saba.type", t], ["ri_saba.safe_mode", 0]]), k=k)
        add(_with(b, "sm0/keepunsync", set=[["ri_saba.safe_mode", 0], ["ri_saba.keep_unsynchronized", 1]]), k=2)
    if integ == "eos":
        for p in EOS_TYPES:
            add(_with(b, "phi0=%s" % p, set=[["ri_eos.phi0", p]]))
            add(_with(b, "phi1=%s" % p, set=[["ri_eos.phi1", p]]))
        for n in (1, 3, 8):
            add(_with(b, "n=%d" % n, set=[["ri_eos.n", n]]))
        for p0, p1, n in (("lf4", "lf", 2), ("lf8_6_4", "lf8", 1), ("plf7_6_4", "pmlf4", 3), ("pmlf6", "lf4_2", 2)):
            for k in (1, 5):
                add(_with(b, "%s/%s/%d/sm0" % (p0, p1, n),
                          set=[["ri_eos.phi0", p0], ["ri_eos.phi1", p1], ["ri_eos.n", n], ["ri_eos.safe_mode", 0]]), k=k)
    if integ == "sei":
        add(_with(b, "OMEGA", set=[["ri_sei.OMEGA", 1.3]]))
        add(_with(b, "OMEGAZ", set=[["ri_sei.OMEGAZ", 2.1]]))
        add(_with(b, "dt<0", sim={"dt": -0.01}))
        add(_with(b, "t!=0", sim={"t": 2.5}))
        add(_with(b, "grav=basic", gravity="basic"))
        for k in (0, 2, 13):
            add(_with(b, "shearbox", box=[1.0, 1, 1, 1], boundary="shear", ghost=[1, 1, 0], gravity="basic"), k=k)
        add(_with(b, "shearbox/direct/hardsphere", box=[1.0, 1, 1, 1], boundary="shear", ghost=[1, 1, 0],
                  collision="direct", collision_resolve="hardsphere", sim={"dt": 0.05},
                  particles=_shear_particles(rng, 4)), k=13)
        add(_with(b, "shearbox/tree/hardsphere", box=[1.0, 1, 1, 1], boundary="shear", ghost=[1, 1, 0],
                  collision="tree", collision_resolve="hardsphere", gravity="tree", sim={"dt": 0.05},
                  particles=_shear_particles(rng, 4)), k=5)
    if integ == "janus":
        for o in (2, 4, 6, 8, 10):
            add(_with(b, "order=%d" % o, set=[["ri_janus.order", o]]))
        add(_with(b, "scale_pos", set=[["ri_janus.scale_pos", 1e-14]]))
        add(_with(b, "scale_vel", set=[["ri_janus.scale_vel", 1e-13]]))
        add(_with(b, "scales/order6", set=[["ri_janus.scale_pos", 1e-12], ["ri_janus.scale_vel", 1e-15], ["ri_janus.order", 6]]))
    if integ == "mercurius":
        for rc in (2.0, 4.5):
            add(_with(b, "r_crit_hill=%g" % rc, set=[["ri_mercurius.r_crit_hill", rc]]))
        for k in KS:
            add(_with(b, "sm0", set=[["ri_mercurius.safe_mode", 0]]), k=k)
        for k in KS:
            add(_with(b, "close", particles=_planetary(rng, 3, close=True)), k=k)
        for k in (1, 2, 5, 13):
            add(_with(b, "close/sm0", particles=_planetary(rng, 3, close=True), set=[["ri_mercurius.safe_mode", 0]]), k=k)
        for L in ("C4", "C5", "infinity", "mercury"):
            add(_with(b, "close/L=%s" % L, particles=_planetary(rng, 3, close=True), mercurius_L=L))
        add(_with(b, "close/tp0", particles=_planetary(rng, 4, close=True), N_active=2))
        add(_with(b, "close/tp1/sm0", particles=_planetary(rng, 4, close=True), N_active=2,
                  sim={"testparticle_type": 1}, set=[["ri_mercurius.safe_mode", 0]]))
    if integ == "trace":
        for pm in (0, 1, 2):
            add(_with(b, "peri_mode=%d" % pm, set=[["ri_trace.peri_mode", pm]]))
            for k in (1, 5, 13):
                add(_with(b, "peri_mode=%d/peri" % pm, particles=_planetary(rng, 3, ecc_peri=True),
                          set=[["ri_trace.peri_mode", pm]], sim={"dt": 0.02}), k=k)
        for rc in (2.0, 4.5):
            add(_with(b, "r_crit_hill=%g" % rc, set=[["ri_trace.r_crit_hill", rc]]))
        for eta in (0.5, 3.0):
            add(_with(b, "peri_crit_eta=%g" % eta, set=[["ri_trace.peri_crit_eta", eta]]))
        for k in KS:
            add(_with(b, "close", particles=_planetary(rng, 3, close=True)), k=k)
        add(_with(b, "close/S_peri=none", particles=_planetary(rng, 3, close=True), trace_S_peri="none"))
        add(_with(b, "close/tp0", particles=_planetary(rng, 4, close=True), N_active=2))
    if integ == "bs":
        for ea in (1e-5, 1e-12):
            add(_with(b, "eps_abs=%g" % ea, set=[["ri_bs.eps_abs", ea]]))
        for er in (1e-5, 1e-12):
            add(_with(b, "eps_rel=%g" % er, set=[["ri_bs.eps_rel", er]]))
        add(_with(b, "min_dt", set=[["ri_bs.min_dt", 0.01]]))
        add(_with(b, "max_dt", set=[["ri_bs.max_dt", 0.02]]))
        for k in KS:
            add(_with(b, "close", particles=_planetary(rng, 3, close=True), sim={"dt": 0.5}), k=k)

    # ---------------- gravity modules
    if integ in ("ias15", "leapfrog", "bs", "janus", "none"):
        for g in ("basic", "compensated", "none"):
            add(_with(b, "gravity=%s" % g, gravity=g))
    if integ in ("ias15", "leapfrog"):
        for oa in (0.25, 1.0):
            for k in (0, 2, 13):
                add(_with(b, "gravity=tree/oa2=%g" % oa, gravity="tree", box=[100.0, 1, 1, 1],
                          particles=_box_particles(rng, 4), sim={"opening_angle2": oa, "dt": 0.02}), k=k)
        add(_with(b, "gravity=tree/2x2x2", gravity="tree", box=[50.0, 2, 2, 2],
                  particles=_box_particles(rng, 4), sim={"dt": 0.02}), k=5)
        # fixed initial conditions for which a particle leaves its tree cell between the save point and the
        # next tree update (the lazily detected event permutes the particle array)
        tree_ps = [{"m": 0.99662085094062, "x": 0.3818240543302478, "y": 0.17404119887163905, "z": -1.570168594714536,
                    "vx": 0.032677427302144124, "vy": -0.2400519224946394, "vz": 0.03199175325545445, "r": 0.105},
                   {"m": 0.882480370309797, "x": -1.917466797170371, "y": -2.535973448658315, "z": 2.9900980523126917,
                    "vx": 0.08758372776195139, "vy": -0.027515344548310505, "vz": 0.12006801703666137, "r": 0.144},
                   {"m": 0.32760643236878667, "x": 0.5967212049650987, "y": 2.632588700217805, "z": 0.3398322799005049,
                    "vx": 0.2797886211421809, "vy": -0.07480524256687043, "vz": -0.15884154451017177, "r": 0.143},
                   {"m": 0.8592424502422518, "x": 2.8025474918166022, "y": -0.5083737511558191, "z": 0.41042946678918657,
                    "vx": 0.04789502474899199, "vy": 0.2543592476118746, "vz": 0.11133562840694583, "r": 0.066}]
        for k in (4, 5):
            add(_with(b, "gravity=tree/cellcrossing", gravity="tree", box=[5.0, 2, 2, 2], particles=tree_ps,
                      sim={"dt": 0.02}), k=k)
    if integ == "saba":
        add(_with(b, "gravity=jacobi", gravity="jacobi"))

    # ---------------- collisions
    coll = _colliders
    if integ in ("ias15", "leapfrog", "whfast", "bs"):
        for cm in ("direct", "line"):
            for res in ("merge", "hardsphere"):
                for k in (2, 13):
                    add(_with(b, "collision=%s/%s" % (cm, res), particles=coll(rng), collision=cm,
                              collision_resolve=res, sim={"dt": 0.01}), k=k)
        add(_with(b, "collision=none/radii", particles=coll(rng), collision="none", sim={"dt": 0.01}), k=5)
        add(_with(b, "collision=direct/noresolve", particles=coll(rng), collision="direct", sim={"dt": 0.01}), k=5)
    if integ in ("ias15", "leapfrog"):
        for cm in ("tree", "linetree"):
            for res in ("merge", "hardsphere"):
                for k in (2, 13):
                    add(_with(b, "collision=%s/%s" % (cm, res), particles=coll(rng), collision=cm,
                              collision_resolve=res, box=[10.0, 1, 1, 1], sim={"dt": 0.01}), k=k)
        add(_with(b, "collision=direct/merge/track/keepsorted", particles=coll(rng), collision="direct",
                  collision_resolve="merge", sim={"dt": 0.01, "track_energy_offset": 1, "collision_resolve_keep_sorted": 1}), k=13)
        add(_with(b, "collision=direct/hardsphere/nostar/grav=none", particles=coll(rng, star=False), collision="direct",
                  collision_resolve="hardsphere", gravity="none", sim={"dt": 0.01}), k=13)
    if integ in ("mercurius", "trace"):
        for res in ("merge", "hardsphere"):
            for k in (2, 13):
                add(_with(b, "collision=direct/%s" % res, particles=coll(rng), collision="direct",
                          collision_resolve=res, sim={"dt": 0.01}), k=k)
    if integ == "trace":
        add(_with(b, "collision=line/merge", particles=coll(rng), collision="line", collision_resolve="merge", sim={"dt": 0.01}), k=13)
    if integ == "mercurius":
        add(_with(b, "collision=direct/merge/sm0", particles=coll(rng), collision="direct", collision_resolve="merge",
                  sim={"dt": 0.01}, set=[["ri_mercurius.safe_mode", 0]]), k=13)
    if integ == "whfast":
        add(_with(b, "collision=direct/merge/sm0", particles=coll(rng), collision="direct", collision_resolve="merge",
                  sim={"dt": 0.01}, set=[["ri_whfast.safe_mode", 0]]), k=13)

    # ---------------- boundaries
    if integ in ("ias15", "leapfrog", "whfast", "none"):
        add(_with(b, "boundary=open", boundary="open", box=[10.0, 1, 1, 1],
                  particles=_box_particles(rng, 4, escaping=True), sim={"dt": 0.02}), k=5)
        add(_with(b, "boundary=open/k0", boundary="open", box=[10.0, 1, 1, 1],
                  particles=_box_particles(rng, 4, escaping=True), sim={"dt": 0.02}), k=0)
        add(_with(b, "boundary=periodic", boundary="periodic", box=[10.0, 1, 1, 1],
                  particles=_box_particles(rng, 4, escaping=True), sim={"dt": 0.02}), k=5)
    if integ in ("ias15", "leapfrog"):
        add(_with(b, "boundary=periodic/ghost/tree", boundary="periodic", box=[5.0, 2, 2, 2], ghost=[1, 1, 1],
                  gravity="tree", particles=_box_particles(rng, 4, escaping=True), sim={"dt": 0.02}), k=13)
        add(_with(b, "boundary=open/tree/linetree", boundary="open", box=[10.0, 1, 1, 1], gravity="tree",
                  collision="linetree", collision_resolve="hardsphere",
                  particles=_box_particles(rng, 4, escaping=True), sim={"dt": 0.02}), k=13)
        add(_with(b, "boundary=periodic/ghost/basic", boundary="periodic", box=[10.0, 1, 1, 1], ghost=[1, 1, 0],
                  gravity="basic", particles=_box_particles(rng, 3), sim={"dt": 0.02}), k=2)

    # ---------------- other save points: after integrate(), after synchronize()
    if integ in ("ias15", "whfast", "mercurius", "leapfrog", "saba", "eos", "trace", "bs", "janus"):
        add(_with(b, "integrate/exact", integrate=[2.5, 1]), k=2)
        add(_with(b, "integrate/overshoot", integrate=[2.5, 0]), k=1)
    if integ == "whfast":
        add(_with(b, "sm0/integrate/exact", integrate=[3.3, 1], set=[["ri_whfast.safe_mode", 0]]), k=2)
        add(_with(b, "sm0/keepunsync/synchronize", synchronize=True,
                  set=[["ri_whfast.safe_mode", 0], ["ri_whfast.keep_unsynchronized", 1]]), k=5)
        add(_with(b, "sm0/synchronize", synchronize=True, set=[["ri_whfast.safe_mode", 0]]), k=5)
        add(_with(b, "sm0/c11/keepunsync/synchronize", synchronize=True,
                  set=[["ri_whfast.safe_mode", 0], ["ri_whfast.keep_unsynchronized", 1], ["ri_whfast.corrector", 11]]), k=2)
    if integ == "saba":
        add(_with(b, "sm0/keepunsync/synchronize", synchronize=True,
                  set=[["ri_saba.safe_mode", 0], ["ri_saba.keep_unsynchronized", 1]]), k=5)
        add(_with(b, "sm0/synchronize", synchronize=True, set=[["ri_saba.safe_mode", 0]]), k=2)
    if integ == "eos":
        add(_with(b, "sm0/synchronize", synchronize=True, set=[["ri_eos.safe_mode", 0]]), k=5)
    if integ == "mercurius":
        add(_with(b, "close/sm0/synchronize", synchronize=True, particles=_planetary(rng, 3, close=True),
                  set=[["ri_mercurius.safe_mode", 0]]), k=5)

    # ---------------- user operations right after the save point (applied to every variant)
    newp = {"m": 3e-4, "x": 2.6, "y": 0.1, "z": 0.0, "vx": 0.0, "vy": 0.62, "vz": 0.01, "r": 0.001}
    if integ in ("ias15", "whfast", "leapfrog", "mercurius", "trace", "janus", "bs", "saba", "eos"):
        add(_with(b, "after:add", after=[{"op": "add", "particle": newp}]), k=5)
        add(_with(b, "after:dt", after=[{"op": "set", "path": "dt", "value": 0.031}]), k=2)
    if integ in ("ias15", "whfast", "leapfrog", "mercurius", "trace", "bs"):
        add(_with(b, "after:remove", particles=_planetary(rng, 4), after=[{"op": "remove", "index": 2}]), k=5)
    # (no "whfast sm0 + add": adding a particle to an UNSYNCHRONISED WHFast simulation is a user error the
    #  library only warns about; its forced synchronisation then reads the freshly realloc'ed, uninitialised
    #  p_jh entry of the new particle, so the outcome depends on heap garbage)
    if integ == "mercurius":
        add(_with(b, "close/sm0/after:add", particles=_planetary(rng, 3, close=True),
                  set=[["ri_mercurius.safe_mode", 0]], after=[{"op": "add", "particle": newp}]), k=5)
    if integ == "ias15":
        # merge (N shrinks, IAS15 arrays stay allocated for the old N), save, then the user adds a particle
        for k in (13, 20):
            add(_with(b, "merge/eps0/after:add", particles=_colliders(rng), collision="direct", collision_resolve="merge",
                      sim={"dt": 0.01}, set=[["ri_ias15.epsilon", 0.0]], after=[{"op": "add", "particle": newp}]), k=k)
        add(_with(b, "merge/after:add", particles=_colliders(rng), collision="direct", collision_resolve="merge",
                  sim={"dt": 0.01}, after=[{"op": "add", "particle": newp}]), k=150)
    if integ == "sei":
        add(_with(b, "after:OMEGA", after=[{"op": "set", "path": "ri_sei.OMEGA", "value": 1.5}]), k=2)
        add(_with(b, "after:dt", after=[{"op": "set", "path": "dt", "value": 0.02}]), k=2)
    if integ == "trace":
        # hard-sphere collision early on, then a third body joins the encounter
        for c_x, c_y, c_vx, k in ((1.1, 0.005, -0.3, 14), (1.1, 0.005, -0.3, 20), (1.1, 0.005, -0.3, 2),
                                  (1.08, -0.004, -0.2, 13), (1.12, 0.002, -0.35, 16)):
            ps = [{"m": 1.0, "x": 0.0, "y": 0.0, "z": 0.0, "vx": 0.0, "vy": 0.0, "vz": 0.0, "r": 0.0},
                  {"m": 1e-5, "x": 1.0, "y": 0.0, "z": 0.0, "vx": 0.05, "vy": 1.0, "vz": 0.0, "r": 0.002},
                  {"m": 1e-5, "x": 1.006, "y": 0.0, "z": 0.0, "vx": -0.05, "vy": 1.0, "vz": 0.0, "r": 0.002},
                  {"m": 1e-5, "x": c_x, "y": c_y, "z": 0.0, "vx": c_vx, "vy": 1.0, "vz": 0.0, "r": 0.0005}]
            add(_with(b, "hardsphere+3rd(%g,%g,%g)" % (c_x, c_y, c_vx), particles=ps, collision="direct",
                      collision_resolve="hardsphere", sim={"dt": 0.01}), k=k)

    # ---------------- variational particles / MEGNO
    if integ in ("ias15", "whfast", "leapfrog"):
        for k in (0, 2, 13):
            add(_with(b, "var1", var=[{"order": 1, "testparticle": -1}]), k=k)
            add(_with(b, "megno", megno=12345), k=k)
        add(_with(b, "var1x2", var=[{"order": 1, "testparticle": -1}, {"order": 1, "testparticle": -1}]))
    if integ == "whfast":
        add(_with(b, "megno/sm0", megno=777, set=[["ri_whfast.safe_mode", 0]]), k=5)
        add(_with(b, "var1/sm0/c11", var=[{"order": 1, "testparticle": -1}],
                  set=[["ri_whfast.safe_mode", 0], ["ri_whfast.corrector", 11]]), k=5)
    if integ == "ias15":
        for k in (0, 1, 5):
            add(_with(b, "var2", var=[{"order": 1, "testparticle": -1}, {"order": 1, "testparticle": -1},
                                     {"order": 2, "first": 0, "second": 1, "testparticle": -1},
                                     {"order": 2, "first": 0, "second": 0, "testparticle": -1}]), k=k)
        for k in (0, 2):
            add(_with(b, "vartp", particles=_planetary(rng, 4), N_active=3,
                      var=[{"order": 1, "testparticle": 3}]), k=k)
        add(_with(b, "vartp2", particles=_planetary(rng, 4), N_active=3,
                  var=[{"order": 1, "testparticle": 3}, {"order": 2, "first": 0, "second": 0, "testparticle": 3}]), k=5)
        add(_with(b, "megno/close", megno=99, particles=_planetary(rng, 3, close=True), sim={"dt": 0.3}), k=13)
        add(_with(b, "var1/late", var=[{"order": 1, "testparticle": -1}], presteps=3), k=5)
        add(_with(b, "var1/tp1", particles=_planetary(rng, 4), N_active=3, sim={"testparticle_type": 1},
                  var=[{"order": 1, "testparticle": -1}]), k=2)
    return out


def _random_recipe(rng, idx):
    """A random combination of options for a random integrator."""
    integ = rng.choice([i for i in INTEGRATORS if i != "whfast512"])
    b = _base(rng, integ, "rnd%d" % idx)
    kw = {"set": [], "sim": {}}
    k = rng.choice(KS)
    if integ != "sei":
        n = rng.choice((2, 3, 4))
        close = integ in ("ias15", "mercurius", "trace", "bs") and rng.random() < 0.4 and n >= 3
        kw["particles"] = _planetary(rng, n, close=close)
        if rng.random() < 0.3:
            kw["sim"]["dt"] = -0.05
        if rng.random() < 0.3:
            kw["sim"]["t"] = _r(rng, -5, 5)
        if rng.random() < 0.3:
            kw["sim"]["softening"] = _r(rng, 0.001, 0.02)
        if rng.random() < 0.3 and n >= 3:
            kw["N_active"] = rng.randrange(2, n)
            kw["sim"]["testparticle_type"] = rng.choice((0, 1))
        if rng.random() < 0.2:
            kw["sim"]["exit_max_distance"] = 100.0
        if rng.random() < 0.3:
            kw["move_to_com"] = True
    else:
        kw["particles"] = _shear_particles(rng, rng.choice((2, 3, 4)))
        if rng.random() < 0.5:
            kw["box"] = [1.0, 1, 1, 1]
            kw["boundary"] = "shear"
            kw["ghost"] = [1, 1, 0]
            kw["gravity"] = rng.choice(("basic", "none"))
        if rng.random() < 0.5:
            kw["set"].append(["ri_sei.OMEGAZ", _r(rng, 0.5, 3.0)])
    st = kw["set"]
    if integ == "ias15":
        st.append(["ri_ias15.adaptive_mode", rng.choice((0, 1, 2, 3))])
        st.append(["ri_ias15.epsilon", rng.choice((1e-9, 1e-8, 1e-10, 0.0))])
        if rng.random() < 0.3:
            st.append(["ri_ias15.min_dt", 0.005])
        kw["gravity"] = rng.choice(("basic", "compensated"))
        r = rng.random()
        if r < 0.25:
            kw["var"] = [{"order": 1, "testparticle": -1}]
        elif r < 0.4:
            kw["megno"] = rng.randrange(1, 10 ** 6)
    elif integ == "whfast":
        coords = rng.choice(WHFAST_COORDS)
        st.append(["ri_whfast.coordinates", coords])
        if coords == "jacobi":
            st.append(["ri_whfast.kernel", rng.choice(WHFAST_KERNELS)])
        if coords in ("jacobi", "barycentric"):
            st.append(["ri_whfast.corrector", rng.choice((0, 3, 5, 7, 11, 17))])
            if rng.random() < 0.3:
                st.append(["ri_whfast.corrector2", 1])
        sm = rng.choice((0, 1))
        st.append(["ri_whfast.safe_mode", sm])
        if sm == 0 and rng.random() < 0.3:
            st.append(["ri_whfast.keep_unsynchronized", 1])
    elif integ == "saba":
        st.append(["ri_saba.type", rng.choice(SABA_TYPES)])
        st.append(["ri_saba.safe_mode", rng.choice((0, 1))])
    elif integ == "eos":
        st.append(["ri_eos.phi0", rng.choice(EOS_TYPES)])
        st.append(["ri_eos.phi1", rng.choice(EOS_TYPES)])
        st.append(["ri_eos.n", rng.choice((1, 2, 4))])
        st.append(["ri_eos.safe_mode", rng.choice((0, 1))])
    elif integ == "janus":
        st.append(["ri_janus.order", rng.choice((2, 4, 6, 8, 10))])
        st.append(["ri_janus.scale_pos", rng.choice((1e-16, 1e-14))])
        st.append(["ri_janus.scale_vel", rng.choice((1e-16, 1e-13))])
    elif integ == "mercurius":
        st.append(["ri_mercurius.r_crit_hill", rng.choice((2.0, 3.0, 4.0))])
        st.append(["ri_mercurius.safe_mode", rng.choice((0, 1))])
        if rng.random() < 0.3:
            kw["mercurius_L"] = rng.choice(("C4", "C5", "infinity"))
    elif integ == "trace":
        st.append(["ri_trace.peri_mode", rng.choice((0, 1, 2))])
        st.append(["ri_trace.r_crit_hill", rng.choice((2.0, 3.0, 4.0))])
        st.append(["ri_trace.peri_crit_eta", rng.choice((0.5, 1.0, 2.0))])
    elif integ == "bs":
        st.append(["ri_bs.eps_abs", rng.choice((1e-6, 1e-8, 1e-10))])
        st.append(["ri_bs.eps_rel", rng.choice((1e-6, 1e-8, 1e-10))])
        if rng.random() < 0.3:
            st.append(["ri_bs.max_dt", 0.03])
        kw["gravity"] = rng.choice(("basic", "compensated"))
    elif integ == "leapfrog":
        kw["gravity"] = rng.choice(("basic", "compensated", "none"))
        if rng.random() < 0.3:
            kw["var"] = [{"order": 1, "testparticle": -1}]
    rec = _with(b, "rnd%d" % idx, k=k, **kw)
    rec["id"] += "/k=%d" % k
    return rec


def recipes(rng, n, thorough=False):
    """n JSON-serialisable recipes.  The deterministic sweep comes first,
    interleaved round-robin over integrators (so a small n still touches every
    integrator); random combinations fill up the rest.  With thorough=True every
    sweep recipe is additionally repeated for each save point k."""
    per = []
    for integ in INTEGRATORS:
        sw = _sweep_for(rng, integ)
        if thorough:
            extra = []
            for rec in sw:
                if rec["integrator"] == "whfast512":
                    continue
                for k in KS:
                    if k != rec["k"]:
                        r2 = _with(rec, k=k)
                        r2["id"] = rec["id"].rsplit("/k=", 1)[0] + "/k=%d" % k
                        extra.append(r2)
            sw = sw + extra
        sw = [r for p in (2, 1, 0) for r in sw if r.get("prio", 0) == p]
        per.append(sw)
    sweep = []
    i = 0
    while any(per):
        for lst in per:
            if lst:
                sweep.append(lst.pop(0))
        i += 1
    out = sweep[:n]
    idx = 0
    while len(out) < n:
        out.append(_random_recipe(rng, idx))
        idx += 1
    return out


# ----------------------------------------------------------------------------
# build / reattach
# ----------------------------------------------------------------------------

def _setpath(obj, path, value):
    parts = path.split(".")
    for p in parts[:-1]:
        obj = getattr(obj, p)
    if not hasattr(type(obj), parts[-1]):
        raise KeyError("unknown member %r" % path)
    setattr(obj, parts[-1], value)


def _getpath(obj, path):
    for p in path.split("."):
        obj = getattr(obj, p)
    return obj


def reattach(rebound, recipe, sim):
    """Re-attach the callbacks (C function pointers, never persisted) that the
    recipe attaches in build()."""
    res = recipe.get("collision_resolve")
    if res:
        sim.collision_resolve = res
    L = recipe.get("mercurius_L")
    if L:
        sim.ri_mercurius.L = L
    sp = recipe.get("trace_S_peri")
    if sp:
        sim.ri_trace.S_peri = sp
    return sim


def build(rebound, recipe):
    """Deterministic construction of the recipe's simulation, including the k
    steps to the save point."""
    with warnings.catch_warnings():
        warnings.simplefilter("ignore")
        sim = rebound.Simulation()
        s = recipe["sim"]
        sim.rand_seed = int(s.get("rand_seed", 1))
        sim.integrator = recipe["integrator"]
        for path, value in recipe.get("set", []):
            _setpath(sim, path, value)
        if recipe.get("gravity"):
            sim.gravity = recipe["gravity"]
        if recipe.get("collision"):
            sim.collision = recipe["collision"]
        if recipe.get("boundary"):
            sim.boundary = recipe["boundary"]
        if recipe.get("box"):
            bx = recipe["box"]
            sim.configure_box(float(bx[0]), int(bx[1]), int(bx[2]), int(bx[3]))
        if recipe.get("ghost"):
            g = recipe["ghost"]
            sim.N_ghost_x, sim.N_ghost_y, sim.N_ghost_z = int(g[0]), int(g[1]), int(g[2])
        for name, value in s.items():
            if name in ("dt", "t", "rand_seed"):
                continue
            if not hasattr(type(sim), name):
                raise KeyError("recipe sets unknown Simulation member %r" % name)
            setattr(sim, name, value)
        for p in recipe["particles"]:
            sim.add(m=p["m"], x=p["x"], y=p["y"], z=p["z"], vx=p["vx"], vy=p["vy"], vz=p["vz"], r=p.get("r", 0.0))
        if recipe.get("move_to_com"):
            sim.move_to_com()
        if recipe.get("N_active") is not None:
            sim.N_active = int(recipe["N_active"])
        sim.dt = float(s.get("dt", 0.05))
        if "t" in s:
            sim.t = float(s["t"])
        reattach(rebound, recipe, sim)
        if recipe.get("presteps"):
            sim.steps(int(recipe["presteps"]))
        vs = []
        for v in recipe.get("var", []):
            if v["order"] == 1:
                vs.append(sim.add_variation(order=1, testparticle=int(v.get("testparticle", -1))))
                # a non-trivial initial displacement (deterministic)
                j = len(vs)
                vp = vs[-1].particles
                for i in range(len(vp)):
                    vp[i].x = 1e-3 * (i + 1) * j
                    vp[i].vy = -2e-3 * (i + 1) / j
            else:
                vs.append(sim.add_variation(order=2, first_order=vs[int(v["first"])],
                                            first_order_2=vs[int(v["second"])],
                                            testparticle=int(v.get("testparticle", -1))))
        if recipe.get("megno") is not None:
            sim.init_megno(seed=int(recipe["megno"]))
        k = int(recipe.get("k", 0))
        if k > 0:
            sim.steps(k)
        if recipe.get("integrate"):
            n_dt, exact = recipe["integrate"]
            sim.integrate(sim.t + float(n_dt) * sim.dt, exact_finish_time=int(exact))
        if recipe.get("synchronize"):
            sim.synchronize()
    return sim


def apply_after(rebound, recipe, sim):
    """Apply the recipe's post-save-point user operations to one simulation."""
    with warnings.catch_warnings():
        warnings.simplefilter("ignore")
        for op in recipe.get("after", []):
            if op["op"] == "add":
                p = op["particle"]
                sim.add(m=p["m"], x=p["x"], y=p["y"], z=p["z"], vx=p["vx"], vy=p["vy"], vz=p["vz"], r=p.get("r", 0.0))
            elif op["op"] == "set":
                _setpath(sim, op["path"], op["value"])
            elif op["op"] == "remove":
                sim.remove(index=int(op["index"]))
            else:
                raise KeyError("unknown after-op %r" % (op,))
    return sim


# ----------------------------------------------------------------------------
# continuation oracle
# ----------------------------------------------------------------------------

def _key_for(recipe, stage, detail, fields):
    """Stable key of a continuation-oracle failure (used to match known findings)."""
    integ = recipe.get("integrator")
    names = sorted(set(f.split("(")[0] for f in fields))
    if stage == "continue" and detail in ("restored", "copy"):
        if integ == "bs":
            # restored BS simulation starts with first_or_last_step forced to 1 (reb_ode_create)
            return "continue:bs:first_or_last_step"
        if recipe.get("gravity") == "tree" or recipe.get("collision") in ("tree", "linetree"):
            # the tree is rebuilt on load; the original's stale tree makes reb_simulation_update_tree
            # remove + re-append a particle that left its cell, the restored one does not: particle order differs
            return "continue:tree:reorder"
        if integ == "trace" and recipe.get("collision") not in (None, "none"):
            # TRACE uses the never-persisted allocation counter N_allocated_collisions as a flag
            return "continue:trace:N_allocated_collisions"
    if stage == "continue" and detail == "twin":
        if integ == "ias15" and any(op["op"] == "add" for op in recipe.get("after", [])):
            return "twin:ias15:N_allocated_compress"
        if integ == "sei" and any(op["op"] == "set" and op["path"].startswith("ri_sei.") for op in recipe.get("after", [])):
            return "twin:sei:stale_cache"
    return "%s:%s:%s:%s" % (stage, integ, detail if stage == "continue" else "-", ",".join(names[:3]))


def _fail(recipe, stage, k, fields, detail, key=None):
    if key is None:
        key = _key_for(recipe, stage, detail, fields)
    return {"recipe": recipe, "stage": stage, "k": k, "fields": list(fields), "detail": detail, "key": key}


def continuation_oracle(rebound, recipe, ks=(1, 7, 50)):
    """Save/load round trip and bitwise continuation for one recipe.
    Returns a list of failure dicts (empty = ok), each
    {"recipe", "stage", "k", "fields", "detail", "key"}.

    stage "restore":  canon(save(load(b))) != canon(b)   (also for sim.copy())
    stage "resave":   save(load(save(r))) != save(r), or saving the original twice differs
    stage "continue": after the recipe's after-ops and cumulative K more steps,
                      canon(save(original)) differs from canon(save(restored)) [detail
                      'restored'], canon(save(copy)) [detail 'copy'], or from a twin that
                      was built from the recipe but NEVER saved [detail 'twin'].
    Restore/resave comparisons are exact up to addresses and wall clock (canon());
    continue comparisons additionally mask never-read uninitialised heap bytes
    (canon(mask_unread=True)) because the compared simulations allocate their scratch
    arrays independently.
    """
    fails = []
    stepping = recipe["integrator"] != "whfast512"
    sim = build(rebound, recipe)
    b = save_bytes(rebound, sim)
    cb = canon(rebound, b)
    wl = []
    r = reattach(rebound, recipe, load_bytes(rebound, b, wl))
    bad_w = [w for w in wl if "function pointers" not in w]
    if bad_w:
        fails.append(_fail(recipe, "restore", 0, [], "warnings on load: %r" % bad_w, key="restore:warnings"))
    c = reattach(rebound, recipe, copy_sim(rebound, sim))
    b2 = save_bytes(rebound, r)
    cb2 = canon(rebound, b2)
    d = diff_fields(cb, cb2)
    if d:
        fails.append(_fail(recipe, "restore", 0, d, "restored simulation saves differently from the original"))
    dcopy = diff_fields(cb, canon(rebound, save_bytes(rebound, c)))
    if dcopy:
        fails.append(_fail(recipe, "restore", 0, dcopy, "sim.copy() saves differently from the original"))
    r3 = load_bytes(rebound, b2)
    reattach(rebound, recipe, r3)
    d = diff_fields(cb2, canon(rebound, save_bytes(rebound, r3)))
    if d:
        fails.append(_fail(recipe, "resave", 0, d, "save(load(save(r))) != save(r)"))
    # saving must not change the original's own stream
    d = diff_fields(cb, canon(rebound, save_bytes(rebound, sim)))
    if d:
        fails.append(_fail(recipe, "resave", 0, d, "saving the original twice gives different streams"))
    if not stepping:
        return fails
    for s in (sim, r, c):
        apply_after(rebound, recipe, s)
    K = 0
    for k in ks:
        K += k
        errs = [_steps_err(s, k) for s in (sim, r, c)]
        if any(errs):
            # the library reported an error while stepping (e.g. a particle left the box of a tree code)
            if len(set(errs)) > 1:
                fails.append(_fail(recipe, "continue", K, [], "original/restored/copy react differently: %r" % (errs,)))
            break
        co = canon(rebound, save_bytes(rebound, sim), mask_unread=True)
        for tag, other in (("restored", r), ("copy", c)):
            d = diff_fields(co, canon(rebound, save_bytes(rebound, other), mask_unread=True))
            if d:
                fails.append(_fail(recipe, "continue", K, d, tag))
        twin = build(rebound, recipe)
        apply_after(rebound, recipe, twin)
        e = _steps_err(twin, K)
        d = diff_fields(co, canon(rebound, save_bytes(rebound, twin), mask_unread=True)) if e is None else ["<error: %s>" % e]
        if d:
            fails.append(_fail(recipe, "continue", K, d, "twin"))
        if any(f["stage"] == "continue" for f in fails):
            break   # later k only repeat the divergence
    return fails


# ----------------------------------------------------------------------------
# mutation oracle (per-member "lost field" searcher)
# ----------------------------------------------------------------------------

_SCALAR_CTYPES = None


def _scalar_ctypes():
    global _SCALAR_CTYPES
    if _SCALAR_CTYPES is None:
        names = ("c_double", "c_float", "c_int", "c_uint", "c_int32", "c_uint32", "c_int64", "c_uint64",
                 "c_long", "c_ulong", "c_longlong", "c_ulonglong", "c_short", "c_ushort", "c_size_t",
                 "c_byte", "c_ubyte")
        _SCALAR_CTYPES = tuple(set(getattr(ctypes, n) for n in names))
    return _SCALAR_CTYPES


def _is_scalar(ct):
    return ct in _scalar_ctypes()


def _is_float(ct):
    return ct in (ctypes.c_double, ctypes.c_float)


def _is_signed(ct):
    return ct in (ctypes.c_int, ctypes.c_int32, ctypes.c_int64, ctypes.c_long, ctypes.c_longlong,
                  ctypes.c_short, ctypes.c_byte)


def _leaves(prefix, ct, out, skipped, depth=0):
    """Expand a ctypes type into scalar leaves ('a.b', 'a[1]')."""
    if _is_scalar(ct):
        out.append((prefix, ct))
    elif isinstance(ct, type) and issubclass(ct, ctypes.Array):
        et = ct._type_
        if _is_scalar(et) and ct._length_ <= 16:
            for i in range(ct._length_):
                out.append(("%s[%d]" % (prefix, i), et))
        else:
            skipped.append("%s: array of %s (not a scalar array)" % (prefix, getattr(et, "__name__", et)))
    elif isinstance(ct, type) and issubclass(ct, ctypes.Structure):
        if depth >= 3:
            skipped.append("%s: nested struct too deep" % prefix)
            return
        for n, t in ct._fields_:
            _leaves(prefix + "." + n if prefix else n, t, out, skipped, depth + 1)
    elif isinstance(ct, type) and issubclass(ct, ctypes._Pointer):
        skipped.append("%s: pointer" % prefix)
    elif isinstance(ct, type) and issubclass(ct, ctypes._CFuncPtr):
        skipped.append("%s: function pointer" % prefix)
    else:
        skipped.append("%s: %s (not a plain scalar)" % (prefix, getattr(ct, "__name__", ct)))


def scalar_members(rebound, skipped=None):
    """[(member path, ctypes type)] for every plain scalar member of
    rebound.Simulation and of its nested (integrator, vector) structs."""
    out = []
    sk = [] if skipped is None else skipped
    _leaves("", rebound.Simulation, out, sk)
    return out


def _member_get(sim, path):
    obj = sim
    for part in path.replace("]", "").replace("[", ".[").split("."):
        if part.startswith("["):
            obj = obj[int(part[1:])]
        else:
            obj = getattr(obj, part)
    return obj


def _member_set(sim, path, value):
    parts = path.replace("]", "").replace("[", ".[").split(".")
    obj = sim
    for part in parts[:-1]:
        obj = obj[int(part[1:])] if part.startswith("[") else getattr(obj, part)
    last = parts[-1]
    if last.startswith("["):
        obj[int(last[1:])] = value
    else:
        setattr(obj, last, value)


def _bits(ct, v):
    return bytes(ct(v))


# Members for which "old+1" is not a plausible value: member path -> value to use
# (a callable gets the old value).
_MUT_VALUES = {
    "_integrator": 4,            # leapfrog
    "_gravity": 1,               # basic (the plain base uses compensated)
    "_collision": 1,             # direct
    "_boundary": 1,              # open (the base simulations have a large configured box)
    "_status": -1,               # REB_STATUS_RUNNING
    "N": lambda old: old - 1,    # dropping the last particle keeps every array large enough
    "N_active": 2,
    "N_var": 1,                  # on the plain base (no var_config): last particle becomes "variational"
    "N_var_config": lambda old: old - 1,
    "_calculate_megno": 0,
    "ri_whfast.corrector": 3,
    "ri_whfast._kernel": 1,      # base uses the lazy kernel (3); modifiedkick is also valid with Jacobi coordinates
    "ri_janus.order": 4,
    "ri_saba._type": 0x3,
    "ri_trace._mode": lambda old: 1 if old != 1 else 3,
    "ri_mercurius.mode": lambda old: 1 if old != 1 else 0,
    "testparticle_type": 1,
}

# Members that cannot be mutated through this harness.
_UNTESTABLE = {
    "_N_odes": "length of the heap array `odes` of user ODE structs (hold C callbacks, never persisted); changing it makes the library walk invalid pointers",
    "_N_allocated_odes": "capacity of the heap array `odes`; same reason as _N_odes",
    "save_messages": "persisted by the C library (field 16), but Python's Simulation.__init__ sets save_messages=1 after every construction, also from bytes (simulation.py), so the restored value cannot be observed from Python",
}


def _is_alloc_counter(path):
    last = path.split(".")[-1]
    return "N_allocated" in last or "allocated_n" in last or last in ("N_lookup",)


# Members that are legitimately NOT persisted: member path -> reason.  Every entry was
# checked against the C source (file:function named in the reason); the behavioural
# test still runs for them, so a wrong exemption shows up as a divergence.
EXEMPT = {
    # --- allocation counters: re-derived on load from the size of the persisted array, or the
    #     array itself is per-step scratch that is (re)allocated on demand
    "N_allocated": "capacity of particles[]; input.c:reb_input_fields sets it to N",
    "N_allocated_lookup": "capacity of the hash lookup cache (particle.c:reb_update_particle_lookup_table reallocs on demand)",
    "N_lookup": "size of the hash lookup cache; the cache is rebuilt on a miss (particle.c:reb_simulation_particle_by_hash)",
    "N_allocated_gravity_cs": "capacity of gravity_cs[], scratch zeroed at each force evaluation (gravity.c COMPENSATED)",
    "ri_whfast._N_allocated_tmp": "capacity of p_temp, scratch of the lazy kernel within one step (integrator_whfast.c)",
    "ri_ias15._map_allocated_n": "capacity of the identity map, rebuilt by reb_integrator_ias15_alloc",
    "ri_mercurius._N_allocated": "capacity of particles_backup/encounter_map, per-step scratch (integrator_mercurius.c part1)",
    "ri_mercurius._N_allocated_additional_forces": "capacity of particles_backup_additional_forces, scratch (integrator.c)",
    "ri_trace._N_allocated": "capacity of TRACE per-step scratch arrays (integrator_trace.c part1)",
    "ri_trace._N_allocated_additionalforces": "capacity of particles_backup_additional_forces, scratch (integrator.c)",
    # NOTE: N_allocated_collisions is deliberately NOT exempt: integrator_trace.c reads it as a
    # "a collision happened" flag (see key continue:trace:N_allocated_collisions).
    # --- wall clock
    "walltime_last_step": "wall-clock measurement",
    "_walltime_last_steps_sum": "wall-clock measurement",
    "_walltime_last_steps_N": "wall-clock measurement (counter for the running mean)",
    # --- warn-once latches: only decide whether a warning text is repeated
    "_var_rescale_warning": "warn-once bit mask (tools.c:reb_simulation_rescale_var); never read for anything else",
    "ri_whfast._recalculate_coordinates_but_not_synchronized_warning": "warn-once latch (integrator_whfast.c:reb_integrator_whfast_init)",
    "_odes_warnings": "warn-once latch (integrator.c:reb_integrator_part2)",
    # --- recomputed before use in every step
    "_tree_needs_update": "set by reb_boundary_check inside the step that uses it; the tree itself is rebuilt on load (input.c)",
    "ri_mercurius.mode": "set to 0 in reb_integrator_mercurius_part1 / _synchronize before any use",
    "ri_mercurius._encounter_N": "reset in reb_mercurius_encounter_predict each step",
    "ri_mercurius._encounter_N_active": "reset in reb_mercurius_encounter_step each step",
    "ri_mercurius._tponly_encounter": "reset in reb_mercurius_encounter_predict each step",
    "ri_trace._mode": "set in reb_integrator_trace_part1 before any use",
    "ri_trace._encounter_N": "reset in reb_integrator_trace_pre_ts_check each step",
    "ri_trace._encounter_N_active": "recomputed in the TRACE encounter step",
    "ri_trace._tponly_encounter": "reset in reb_integrator_trace_pre_ts_check each step",
    "ri_trace._current_C": "reset in reb_integrator_trace_pre_ts_check each step",
    "ri_trace._force_accept": "reset in reb_integrator_trace_part2 each step",
    "ri_trace._com_pos.x": "recomputed by reb_integrator_trace_inertial_to_dh at the start of every reb_integrator_trace_part2",
    "ri_trace._com_pos.y": "recomputed by reb_integrator_trace_inertial_to_dh at the start of every step",
    "ri_trace._com_pos.z": "recomputed by reb_integrator_trace_inertial_to_dh at the start of every step",
    "ri_trace._com_vel.x": "recomputed by reb_integrator_trace_inertial_to_dh at the start of every step",
    "ri_trace._com_vel.y": "recomputed by reb_integrator_trace_inertial_to_dh at the start of every step",
    "ri_trace._com_vel.z": "recomputed by reb_integrator_trace_inertial_to_dh at the start of every step",
    "ri_bs._user_ode_needs_nbody": "recomputed from the registered ODEs in reb_integrator_bs_part2",
    "ri_whfast512.recalculate_constants": "forced to 1 on load (input.c) so constants are recomputed from persisted data",
}

# Members that are caches derived from persisted members: reb_simulation_save_to_stream
# itself recomputes them (reb_integrator_init -> reb_integrator_sei_init), so the value set by
# the mutation is overwritten in the ORIGINAL by saving.  Not reported as failures.
DERIVED = {
    "ri_sei._lastdt": "cache key: dt for which sin/tan were computed (reb_integrator_sei_init)",
    "ri_sei._sindt": "sin(OMEGA*(-dt/2)) cache (reb_integrator_sei_init)",
    "ri_sei._tandt": "tan(OMEGA*(-dt/4)) cache (reb_integrator_sei_init)",
    "ri_sei._sindtz": "sin(OMEGAZ*(-dt/2)) cache (reb_integrator_sei_init)",
    "ri_sei._tandtz": "tan(OMEGAZ*(-dt/4)) cache (reb_integrator_sei_init)",
}

# stable keys for member findings whose root cause is shared with a continuation finding
_MEMBER_KEYS = {
    "N_allocated_collisions": "continue:trace:N_allocated_collisions",
}


def _mut_base_recipes():
    """Base recipe per struct prefix ('' = Simulation itself)."""
    import random as _random
    rng = _random.Random(20240517)
    big = [200.0, 1, 1, 1]

    def mk(integ, label, **kw):
        rec = _base(rng, integ, "mutbase-" + label)
        kw.setdefault("k", 3)
        if integ != "sei":
            kw.setdefault("box", big)
        return _with(rec, **kw)

    close3 = _planetary(rng, 3, close=True)
    trace_hs = [{"m": 1.0, "x": 0.0, "y": 0.0, "z": 0.0, "vx": 0.0, "vy": 0.0, "vz": 0.0, "r": 0.0},
                {"m": 1e-5, "x": 1.0, "y": 0.0, "z": 0.0, "vx": 0.05, "vy": 1.0, "vz": 0.0, "r": 0.002},
                {"m": 1e-5, "x": 1.006, "y": 0.0, "z": 0.0, "vx": -0.05, "vy": 1.0, "vz": 0.0, "r": 0.002},
                {"m": 1e-5, "x": 1.1, "y": 0.005, "z": 0.0, "vx": -0.3, "vy": 1.0, "vz": 0.0, "r": 0.0005}]
    bases = {
        "": mk("ias15", "sim", gravity="compensated"),
        "megno": mk("ias15", "megno", megno=4242),
        "ri_ias15": mk("ias15", "ias15"),
        "ri_whfast": mk("whfast", "whfast", set=[["ri_whfast.safe_mode", 0], ["ri_whfast.kernel", "lazy"]]),
        "ri_saba": mk("saba", "saba", set=[["ri_saba.safe_mode", 0]]),
        "ri_eos": mk("eos", "eos", set=[["ri_eos.safe_mode", 0]]),
        "ri_mercurius": mk("mercurius", "mercurius", particles=close3, set=[["ri_mercurius.safe_mode", 0]]),
        "ri_trace": mk("trace", "trace", particles=[dict(p) for p in close3]),
        "ri_bs": mk("bs", "bs"),
        "ri_janus": mk("janus", "janus"),
        "ri_sei": mk("sei", "sei"),
        "ri_whfast512": mk("whfast512", "whfast512", k=0, sim={"exact_finish_time": 0}),
        # TRACE after a hard-sphere collision (r->collisions allocated), a third body approaching
        "trace_hs": mk("trace", "trace-hardsphere", particles=trace_hs, collision="direct",
                       collision_resolve="hardsphere", sim={"dt": 0.01}, k=14),
    }
    return bases


_MEGNO_MEMBERS = ("_calculate_megno", "_megno_Ys", "_megno_Yss", "_megno_cov_Yt", "_megno_var_t",
                  "_megno_mean_t", "_megno_mean_Y", "_megno_n", "N_var_config")


def _mut_value(path, ct, old):
    if path in _MUT_VALUES:
        v = _MUT_VALUES[path]
        return v(old) if callable(v) else v
    if _is_alloc_counter(path):
        return old - 1 if old > 0 else None
    if _is_float(ct):
        v = old + 0.3125
        if v != v or v in (float("inf"), float("-inf")) or _bits(ct, v) == _bits(ct, old):
            v = 0.123
        return v
    return old + 1


def _length_counter_members(rebound):
    """member path -> array name, for members that are the offset_N length counter of a
    persisted heap array (found by matching descriptor offsets with ctypes offsets)."""
    offs = {}

    def walk(prefix, ct, base):
        for n, t in ct._fields_:
            f = getattr(ct, n)
            path = prefix + "." + n if prefix else n
            if _is_scalar(t):
                offs[base + f.offset] = path
            elif isinstance(t, type) and issubclass(t, ctypes.Structure) and not prefix:
                walk(path, t, base + f.offset)

    walk("", rebound.Simulation, 0)
    out = {}
    for d in descriptors(rebound):
        if d["dtype"] in (DTYPE["POINTER"], DTYPE["POINTER_ALIGNED"], DTYPE["DP7"]) and d["offset_N"] in offs:
            out.setdefault(offs[d["offset_N"]], d["name"])
    return out


def mutation_oracle(rebound, rng, which=None, extra_bases=True, report=None):
    """Per-member search for persisted-state loss.

    For every plain scalar member of Simulation / the nested ri_* structs (ctypes
    `_fields_`, underscore names included; Vec3d members and small scalar arrays are
    expanded into leaves): build a small base simulation whose integrator matches the
    struct, set the member to a different plausible value, save, load, and compare the
    member bitwise.  A member that does not survive is `lost`; it is a failure
    ("lost:<member>") unless EXEMPT names it.  In every case the original (with the
    mutated member) and the restored simulation are then continued for 7 steps and their
    canon streams compared: a divergence is a failure "behaviour:<member>".
    Simulation-level members are additionally tried on the other integrators' bases
    (reported as "<member>@<integrator>").

    which: None | iterable of member paths | callable(path)->bool.
    report: optional list; one dict per tested (member, base) is appended
            {"member","base","lost","exempt","diverged"}.
    Returns (n_checked, failures, skipped).
    """
    skipped = []
    members = scalar_members(rebound, skipped)
    if which is not None and not callable(which):
        wset = set(which)
        which_fn = lambda p: p in wset
    else:
        which_fn = which
    bases = _mut_base_recipes()
    counters = _length_counter_members(rebound)
    fails = []
    n_checked = 0
    for path, ct in members:
        if which_fn is not None and not which_fn(path):
            continue
        if path in _UNTESTABLE:
            skipped.append("%s: %s" % (path, _UNTESTABLE[path]))
            continue
        if path in counters and path not in ("N", "N_var_config"):
            skipped.append("%s: length counter of the persisted heap array %s; changing it alone desynchronises it "
                           "from the heap block (memory-unsafe, cannot occur); its round trip is the size of that "
                           "field in the stream, checked by continuation_oracle" % (path, counters[path]))
            continue
        prefix = path.split(".")[0] if path.startswith("ri_") else ""
        keys = [prefix]
        if prefix == "":
            if path in _MEGNO_MEMBERS:
                keys = ["megno"]
            elif path == "N_allocated_collisions":
                keys = ["trace_hs"]
            elif extra_bases and not (_is_alloc_counter(path) or (path in _MUT_VALUES and path != "_status")):
                # Simulation-level members are also tried under every other integrator
                keys = [""] + [k for k in sorted(bases) if k.startswith("ri_") and k not in ("ri_ias15", "ri_whfast512")]
        for key in keys:
            recipe = bases[key]
            tag = path if key in (prefix, "megno") else "%s@%s" % (path, recipe["integrator"])
            sim = build(rebound, recipe)
            old = _member_get(sim, path)
            new = _mut_value(path, ct, old)
            if new is None:
                skipped.append("%s: allocation counter is 0 in the base simulation (nothing to shrink; growing it is memory-unsafe)" % tag)
                continue
            try:
                _member_set(sim, path, new)
            except (TypeError, ValueError, OverflowError) as e:
                skipped.append("%s: cannot set %r (%s)" % (tag, new, e))
                continue
            want = _bits(ct, _member_get(sim, path))
            if want == _bits(ct, old):
                skipped.append("%s: could not produce a different value" % tag)
                continue
            n_checked += 1
            shown_set = _member_get(sim, path)
            b = save_bytes(rebound, sim)
            after_save = _bits(ct, _member_get(sim, path))
            r = reattach(rebound, recipe, load_bytes(rebound, b))
            got = _bits(ct, _member_get(r, path))
            lost = got != after_save
            exempt = path in EXEMPT
            stable = _MEMBER_KEYS.get(path)
            if after_save != want and path not in DERIVED:
                fails.append({"key": "savechanged:" + tag, "member": path, "base": recipe["id"], "kind": "savechanged",
                              "detail": "saving changed the member in the ORIGINAL: set %s, after save %s" % (shown_set, _member_get(sim, path))})
            if lost and not exempt:
                fails.append({"key": stable or ("lost:" + tag), "member": path, "base": recipe["id"], "kind": "lost",
                              "detail": "set %s, restored %s" % (shown_set, _member_get(r, path))})
            diverged = []
            if recipe["integrator"] != "whfast512":
                errs = []
                for s_ in (sim, r):
                    try:
                        steps(s_, 7)
                        errs.append(None)
                    except Exception as e:     # the library rejected the mutated setting (RuntimeError from process_messages)
                        errs.append("%s: %s" % (type(e).__name__, e))
                if errs[0] is not None and errs[0] == errs[1]:
                    skipped.append("%s: behavioural continuation not possible, the library rejects the mutated value on both sides (%s)" % (tag, errs[0]))
                    if report is not None:
                        report.append({"member": path, "base": recipe["id"], "lost": bool(lost), "exempt": bool(exempt),
                                       "derived": path in DERIVED, "diverged": [], "rejected": errs[0]})
                    continue
                if errs[0] != errs[1]:
                    fails.append({"key": stable or ("behaviour:" + tag), "member": path, "base": recipe["id"], "kind": "behaviour",
                                  "lost": bool(lost), "exempt": bool(exempt), "fields": [],
                                  "detail": "original and restored react differently: %r vs %r" % (errs[0], errs[1])})
                    continue
                diverged = diff_fields(canon(rebound, save_bytes(rebound, sim), mask_unread=True),
                                       canon(rebound, save_bytes(rebound, r), mask_unread=True))
                if diverged:
                    k = stable or ("behaviour:" + tag)
                    if recipe["integrator"] == "bs" and not lost:
                        # the member itself round-trips; the divergence is the BS restart defect
                        k = "continue:bs:first_or_last_step"
                    fails.append({"key": k, "member": path, "base": recipe["id"], "kind": "behaviour",
                                  "lost": bool(lost), "exempt": bool(exempt), "fields": diverged,
                                  "detail": "original (member mutated to %s) and restored diverge within 7 steps" % (shown_set,)})
            if report is not None:
                report.append({"member": path, "base": recipe["id"], "lost": bool(lost), "exempt": bool(exempt),
                               "derived": path in DERIVED, "diverged": diverged})
    skipped.append("ri_whfast512.*: restore is checked, behavioural continuation is not run (library built without AVX512, the integrator cannot step)")
    return n_checked, fails, skipped


# ----------------------------------------------------------------------------
# probe: ri_bs.dt_proposed (not persisted) and user ODEs
# ----------------------------------------------------------------------------

def bs_dt_proposed_probe(rebound, steps_before=5, steps_after=3):
    """Observed effect of losing ri_bs.dt_proposed.

    (a) BS as the main integrator: reb_integrator_bs_part2 copies dt_proposed into r->dt
        after every step and the next step only reads r->dt, so nothing is lost: the member
        is mutated to a different value and the continuation compared.
    (b) any other integrator with a user ODE (harmonic oscillator, integrated by
        reb_integrator_part2 with BS sub-steps of size dt_proposed): after a restore the
        user re-creates the ODE with the same state; the sub-step size falls back to the
        full dt because dt_proposed is 0, so the ODE state is no longer bitwise identical.
    Returns a dict of observations."""
    out = {}
    with warnings.catch_warnings():
        warnings.simplefilter("ignore")
        # (a)
        def mk():
            sim = rebound.Simulation()
            sim.rand_seed = 3
            sim.integrator = "bs"
            sim.add(m=1.0)
            sim.add(m=1e-3, x=1.0, vy=1.0)
            sim.add(m=1e-3, x=1.6, vy=0.8)
            sim.dt = 0.05
            sim.steps(steps_before)
            return sim
        a = mk()
        a.ri_bs.dt_proposed = a.ri_bs.dt_proposed * 0.5 + 0.01
        b = mk()
        out["bs_main_dt_proposed_at_save"] = b.ri_bs.dt_proposed
        out["bs_main_dt_at_save"] = b.dt
        a.steps(steps_after)
        b.steps(steps_after)
        out["bs_main_mutating_dt_proposed_changes_trajectory"] = bool(
            diff_fields(canon(rebound, save_bytes(rebound, a), True), canon(rebound, save_bytes(rebound, b), True)))

        # (b)
        def deriv(ode, yDot, y, t):
            yDot[0] = y[1]
            yDot[1] = -400.0 * y[0]

        def mk2():
            sim = rebound.Simulation()
            sim.rand_seed = 3
            sim.integrator = "whfast"
            sim.add(m=1.0)
            sim.add(m=1e-3, x=1.0, vy=1.0)
            sim.dt = 0.3
            ode = sim.create_ode(length=2, needs_nbody=False)
            ode.derivatives = deriv
            ode.y[0] = 1.0
            ode.y[1] = 0.0
            return sim, ode
        s1, o1 = mk2()
        s1.steps(steps_before)
        out["user_ode_dt_proposed_at_save"] = s1.ri_bs.dt_proposed
        saved = save_bytes(rebound, s1)
        y_saved = (o1.y[0], o1.y[1])
        s2 = load_bytes(rebound, saved)
        out["user_ode_dt_proposed_after_load"] = s2.ri_bs.dt_proposed
        o2 = s2.create_ode(length=2, needs_nbody=False)      # the user re-attaches the ODE and its state
        o2.derivatives = deriv
        o2.y[0], o2.y[1] = y_saved
        s1.steps(steps_after)
        s2.steps(steps_after)
        out["user_ode_y_original"] = (o1.y[0], o1.y[1])
        out["user_ode_y_restored"] = (o2.y[0], o2.y[1])
        out["user_ode_bitwise_identical"] = (struct.pack("<2d", o1.y[0], o1.y[1]) == struct.pack("<2d", o2.y[0], o2.y[1]))
        # control: same restore, but dt_proposed put back by hand
        s3 = load_bytes(rebound, saved)
        o3 = s3.create_ode(length=2, needs_nbody=False)
        o3.derivatives = deriv
        o3.y[0], o3.y[1] = y_saved
        s3.ri_bs.dt_proposed = out["user_ode_dt_proposed_at_save"]
        s3.ri_bs._first_or_last_step = 0
        s3.steps(steps_after)
        out["user_ode_bitwise_identical_when_dt_proposed_restored_by_hand"] = (
            struct.pack("<2d", o1.y[0], o1.y[1]) == struct.pack("<2d", o3.y[0], o3.y[1]))
    return out


# ----------------------------------------------------------------------------
# self test
# ----------------------------------------------------------------------------

if __name__ == "__main__":
    import collections
    import json
    import random
    import sys
    import time
    import rebound

    seed = int(sys.argv[1]) if len(sys.argv) > 1 else 1
    nrec = int(sys.argv[2]) if len(sys.argv) > 2 else 150
    rng = random.Random(seed)
    t0 = time.time()
    recs = recipes(rng, nrec, thorough="--thorough" in sys.argv)
    json.dumps(recs)
    summary = collections.Counter()
    examples = {}
    for rec in recs:
        for f in continuation_oracle(rebound, rec):
            summary["continuation_oracle " + f["key"]] += 1
            examples.setdefault(f["key"], "%s stage=%s k=%s %s %s" % (rec["id"], f["stage"], f["k"], f["detail"], f["fields"][:4]))
    t1 = time.time()
    rep = []
    n_checked, fails, skipped = mutation_oracle(rebound, rng, report=rep)
    for f in fails:
        summary["mutation_oracle " + f["key"]] += 1
        examples.setdefault(f["key"], "%s on %s: %s" % (f["member"], f["base"], f["detail"]))
    t2 = time.time()
    print("recipes: %d (seed %d), integrators covered: %s" % (len(recs), seed, sorted(set(r["integrator"] for r in recs))))
    print("continuation_oracle  %6.2fs  (%d recipes)" % (t1 - t0, len(recs)))
    print("mutation_oracle      %6.2fs  (%d member/base checks, %d skipped entries)" % (t2 - t1, n_checked, len(skipped)))
    print("members lost on restore: %s" % sorted(set(r["member"] + ("" if r["exempt"] else " [NOT exempt]") for r in rep if r["lost"])))
    print("bs_dt_proposed_probe: %s" % bs_dt_proposed_probe(rebound))
    print("failures by key:")
    for k in sorted(summary):
        print("  %5d  %s" % (summary[k], k))
        print("         e.g. %s" % examples[k.split(" ", 1)[1]][:200])
    if not summary:
        print("  none")
