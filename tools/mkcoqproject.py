#!/usr/bin/env python3
"""Assemble coq/_CoqProject from coq/*/FILES (one path per line, relative to coq/; '#' comments).
Each property directory owns its FILES list, so concurrent work never edits a shared file.
Generated files (coq/Gen/*.v, regenerated from /repo by tools/translate_*.py) are listed in the FILES of
the property that owns the translator."""
import os, glob
ROOT = os.path.dirname(os.path.dirname(os.path.abspath(__file__)))
COQ = os.path.join(ROOT, "coq")
def main():
    seen = []; 
    dirs = ["Common"] + sorted(d for d in os.listdir(COQ) if os.path.isdir(os.path.join(COQ, d)) and d not in ("Common",))
    for d in dirs:
        f = os.path.join(COQ, d, "FILES")
        if not os.path.exists(f): continue
        for line in open(f):
            line = line.split("#")[0].strip()
            if line and line not in seen:
                seen.append(line)
    head = "-Q . RV\n-arg -w -arg -notation-overridden,-deprecated-hint-without-locality,-inexact-float,-deprecated-instance-without-locality\n"
    new = head + "\n".join(seen) + "\n"
    p = os.path.join(COQ, "_CoqProject")
    if not os.path.exists(p) or open(p).read() != new:
        open(p, "w").write(new)
    return seen
if __name__ == "__main__":
    print("\n".join(main()))
