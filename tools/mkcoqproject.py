#!/usr/bin/env python3
"""Assemble Coq project files from coq/*/FILES (one path per line, relative to coq/; '#' comments).
  mkcoqproject.py            -> coq/_CoqProject          (all properties; used by setup.sh)
  mkcoqproject.py C12        -> coq/_CoqProject.C12      (Common + C12/FILES only; used by ./check C12, so that a broken
                                                          or half-written file of another property can never break this check)
Each property directory owns its FILES list and lists everything it needs except Common (including coq/Gen/*.v files it
generates and files of other properties it imports). Files that do not exist are skipped."""
import os, sys
ROOT = os.path.dirname(os.path.dirname(os.path.abspath(__file__)))
COQ = os.path.join(ROOT, "coq")
HEAD = "-Q . RV\n-arg -w -arg -notation-overridden,-deprecated-hint-without-locality,-inexact-float,-deprecated-instance-without-locality\n"
def files_of(d):
    f = os.path.join(COQ, d, "FILES")
    out = []
    if os.path.exists(f):
        for line in open(f):
            line = line.split("#")[0].strip()
            if line and os.path.exists(os.path.join(COQ, line)):
                out.append(line)
    return out
def write(path, seen):
    new = HEAD + "\n".join(seen) + "\n"
    if not os.path.exists(path) or open(path).read() != new:
        open(path, "w").write(new)
def main(sub=None):
    if sub:
        dirs = ["Common", sub]
        path = os.path.join(COQ, "_CoqProject." + sub)
    else:
        dirs = ["Common"] + sorted(d for d in os.listdir(COQ) if os.path.isdir(os.path.join(COQ, d)) and d != "Common")
        path = os.path.join(COQ, "_CoqProject")
    seen = []
    for d in dirs:
        for l in files_of(d):
            if l not in seen:
                seen.append(l)
    write(path, seen)
    return path, seen
if __name__ == "__main__":
    p, s = main(sys.argv[1] if len(sys.argv) > 1 else None)
    print(p); print("\n".join(s))
