"""C01 history probe (child process; a crash is a finding): BS with a user ODE (needs_nbody 0/1) -> another integrator -> BS
again, all on ONE simulation object.  usage: c01_history_probe.py <needs_nbody 0|1> <integrator>   -> one JSON line."""
import json, math, sys, warnings
import rebound
warnings.simplefilter("ignore")
if sys.argv[1] == "n0":
    # empty simulation: step() and integrate() must not crash or hang; afterwards the same object must still work
    integ = sys.argv[2]
    sim = rebound.Simulation(); sim.rand_seed = 4242; sim.integrator = integ; sim.dt = 0.01
    if integ == "saba": sim.ri_saba.type = 6
    sim.step(); sim.step()
    t2 = sim.t
    try:
        sim.integrate(sim.t + 0.05)
    except Exception:
        pass
    sim.add(m=1.0); sim.add(m=1e-3, a=1.0, e=0.05); sim.move_to_com()
    x0 = sim.particles[1].x
    sim.dt = 0.01; sim.steps(5); sim.synchronize()
    ok = t2 == t2 and sim.particles[1].x == sim.particles[1].x and sim.particles[1].x != x0
    print(json.dumps({"probe": "n0", "integrator": integ, "t_after_two_empty_steps": t2, "errors": [0.0], "t": sim.t, "ok": ok}))
    sys.exit(0)
nb = int(sys.argv[1]); other = sys.argv[2]
sim = rebound.Simulation(); sim.rand_seed = 4242
sim.add(m=1.0); sim.add(m=1e-3, a=1.0, e=0.05); sim.add(m=5e-4, a=2.1, e=0.03, f=2.0)
sim.move_to_com()
sim.integrator = "bs"; sim.ri_bs.eps_rel = 1e-9; sim.ri_bs.eps_abs = 1e-9
ode = sim.create_ode(length=2, needs_nbody=bool(nb))
def rhs(ode, yDot, y, t):
    yDot[0] = y[1]; yDot[1] = -y[0]
ode.derivatives = rhs
ode.y[0] = 1.0; ode.y[1] = 0.0
errs = []
def err():
    return max(abs(ode.y[0] - math.cos(sim.t)), abs(ode.y[1] + math.sin(sim.t)))
sim.integrate(1.0); errs.append(err())
sim.integrator = other; sim.dt = 0.01
if other == "saba": sim.ri_saba.type = 6
sim.integrate(2.0); errs.append(err())
sim.integrator = "bs"
sim.integrate(3.0); errs.append(err())
sim.integrator = other; sim.dt = -0.01
sim.integrate(2.5); errs.append(err())
ok = all(e == e and e < 1e-6 for e in errs) and abs(sim.t - 2.5) < 1e-12
print(json.dumps({"needs_nbody": nb, "integrator": other, "errors": errs, "t": sim.t, "ok": ok}))
