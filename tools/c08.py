"""C08 — integrate() honours its time, step-size and status contract.

1. proofs: coq/C08 (structural theorems for every arithmetic + exact-arithmetic theorems for fixed steps);
2. correspondence: reb_simulation_integrate on the library vs the binary64 instance of the model
   (t, dt, dt_last_done, status, steps_done bit for bit) on coincidence-biased (t0, dt, tmax, exact, events, splits);
3. searcher (library only, always run): the contract itself as oracle over all integrators incl. adaptive ones.
"""
import math, os, sys, struct
import vlib

KINDS = {"none": 1, "leapfrog": 0, "whfast": 0, "saba": 1, "eos": 1, "janus": 1, "sei": 0}


def jsafe(o):
    """non-finite floats as strings: evidence and replay files stay standard JSON"""
    if isinstance(o, float) and (o != o or o in (float("inf"), float("-inf"))): return repr(o)
    if isinstance(o, dict): return {k: jsafe(v) for k, v in o.items()}
    if isinstance(o, (list, tuple)): return [jsafe(v) for v in o]
    return o


def ulp_shift(x, k):
    b = struct.unpack("<q", struct.pack("<d", x))[0]
    return struct.unpack("<d", struct.pack("<q", b + k))[0]


def new_sim(rebound, integ, t0, dt):
    sim = rebound.Simulation()
    sim.add(m=1.0)
    sim.add(m=1e-3, a=1.0, e=0.05)
    if integ == "sei":
        sim.ri_sei.OMEGA = 1.0
    sim.integrator = integ
    sim.t = t0
    sim.dt = dt
    return sim


def gen_case(rng):
    integ = rng.choice(list(KINDS))
    u = rng.random()
    t0 = 0.0 if u < 0.3 else rng.choice([1, -1]) * 10 ** rng.uniform(-2, 3)
    dt = rng.choice([1, 1, 1, -1]) * rng.choice([0.1, 0.125, 0.3, 1.0, 10 ** rng.uniform(-2, 0.5)])
    dt = max(abs(dt), 1e-5 * abs(t0)) * (1 if dt > 0 else -1)
    direction = rng.choice([1, 1, -1])
    nst = rng.randint(0, 30)
    mode = rng.random()
    targets = []
    t = t0
    nt = rng.choice([1, 1, 1, 2, 3])
    for _ in range(nt):
        k = rng.randint(0, 12)
        base = t + direction * k * abs(dt)
        r = rng.random()
        if r < 0.35: tm = base                                   # exactly k steps away (in exact arithmetic)
        elif r < 0.5: tm = ulp_shift(base, rng.choice([-2, -1, 1, 2])) if base != 0 else base
        elif r < 0.6: tm = t                                      # no-op
        elif r < 0.7: tm = t + direction * abs(dt) * rng.uniform(0.01, 0.99)   # step larger than interval
        elif r < 0.75 and abs(t) <= 25 * abs(dt): tm = 0.0
        else: tm = t + direction * abs(dt) * rng.uniform(0, 14)
        targets.append(tm)
        t = tm
    exact = rng.choice([0, 1])
    events = []
    if rng.random() < 0.35:
        # k = 0: the exit condition is already true when integrate() is entered (the entry heartbeat raises it)
        events.append((rng.choice([0, 0, 1, 2]) if rng.random() < 0.4 else rng.randint(1, 10), rng.choice([5, 4, 3, 7])))
    if rng.random() < 0.04:
        # degenerate arguments: no step can bring t closer to the target; integrate() must refuse, not run forever
        r = rng.random()
        if r < 0.4: dt = rng.choice([0.0, -0.0])
        elif r < 0.7: dt = float("nan")
        else: targets[rng.randrange(len(targets))] = float("nan")
    gone = None
    if rng.random() < 0.2:
        # the simulation loses its last particle at the boundary after `gone` steps (0: it is empty on entry)
        gone = rng.choice([0, 0, 1, 2]) if rng.random() < 0.4 else rng.randint(1, 10)
    return {"integrator": integ, "t0": t0, "dt": dt, "targets": targets, "exact": exact, "events": events, "gone": gone}


def run_lib(rebound, c):
    sim = new_sim(rebound, c["integrator"], c["t0"], c["dt"])
    ev = dict(c["events"])
    steps0 = sim.steps_done
    # step cap: a library that never reaches the target must end as a mismatch with a concrete input, not as a hang
    tprev = [c["t0"]] + list(c["targets"])
    deg = c["dt"] == 0 or c["dt"] != c["dt"] or any(x != x for x in c["targets"])
    cap = 8 if deg else int(sum(abs(b - a) for a, b in zip(tprev, tprev[1:])) / abs(c["dt"])) + 4 * len(c["targets"]) + 8
    gone = c.get("gone")
    def hb(simp):
        s = simp.contents
        k = s.steps_done - steps0
        if gone is not None and k >= gone and s.N > 0:
            rebound.clibrebound.reb_simulation_remove_all_particles(simp)
        if k in ev and s._status < 0:
            s._status = ev[k]
        elif k > cap and s._status < 0:
            s._status = 98           # no exit code of the library: "did not terminate"
    sim.heartbeat = hb
    st = 0
    for tm in c["targets"]:
        try:
            sim.integrate(tm, exact_finish_time=c["exact"])
        except Exception:
            pass
        st = sim._status
        if st != 0:
            break
    return ([sim.t, sim.dt, sim.dt_last_done], st, sim.steps_done - steps0)


def coq_case(c, got):
    ev = "[" + "; ".join("(%d%%nat, %d%%Z)" % (k, v) for k, v in c["events"]) + "]"
    tg = vlib.flist(c["targets"])
    gone = "None" if c.get("gone") is None else "(Some %d%%nat)" % c["gone"]
    term = "(run_seq_np %d %s %s %s %s %s 0 600 %s)" % (KINDS[c["integrator"]], ev, gone, "true" if c["exact"] else "false",
                                                       vlib.fhex(c["t0"]), vlib.fhex(c["dt"]), tg)
    exp = "(%s, (%d)%%Z, %d%%nat)" % (vlib.flist(got[0]), got[1], got[2])
    return "(%s, %s)" % (term, exp)


def run(ctx):
    libdir = ctx.lib()
    ctx.regen("translate_c08.py")      # Gen/C08Consts.v: constants and shape of the finishing test of reb_check_exit
    proved = ctx.prove("C08", extra_targets=["C08/Run.vo"])
    sys.path.insert(0, libdir)
    import rebound
    rng = ctx.rng
    # ------------------------------------------------------------------ correspondence
    n = ctx.scale(600, 8000)
    cases = []
    hist = {}
    while len(cases) < n:
        c = gen_case(rng)
        if c["events"] and rng.random() < 0.6:
            # aim the event at the LAST step of the run (the shortened one under exact finishing)
            c0 = dict(c, events=[], gone=None, targets=c["targets"][:1])
            nsteps = run_lib(rebound, c0)[2]
            if nsteps >= 1:
                c["events"] = [(nsteps - rng.choice([0, 0, 0, 1]) or 1, c["events"][0][1])]
                c["targets"] = c["targets"][:1]
        if c["gone"] is not None and rng.random() < 0.6:
            # ... and the loss of the last particle at the boundary where the target is reached (SUCCESS and NO_PARTICLES
            # become true together), or one boundary earlier
            c0 = dict(c, events=[], gone=None, targets=c["targets"][:1])
            nsteps = run_lib(rebound, c0)[2]
            c["gone"] = max(0, nsteps - rng.choice([0, 0, 0, 1]))
            if rng.random() < 0.5: c["targets"] = c["targets"][:1]
        # the model's run_seq continues a split only through SUCCESS; the library likewise (we break on status != 0)
        got = run_lib(rebound, c)
        if len(c["targets"]) > 1 and got[1] != 0:
            c["targets"] = c["targets"][:1]; got = run_lib(rebound, c)
        cases.append((c, got))
        key = (c["integrator"], c["exact"], len(c["targets"]), bool(c["events"]), c["gone"] is not None, got[1])
        hist[key] = hist.get(key, 0) + 1
        ctx.case(key=(c["integrator"], c["exact"], got[1], got[2], len(c["targets"])),
                 sample=jsafe({"case": c, "library": got}) if len(cases) <= 3 else None)
    jobs = []; chunk = 100
    for c0 in range(0, len(cases), chunk):
        body = ("From Coq Require Import ZArith List Bool PrimFloat.\nFrom RV Require Import C08.Run.\nImport ListNotations.\n"
                "Open Scope float_scope.\nDefinition cases := [\n" +
                ";\n".join(coq_case(c, g) for c, g in cases[c0:c0 + chunk]) + "].\nEval vm_compute in (bad cases).\n")
        jobs.append(("c08_%d" % (c0 // chunk), body))
    bad_total = []; corr_ok = True
    for (name, ok, out), c0 in zip(vlib.coq_eval_many(jobs), range(0, len(cases), chunk)):
        bad = vlib.parse_coq_list_nat(out) if ok else None
        if bad is None:
            corr_ok = False; ctx.obligation("correspondence:C08:" + name, False, out[-1500:])
        else:
            bad_total += [c0 + b for b in bad]
    ctx.traces = len(cases) if corr_ok else 0
    ctx.obligation("correspondence:C08 integrate model(binary64) == library (t,dt,dt_last_done,status,steps) on %d cases" % len(cases),
                   corr_ok and not bad_total, "mismatching: %s" % [jsafe(cases[b]) for b in bad_total[:4]])
    ctx.extra["input_distribution"] = {str(k): v for k, v in sorted(hist.items(), key=lambda kv: -kv[1])[:50]}

    # ------------------------------------------------------------------ searcher: the contract on the library
    fails = []
    integs = ["none", "leapfrog", "whfast", "saba", "eos", "janus", "sei", "ias15", "bs", "mercurius", "trace"]
    fixed = {"none", "leapfrog", "whfast", "saba", "eos", "janus", "sei", "mercurius", "trace"}
    m = ctx.scale(250, 3000)
    for k in range(m):
        integ = integs[k % len(integs)]
        c = gen_case(rng); c["integrator"] = integ
        multi = (k % 3 == 2)          # every third case: a sequence of calls on one simulation (state carried across calls)
        if not multi: c["targets"] = c["targets"][:1]
        elif len(c["targets"]) < 2:
            sg = rng.choice([1, 1, -1])
            c["targets"] = c["targets"] + [c["targets"][-1] + sg * abs(c["dt"]) * rng.choice([0.32, 0.7, 1.0, 2.5, 7.3])]
        tm = c["targets"][0]
        if c["events"] and c["events"][0][0] > 0 and rng.random() < 0.6 and integ in fixed and abs(tm - c["t0"]) < 20:
            nsteps = run_lib(rebound, dict(c, events=[], targets=c["targets"][:1]))[2]
            if nsteps >= 1: c["events"] = [(nsteps, c["events"][0][1])]
        if integ in ("ias15", "bs", "mercurius", "trace") and any(abs(a - b) > 20 for a, b in zip([c["t0"]] + c["targets"], c["targets"])):
            continue
        if c["gone"] is not None and rng.random() < 0.6 and integ in fixed and abs(tm - c["t0"]) < 20:
            c["gone"] = run_lib(rebound, dict(c, events=[], gone=None, targets=c["targets"][:1]))[2]
        sim = new_sim(rebound, integ, c["t0"], c["dt"])
        ev = dict(c["events"])
        for ci, tm in enumerate(c["targets"]):
            if ci > 0 and multi and rng.random() < 0.5:
                # another integrator for the next call on the same simulation object: the contract is per call
                integ = rng.choice([i_ for i_ in integs if i_ not in ("janus",)])
                sim.integrator = integ
                c = dict(c, switched=c.get("switched", []) + [(ci, integ)])
                if integ in ("ias15", "bs", "mercurius", "trace") and abs(tm - sim.t) > 20:
                    break
            ts = []
            steps0 = sim.steps_done
            t_before, dt_before = sim.t, sim.dt
            evc = ev if ci == 0 else {}
            gone = c.get("gone") if ci == 0 else None
            deg = dt_before != dt_before or tm != tm or (dt_before == 0 and tm != t_before)
            capo = 12 if deg else (int(abs(tm - t_before) / abs(dt_before)) + 12) if (integ in fixed and dt_before != 0) else 200000
            def hb(simp, ev=evc, ts=ts, steps0=steps0, capo=capo, gone=gone):
                s = simp.contents
                ts.append(s.t)
                kk = s.steps_done - steps0
                if gone is not None and kk >= gone and s.N > 0:
                    rebound.clibrebound.reb_simulation_remove_all_particles(simp)
                if kk in ev and s._status < 0:
                    s._status = ev[kk]
                elif kk > capo and s._status < 0:
                    s._status = 98       # "did not terminate"
            sim.heartbeat = hb
            p0 = [(p.x, p.y, p.z, p.vx, p.vy, p.vz) for p in sim.particles]
            try:
                sim.integrate(tm, exact_finish_time=c["exact"])
            except Exception:
                pass
            st = sim._status
            ctx.case(key=("oracle", integ, c["exact"], st, min(ci, 1)))
            sign = 1.0 if tm > t_before else -1.0
            dt_user = math.copysign(dt_before, sign) if tm != t_before else dt_before
            why = None
            if deg:
                if sim.steps_done != steps0 or not (sim.t == t_before) or st not in (1, 2) or (st == 2 and gone != 0):
                    why = ("integrate() with degenerate arguments (dt=%r, tmax=%r, t=%r) must return an error at once: status %d, %d steps, t=%r"
                           % (dt_before, tm, t_before, st, sim.steps_done - steps0, sim.t))
                if why:
                    fails.append({"why": why, "case": c, "call": ci, "before": {"t": t_before, "dt": repr(dt_before)},
                                  "final": {"t": sim.t, "dt": repr(sim.dt), "status": st, "steps": sim.steps_done - steps0}})
                break
            if st == 98:
                why = "integrate did not reach the target within %d steps (|tmax-t|/|dt| = %.3g)" % (capo, abs(tm - t_before) / abs(dt_before or 1))
            if st == 0:
                if c["exact"] and tm != t_before:
                    tscale = 1e-12 * abs(tm)
                    if tscale < 1e-200: tscale = 1e-12
                    if not (sim.t == tm or abs(sim.t - tm) < tscale): why = "exact finishing missed the target: t=%r tmax=%r" % (sim.t, tm)
                elif not c["exact"] and tm != t_before and integ in fixed:
                    if not (sign * sim.t >= sign * tm and sign * (sim.t - tm) < abs(dt_before) * (1 + 1e-9)):
                        why = "non-exact finishing: t=%r not in [tmax, tmax+|dt|)" % sim.t
            if tm == t_before and st == 0 and gone is None:
                p1 = [(p.x, p.y, p.z, p.vx, p.vy, p.vz) for p in sim.particles]
                if sim.t != t_before or sim.dt != dt_before or sim.steps_done != steps0 or any(a != b for a, b in zip(p0, p1)):
                    why = "integrate to the current time is not a no-op"
            if any(sign * (b - a) < 0 for a, b in zip(ts, ts[1:])) and tm != t_before:
                why = "time moved against the direction of integration"
            if integ in fixed and c["exact"] and sim.dt != dt_user and st >= 0:
                why = "step size not restored: dt=%r, user dt=%r, status=%d" % (sim.dt, dt_user, st)
            if evc:
                kk = sorted(evc)[0]; nsteps_ = sim.steps_done - steps0
                # (an event scheduled after the time-based exit legitimately never happens: nsteps_ < kk)
                if nsteps_ > kk:
                    why = "an exit condition raised at step boundary %d was passed over: %d steps taken, status %d" % (kk, nsteps_, st)
                elif nsteps_ == kk and st != evc[kk] and not (gone == kk and st == 2):   # both at one boundary: either names it
                    why = "status %d does not name the exit condition %d raised at the boundary where the run stopped" % (st, evc[kk])
            if gone is not None:
                nsteps_ = sim.steps_done - steps0
                # (a loss scheduled after the time-based exit never happens: nsteps_ < gone)
                if nsteps_ > gone:
                    why = "the simulation was empty at step boundary %d but %d steps were taken (status %d)" % (gone, nsteps_, st)
                elif nsteps_ == gone and st != 2:
                    why = "the simulation lost its last particle at the boundary where the run stopped, but the status is %d, not NO_PARTICLES" % st
                elif nsteps_ < gone and st == 2:
                    why = "NO_PARTICLES reported at boundary %d, before the particles were removed (boundary %d)" % (nsteps_, gone)
            if why:
                fails.append({"why": why, "case": c, "call": ci, "before": {"t": t_before, "dt": dt_before},
                              "final": {"t": sim.t, "dt": sim.dt, "status": st, "steps": sim.steps_done - steps0}})
            if why or st != 0:
                break
    # the contract AFTER an error path was taken once on the same object: a call that raised (unsupported option, degenerate
    # arguments, refused configuration) must not make the next, valid call fail or stop short of its target
    def _bad_janus(sim): sim.integrator = "janus"; sim.ri_janus.order = 5
    def _fix_janus(sim): sim.ri_janus.order = rng.choice([2, 4, 6])
    def _bad_dt(sim): sim.dt = rng.choice([0.0, float("nan")])
    def _fix_dt(sim): sim.dt = 0.01
    def _bad_saba(sim): sim.integrator = "saba"; sim.ri_saba.type = "(10,6,4)"; sim.ri_whfast.coordinates = "whds"; sim.ri_saba.safe_mode = 1
    def _fix_saba(sim): sim.ri_whfast.coordinates = "jacobi"
    def _bad_tmax(sim): pass
    for rep in range(ctx.scale(8, 40)):
        name, bad, fix = rng.choice([("janus-order", _bad_janus, _fix_janus), ("dt-degenerate", _bad_dt, _fix_dt),
                                     ("tmax-nan", _bad_tmax, _bad_tmax), ("saba-coordinates", _bad_saba, _fix_saba)])
        sim = new_sim(rebound, rng.choice(["whfast", "leapfrog", "ias15", "saba"]), 0.0, 0.01)
        steps00 = sim.steps_done
        def hb_cap(simp, steps00=steps00):
            s_ = simp.contents
            if s_.steps_done - steps00 > 3000 and s_._status < 0: s_._status = 98      # a call that never ends ends here
        sim.heartbeat = hb_cap
        import warnings as _w
        with _w.catch_warnings():
            _w.simplefilter("ignore")
            bad(sim)
            raised = False
            try:
                sim.integrate(float("nan") if name == "tmax-nan" else sim.t + 0.5)
            except Exception:
                raised = True
            fix(sim)
            t_before = sim.t; tm = t_before + rng.choice([0.3, 1.0])
            err = None
            try:
                sim.integrate(tm)
            except Exception as ex:
                err = repr(ex)[:160]
        ctx.case(key=("after-error", name, raised))
        if sim._status == 98:
            fails.append({"why": "a call in the scenario '%s' did not return within 3000 steps (t=%r dt=%r)" % (name, sim.t, sim.dt), "scenario": name})
        elif raised and (err is not None or sim._status != 0 or not (sim.t == tm or abs(sim.t - tm) < 1e-12 * abs(tm))):
            fails.append({"why": "after a call that raised (%s) the next valid integrate(%r) on the same object %s: t=%r status=%d"
                                 % (name, tm, ("raised " + err) if err else "did not reach its target", sim.t, sim._status),
                          "scenario": name, "integrator_after": sim.integrator})
    # history vs fresh: after any call sequence (exact or not, either direction, an exit raised and cleared), the object must
    # continue to the next target exactly like a FRESH simulation holding the same particles, time, dt and settings: integrate()
    # keeps no memory between calls (fixed-step integrators in safe mode: bit for bit, including t, dt and the step count taken)
    for rep in range(ctx.scale(12, 80)):
        integ = rng.choice(["leapfrog", "whfast", "saba", "eos", "none", "sei"])
        t0 = rng.choice([0.0, rng.uniform(-3, 3)]); dt0 = rng.choice([0.05, 0.07, 0.125]) * rng.choice([1, -1])
        hist = new_sim(rebound, integ, t0, dt0)
        import warnings as _w2
        with _w2.catch_warnings():
            _w2.simplefilter("ignore")
            ops = []
            for _ in range(rng.randint(1, 3)):
                tm_ = hist.t + rng.choice([1, 1, -1]) * rng.choice([0.0, 0.03, 0.3, 1.0, 0.07 * 5])
                ex_ = rng.choice([0, 1]); ops.append((tm_, ex_))
                try: hist.integrate(tm_, exact_finish_time=ex_)
                except Exception: pass
            if rng.random() < 0.3:
                # an exit condition raised once and left behind: the next call must start RUNNING again
                hist.exit_max_distance = 1e-3
                try: hist.integrate(hist.t + 0.5)
                except Exception: pass
                hist.exit_max_distance = 0.0; ops.append(("escape raised once", None))
            fresh = rebound.Simulation(); fresh.G = hist.G; fresh.t = hist.t
            for p_ in hist.particles: fresh.add(m=p_.m, x=p_.x, y=p_.y, z=p_.z, vx=p_.vx, vy=p_.vy, vz=p_.vz)
            if integ == "sei": fresh.ri_sei.OMEGA = 1.0
            fresh.integrator = integ; fresh.dt = hist.dt
            tm = hist.t + rng.choice([1, -1]) * rng.choice([0.3, 1.0, 0.07 * 3, 0.02]); ex = rng.choice([0, 1])
            sa0, sb0 = hist.steps_done, fresh.steps_done
            ea = eb = None
            try: hist.integrate(tm, exact_finish_time=ex)
            except Exception as e_: ea = repr(e_)[:80]
            try: fresh.integrate(tm, exact_finish_time=ex)
            except Exception as e_: eb = repr(e_)[:80]
        va = [x for p_ in hist.particles for x in (p_.x, p_.y, p_.z, p_.vx, p_.vy, p_.vz)] + [hist.t, hist.dt]
        vb = [x for p_ in fresh.particles for x in (p_.x, p_.y, p_.z, p_.vx, p_.vy, p_.vz)] + [fresh.t, fresh.dt]
        ctx.case(key=("history-vs-fresh", integ, ex))
        if ea != eb or hist._status != fresh._status or hist.steps_done - sa0 != fresh.steps_done - sb0 or any(not vlib.same_bits(a_, b_) for a_, b_ in zip(va, vb)):
            fails.append({"why": "integrate(%r, exact_finish_time=%d) on an object with the call history %r differs from the same call on a fresh simulation "
                                 "holding the same particles, t and dt: status %d/%d, steps %d/%d, t %r/%r, dt %r/%r, %s/%s"
                                 % (tm, ex, ops, hist._status, fresh._status, hist.steps_done - sa0, fresh.steps_done - sb0, hist.t, fresh.t, hist.dt, fresh.dt, ea, eb),
                          "integrator": integ, "t0": t0, "dt": dt0, "history": jsafe(ops), "tmax": tm, "exact": ex})
    # a first step far below the resolution of t is a VALID input for the adaptive integrators (dt is only their first
    # guess and grows by itself): large epochs (Julian dates), continued runs, both directions, both finishing modes
    for rep in range(ctx.scale(6, 30)):
        integ = rng.choice(["ias15", "bs"])
        t0 = rng.choice([1e6, 2460000.5, -3e5, 2e4])
        dt0 = rng.choice([1e-11, 1e-10, 1e-12, 5e-13]) * rng.choice([1, -1])
        sgn = rng.choice([1, -1]); ex = rng.choice([0, 1])
        sim = new_sim(rebound, integ, t0, dt0)
        tm = t0 + sgn * rng.choice([0.5, 1.0, 2.5])
        steps00 = sim.steps_done
        def hb_cap2(simp, steps00=steps00):
            s_ = simp.contents
            if s_.steps_done - steps00 > 20000 and s_._status < 0: s_._status = 98
        sim.heartbeat = hb_cap2
        err = None
        try:
            sim.integrate(tm, exact_finish_time=ex)
        except Exception as ex_:
            err = repr(ex_)[:160]
        ctx.case(key=("tiny-first-step", integ, ex))
        ok = err is None and sim._status == 0 and ((sim.t == tm or abs(sim.t - tm) < 1e-12 * abs(tm)) if ex else sgn * (sim.t - tm) >= 0)
        if not ok:
            fails.append({"why": "%s started at t=%r with first step %r (below the resolution of t, valid for an adaptive integrator) did not integrate to %r: %s t=%r status=%d"
                                 % (integ, t0, dt0, tm, err or "", sim.t, sim._status), "integrator": integ, "t0": t0, "dt": dt0, "tmax": tm, "exact": ex})
    # either direction of time, for the hybrid integrator's sub-integrations too: TRACE integrating backward through a
    # pericentre switch must be the mirror image of the velocity-reversed forward run (child process: see the driver)
    import subprocess as _sp
    drv = os.path.join(os.path.dirname(os.path.abspath(__file__)), "c08_trace_child.py")
    for peri in ("FULL_BS", "FULL_IAS15", "PARTIAL_BS"):
        for dtv, T in ((-1.0, 5.0), (-0.7, 4.2))[:ctx.scale(1, 2)]:
            try:
                r_ = vlib.run_py(libdir, drv, [libdir, peri, dtv, T], timeout=120)
                out_, rc_ = r_.stdout.strip(), r_.returncode
            except _sp.TimeoutExpired:
                out_, rc_ = "did not return within 120 s", -1
            ctx.case(key=("trace-backward", peri, dtv))
            bad = None
            if rc_ != 0 or not out_.startswith("maxdiff"):
                bad = "child process exit %s: %s" % (rc_, (out_ or r_.stderr)[-200:])
            else:
                tok = out_.split()
                dmax = float(tok[1]); ta, tb = float(tok[3]), float(tok[4])
                if not (ta == -T and tb == T): bad = "did not reach the targets: t=%r / %r" % (ta, tb)
                elif not dmax < 1e-6: bad = "backward run differs from the mirrored forward run by %.3g" % dmax
            if bad:
                fails.append({"why": "TRACE (peri_mode %s) integrating backward (dt=%r, to t=%r): %s" % (peri, dtv, -T, bad),
                              "integrator": "trace", "peri_mode": peri, "dt": dtv, "tmax": -T})
    # split == direct, bitwise, fixed-step, exact_finish_time=0
    for k in range(ctx.scale(60, 600)):
        integ = ["leapfrog", "whfast", "saba", "eos", "janus", "none"][k % 6]
        t0 = rng.choice([0.0, rng.uniform(-5, 5)]); dt = rng.choice([0.1, 0.07, 0.25]) * rng.choice([1, -1])
        sign = rng.choice([1, -1])
        # successive targets are more than |dt| apart: a target that already lies inside the overshoot of the previous
        # call makes integrate() reverse direction (documented semantics of integrate), which is outside the property
        cuts = []
        cur = 0.0
        for _ in range(rng.randint(1, 3)):
            cur += abs(dt) * 1.01 + rng.uniform(0.0, 0.9)
            cuts.append(cur)
        cuts = [c_ for c_ in cuts if c_ < 3.0 - abs(dt) * 1.01] or [1.0]
        end = 3.0 + rng.uniform(0, 1)
        a = new_sim(rebound, integ, t0, dt); b = new_sim(rebound, integ, t0, dt)
        for cpt in cuts: a.integrate(t0 + sign * cpt, exact_finish_time=0)
        a.integrate(t0 + sign * end, exact_finish_time=0); b.integrate(t0 + sign * end, exact_finish_time=0)
        sa = [x for p in a.particles for x in (p.x, p.y, p.z, p.vx, p.vy, p.vz)] + [a.t]
        sb = [x for p in b.particles for x in (p.x, p.y, p.z, p.vx, p.vy, p.vz)] + [b.t]
        ctx.case(key=("split", integ, len(cuts)))
        if any(not vlib.same_bits(x, y) for x, y in zip(sa, sb)) or a.steps_done != b.steps_done:
            fails.append({"why": "split integration differs bitwise from the direct one", "integrator": integ, "t0": t0, "dt": dt,
                          "cuts": cuts, "end": end, "sign": sign})
    if fails:
        f = fails[0]
        ctx.violation("integrate-contract:" + f["why"].split(":")[0], jsafe(f), True, f["why"])
    ctx.rule = ("coincidence-biased (t0, dt, tmax, exact_finish_time, boundary events, split targets): tmax = t0 + k*dt exactly / +-1,2 ulp, "
                "dt larger than the interval, tmax = t0, tmax = 0, both directions, dt sign against direction; distinct by (integrator, exact, status, steps, #targets)")
    ctx.assumptions += [
        "PAUSED/SCREENSHOT states, usleep, MPI and tmax=INFINITY are outside the model; N==0 is modelled as a history (the boundary at which the last particle vanishes), user ODEs without particles are not",
        "copysign(1.,dt) is modelled as dt<0 ? -1 : 1; they differ only for dt = -0.0, which integrate() refuses (tmax != t) or never looks at (tmax == t: SUCCESS before any use of the sign); -0.0 is among the generated steps",
        "termination in binary64 is not a theorem: the model runs on fuel and reports exhaustion; the R theorems give the step count",
        "adaptive integrators (IAS15, BS) and hybrid rejections are covered by the library-only contract oracle, not by the stepper models",
    ]
