"""C19 — concurrent simulations do not interfere; served snapshots are consistent.

1. regeneration: tools/translate_lockproto.py (ordered synchronisation skeleton of reb_simulation_integrate_raw and of every
   request handler of server.c) and tools/translate_statics.py (every object with static storage, its writers, external calls;
   default and -DAVX512 configuration) -> coq/Gen/LockProto.v, coq/Gen/Statics.v
2. proof obligations: coq/C19 (all interleavings of the integrator and the server thread; no shared written statics; commutation)
3. correspondence of the statics list with the COMPILED library: writable data symbols of librebound (nm) vs the generated list
4. validation on REAL THREADS (what the model cannot exhibit; labelled as validation, not proof), in child processes:
   (a) simulations of every integrator type, create/integrate/copy/save/load/continue/free, sequential vs concurrent threads
   (b) built-in web server: snapshots fetched continuously while integrating with slowed-down steps; every body must be a
       recorded step-boundary state, continue to the reference end state, and the trajectory must not change
   (c) hunt for the refuted clause (synchronize outside the mutex -> torn snapshot)            [known finding when it hits]
   (e) save/load of simulation B while simulation A's server thread handles requests (descriptor double close) [known finding when it hits]
   (l) every server scenario also against the UNOBSERVED run (no server, nothing ever serialised); scenarios with variational particles /
       MEGNO, test particles, a user ODE, collisions; correspondence of the audited IAS15 compression with the Gallina model
   (q) error paths of the server life cycle with other serving simulations and open archives as witnesses
   (j) per integrator type: 4 simulations of that type at the same time in 4 threads vs sequentially (same-code-path overlap)
   (i) co-residency, one class per kind of process-global state (libc rng, static caches): B alone in a fresh process vs after / next to
       other simulations vs served + continued
   (h) keyboard requests (pause / single step / 50 steps / resume) + pulls vs run without a server, WHFast/MERCURIUS/SABA safe_mode=0, IAS15
   (f) a heartbeat that also writes in the prologue call; (g) sim.steps(n) next to a serving simulation   [known findings]
   (d) -DAVX512 build: two WHFast512 simulations alternated in one thread vs separate (fixed by /repo 85499fd: regression guard)
       and stepped concurrently from two threads vs separate                                   [known finding]
"""
import json, os, re, subprocess, sys, time
from concurrent.futures import ThreadPoolExecutor
import vlib

DRIVER = os.path.join(vlib.ROOT, "tools", "c19_driver.py")
TOOLCHAIN_SYMS = re.compile(r"^(_DYNAMIC|_GLOBAL_OFFSET_TABLE_|__TMC_END__|__do_global_dtors_aux_fini_array_entry|__dso_handle|"
                            r"__frame_dummy_init_array_entry|completed\.\d+|__bss_start|_edata|_end|__data_start|data_start|"
                            r"object\.\d+|dtor_idx\.\d+|__JCR_END__|__JCR_LIST__|__EH_FRAME_BEGIN__|_fini|_init)$")
# corners of what the property quantifies over ("all simulations"): sizes, degenerate values, signs, magnitudes, error paths
CORNERS = ["empty", "star_only", "one_planet", "zero_mass", "coincident", "nan", "inf", "huge", "subnormal", "negative_zero", "t_nonzero",
           "dt_negative", "tmax_equals_t", "e_zero", "e_near_one", "inc_zero", "inc_pi", "zero_radius_collisions", "equal_hashes", "after_error"]
INTEGRATORS = ["leapfrog", "whfast", "saba", "eos", "janus", "ias15", "bs", "mercurius", "trace", "sei"]


def ensure_lib(libdir):
    """the build cache is shared: a concurrent check of another tree state may purge this library directory.  Rebuild when it is gone."""
    so = os.path.join(libdir, "librebound" + vlib.SUFFIX)
    if os.path.exists(so) and os.path.exists(os.path.join(libdir, "rebound")):
        return libdir
    variant = "avx512" if os.path.basename(libdir).startswith("lib-avx512-") else "default"
    try:
        return vlib.build_lib(variant)
    except Exception:
        return libdir


def drive_once(libdir, mode, params, timeout):
    """-> (result | None, diagnostic, kind) ; kind in ok / timeout / signal / error"""
    libdir = ensure_lib(libdir)
    import tempfile
    fd, rpath = tempfile.mkstemp(prefix="c19res_", suffix=".json")
    os.close(fd); os.remove(rpath)
    try:
        r = subprocess.run([vlib.PY, DRIVER, mode], env=dict(vlib.pyenv(libdir), C19_RESULT_FILE=rpath), input=json.dumps(params),
                           capture_output=True, text=True, errors="replace", timeout=timeout)
    except subprocess.TimeoutExpired:
        for q in (rpath, rpath + ".tmp"):
            try: os.remove(q)
            except OSError: pass
        return None, "timeout after %ds" % timeout, "timeout"
    MARK = "@@C19RESULT@@"
    rec = None
    try:
        rec = open(rpath).read()                      # the record in its own file (stdout is shared with the library's printf)
    except OSError:
        rec = None
    for q in (rpath, rpath + ".tmp"):
        try: os.remove(q)
        except OSError: pass
    if rec is None and MARK in r.stdout:
        # the library writes to the same stdout (printf without a trailing newline): the record is tagged, not recognised by its position
        rec = r.stdout[r.stdout.rindex(MARK) + len(MARK):].splitlines()[0]
    if r.returncode < 0:
        return None, "killed by signal %d: %s" % (-r.returncode, (r.stdout + r.stderr)[-600:]), "signal"
    if r.returncode != 0 or rec is None:
        return None, "exit status %d: %s" % (r.returncode, (r.stdout + r.stderr)[-600:]), "error"
    try:
        return json.loads(rec), "", "ok"
    except ValueError:
        return None, "unparsable driver output: " + rec[:300], "error"


def drive(libdir, mode, params, timeout, attempts=3):
    """run the driver in a child process.  A death by signal (segfault/abort inside the library) is reported at once; a timeout or
    a Python-level failure (port taken, descriptor trouble, machine load) is retried with a doubled time budget and only reported
    when every attempt fails, so that load never turns into a violation.  -> (result | None, diagnostic)"""
    diags = []
    for i in range(attempts):
        res, diag, kind = drive_once(libdir, mode, params, timeout * (2 ** i))
        if res is not None:
            if diags:
                res["_retries"] = diags
            return res, ""
        diags.append(diag[-300:])
        if kind == "signal" or (kind == "timeout" and i >= 1):
            break
    return None, " | ".join(diags)


def writable_symbols(libdir):
    r = None
    for _ in range(3):
        so = os.path.join(ensure_lib(libdir), "librebound" + vlib.SUFFIX)
        r = subprocess.run(["nm", so], capture_output=True, text=True)
        if r.returncode == 0 and r.stdout.strip():
            break
        time.sleep(1.0)
    out = set()
    for line in r.stdout.splitlines():
        parts = line.split()
        if len(parts) == 3 and parts[1] in "bBdDcCsSgG":
            if not TOOLCHAIN_SYMS.match(parts[2]):
                out.add(re.sub(r"\.\d+$", "", parts[2]))       # function-local statics are emitted as name.N
    return r.returncode == 0 and bool(r.stdout.strip()), out


def check_statics_vs_binary(ctx, cfg, libdir, gen):
    ok, syms = writable_symbols(libdir)
    nonconst = {o["name"] for o in gen[cfg]["statics"] if not o["const"]}
    written = {o["name"] for o in gen[cfg]["statics"] if not o["const"] and o["writers"]}
    extra = sorted(syms - nonconst)          # writable in the binary, unknown to (or const for) the translator
    missing = sorted(written - syms)         # written according to the translator, not writable in the binary
    ctx.obligation("correspondence:C19 writable data symbols of the compiled library [%s] == generated mutable statics "
                   "(%d symbols; written set %s)" % (cfg, len(syms), sorted(written)),
                   ok and not extra and not missing, "in binary but not in Statics.v as non-const: %s; written in Statics.v but not "
                   "writable in binary: %s" % (extra, missing))
    ctx.traces += len(syms)
    for s in sorted(syms):
        ctx.case(key=("sym", cfg, s), sample={"config": cfg, "writable_symbol": s} if len(ctx.samples) < 2 else None)
    return ok and not extra and not missing


def conc_params(ctx, nper, rounds):
    rng = ctx.rng
    specs = []
    for integ in INTEGRATORS:
        for j in range(nper):
            s = {"integrator": integ, "n": rng.randint(2, 6), "seed": rng.randint(1, 10 ** 6), "dt": rng.choice([0.01, 0.02, 0.005]),
                 "eft": rng.choice([0, 1]), "m0": rng.choice([1.0, 0.7, 1.9]),
                 "G": rng.choice([1.0, 1.0, 0.5, 2.0]), "softening": rng.choice([0.0, 0.0, 1e-3]), "id": len(specs)}
            cost = {"ias15": 6.0, "bs": 3.0, "mercurius": 8.0, "trace": 8.0, "janus": 30.0, "saba": 30.0, "eos": 20.0}.get(integ, 40.0)
            s["t1"] = round(cost * rng.uniform(0.7, 1.3), 3)
            s["t2"] = round(2 * s["t1"] * rng.uniform(0.9, 1.2), 3)
            if integ == "whfast":
                s["safe_mode"] = j % 2
                s["corrector"] = rng.choice([0, 3, 11])
            if integ == "janus":
                s["eft"] = 0
                s["order"] = rng.choice([2, 4, 6])
            if integ == "sei":
                s["n"] = rng.randint(3, 30)
            specs.append(s)
    # degenerate corners of the quantified space, each on a randomly chosen integrator
    for cn in CORNERS:
        integ = rng.choice(INTEGRATORS[:-1])
        if cn == "coincident" and integ == "trace":
            integ = "mercurius"      # TRACE never finishes its first step with two coincident particles (status becomes GENERIC_ERROR inside the
                                     # step but the encounter integration keeps looping): an integrate()-contract defect outside C19, reported
        s = {"integrator": integ, "n": {"star_only": 0, "one_planet": 1}.get(cn, rng.randint(2, 4)), "seed": rng.randint(1, 10 ** 6), "dt": 0.01,
             "eft": rng.choice([0, 1]) if integ != "janus" else 0, "corner": cn, "t1": 0.3, "t2": 0.7, "safe_mode": rng.choice([0, 1])}
        specs.append(s)
    for i, s in enumerate(specs):
        s["id"] = i
    rng.shuffle(specs)
    offsets = [[round(rng.choice([0.0, 0.0, rng.uniform(0, 0.02)]), 4) for _ in specs] for _ in range(rounds)]
    return {"specs": specs, "rounds": rounds, "offsets": offsets, "timeout": 150}


def server_params(ctx, integ):
    rng = ctx.rng
    spec = {"integrator": integ, "n": rng.randint(2, 5), "seed": rng.randint(1, 10 ** 6), "dt": rng.choice([0.01, 0.02]), "safe_mode": 1,
            "corrector": 0}
    per_step_calls = {"ias15": 25, "bs": 120, "eos": 4, "saba": 4, "janus": 4}.get(integ, 1)
    nsteps = rng.randint(60, 110)
    sleep_ms = round(max(0.15, rng.uniform(6.0, 14.0) / per_step_calls), 3)
    nc = rng.randint(2, 4)
    tmax = nsteps * spec["dt"] if integ not in ("ias15", "bs") else (rng.uniform(12.0, 20.0) if integ == "ias15" else rng.uniform(50.0, 80.0))   # adaptive steps: ~0.2 (ias15) / ~1 (bs) time units
    return {"seed": rng.randint(1, 10 ** 6), "spec": spec, "sleep_ms": sleep_ms, "tmax": round(tmax, 6), "eft": 0, "calls": rng.choice([1, 2, 3]),
            "clients": nc, "client_delays": [round(rng.uniform(0, 0.05), 4) for _ in range(nc)],
            "client_pauses": [rng.choice([0, 0, 0.001, 0.004]) for _ in range(nc)], "other_requests": rng.random() < 0.5, "continue": 5}


def run(ctx):
    libdir = ctx.lib()
    if ctx.thorough:
        os.environ["VERIF_C19_FULL"] = "1"
    ctx.regen("translate_lockproto.py")
    ctx.regen("translate_statics.py", timeout=600)
    proved = ctx.prove("C19")
    ctx.level = "proof"

    # ---------------------------------------------------------------- statics list vs compiled library
    gen = None
    try:
        gen = json.load(open(os.path.join(vlib.BUILD, "c19", "statics.json")))
    except Exception as e:
        ctx.obligation("generated statics.json readable", False, repr(e))
    libavx = None
    try:
        libavx = ctx.lib("avx512")
    except RuntimeError as e:
        ctx.obligation("avx512 configuration builds", False, str(e)[-800:])
    if gen:
        check_statics_vs_binary(ctx, "default", libdir, gen)
        if libavx:
            check_statics_vs_binary(ctx, "avx512", libavx, gen)

    # ---------------------------------------------------------------- real threads, child processes in parallel
    jobs = []
    pc = conc_params(ctx, ctx.scale(2, 5), ctx.scale(3, 12))
    jobs.append(("conc", libdir, "conc", pc, 400))
    # the same simulations in the opposite order in a SECOND process: state that leaks from one simulation into the next
    # (e.g. a value cached in a static on first use) makes the two sequential baselines differ
    pc_rev = dict(pc, specs=list(reversed(pc["specs"])), offsets=[list(reversed(o)) for o in pc["offsets"]], rounds=1)
    jobs.append(("conc-reversed", libdir, "conc", pc_rev, 400))
    srv_integs = list(INTEGRATORS[:-1])        # sei has no gravity; the server test uses the gravitating set
    ctx.rng.shuffle(srv_integs)
    for integ in (srv_integs if ctx.thorough else srv_integs[:4]):
        jobs.append(("server:" + integ, libdir, "server", server_params(ctx, integ), 240))
    # optional state the serializer has to carry: variational particles / MEGNO, test particles, a user ODE, collisions
    for oname, ospec, tm, sl in (
            ("ias15+megno", {"integrator": "ias15", "megno": 1}, 15.0, 0.2),
            ("ias15+variations+testparticles", {"integrator": "ias15", "variations": ctx.rng.randint(1, 3), "n_test": ctx.rng.randint(1, 3)}, 15.0, 0.2),
            ("whfast+variations+testparticles", {"integrator": "whfast", "variations": ctx.rng.randint(1, 2), "n_test": ctx.rng.randint(1, 3), "safe_mode": 1}, 1.0, 4.0),
            ("leapfrog+megno", {"integrator": "leapfrog", "megno": 1}, 1.0, 4.0),
            ("bs+ode", {"integrator": "bs", "ode": 1}, 40.0, 0.1),
            ("collisions", {"kind": "collide", "n": ctx.rng.randint(25, 40), "gravity": "none"}, 0.4, 3.0)):
        po = server_params(ctx, ospec.get("integrator", "leapfrog"))
        po["spec"] = dict(po["spec"], **ospec)
        po["spec"]["tmax"] = tm
        po.update({"tmax": tm, "sleep_ms": sl, "calls": ctx.rng.choice([1, 2]), "hb_two_writes": False,
                   "continue": 0 if oname in ("bs+ode",) else 3})
        jobs.append(("server-opt:" + oname, libdir, "server", po, 240))
    # request-shape edges (zero-length / unannounced / negative-length uploads, unknown paths and methods, over-long lines, empty
    # requests, connect-and-close ...) fired continuously next to the /simulation clients, over several integrate() calls so that the
    # first and the last step of a call are hit too
    for integ in (["leapfrog", "whfast"] if not ctx.thorough else ["leapfrog", "whfast", "ias15", "mercurius"]):
        pe = server_params(ctx, integ)
        pe.update({"other_requests": 2, "calls": 3, "continue": 3})
        jobs.append(("server-edges:" + integ, libdir, "server", pe, 240))
    # degenerate simulations behind the server
    for cn in (["empty", "star_only", "nan"] if not ctx.thorough else ["empty", "star_only", "one_planet", "zero_mass", "nan", "inf", "huge", "subnormal", "coincident"]):
        pcn = server_params(ctx, ctx.rng.choice(["leapfrog", "whfast", "ias15"]))
        pcn["spec"].update({"corner": cn, "n": {"star_only": 0, "one_planet": 1}.get(cn, pcn["spec"]["n"])})
        pcn.update({"tmax": 0.5 if pcn["spec"]["integrator"] != "ias15" else 2.0, "sleep_ms": 2.0, "hb_two_writes": False, "continue": 2})
        jobs.append(("server-corner:" + cn, libdir, "server", pcn, 240))
    # error paths of the server life cycle taken once, then the same process goes on; witnesses = other serving simulations + open archives
    jobs.append(("lifecycle", libdir, "lifecycle", {"seed": ctx.rng.randint(1, 10 ** 6)}, 240))
    # a client that goes away before the end of its request headers
    jobs.append(("incomplete-request", libdir, "incomplete", {"seed": ctx.rng.randint(1, 10 ** 6), "spec": {"integrator": "leapfrog", "n": 2, "seed": 5, "dt": 0.01},
                 "tmax": 0.3, "requests": ["GET /simulation HTTP/1.0\r\n", "GET /simulation", "GET /simulation HTTP/1.0\r\nHost: x\r\n", "POST /screenshot HTTP/1.0\r\nContent-Length: 3\r\n"]}, 120))
    pt = {"seed": ctx.rng.randint(1, 10 ** 6), "N": ctx.scale(12000, 20000), "clients": 2, "seconds": ctx.scale(2, 12)}
    jobs.append(("torn:eft0", libdir, "torn", dict(pt, eft=0), 400))      # synchronize after the loop (inside the mutex since /repo 8c50374)
    jobs.append(("torn:eft1", libdir, "torn", dict(pt, eft=1, seed=pt["seed"] + 7), 400))   # synchronize inside reb_check_exit (inside the mutex since /repo 8306d1e)
    # a user heartbeat that also writes when reb_simulation_integrate calls it in its prologue (outside the mutex)
    pp = server_params(ctx, "leapfrog")
    pp.update({"sleep_ms": 0.0, "tmax": 1.2, "calls": 60, "hb_prologue_too": True, "hb_gap_ms": 3, "continue": 0, "other_requests": False})
    pp["spec"]["dt"] = 0.01
    jobs.append(("prologue-heartbeat", libdir, "server", pp, 240))
    # sim.steps(n) / sim.step(): reb_simulation_step without the mutex
    ps = {"seed": ctx.rng.randint(1, 10 ** 6), "spec": {"integrator": ctx.rng.choice(["leapfrog", "whfast", "ias15"]), "n": 3,
          "seed": ctx.rng.randint(1, 10 ** 6), "dt": 0.01}, "sleep_ms": 4, "nsteps": 40, "clients": 2, "single_call": ctx.rng.random() < 0.5}
    if ps["spec"]["integrator"] == "ias15":
        ps["sleep_ms"] = 0.3
    jobs.append(("steps-api", libdir, "steps", ps, 240))
    # per-simulation determinism under co-residency, one scenario per class of process-global state the statics translator knows:
    #   rng          (rand/srand/random...: order-sensitive hard-sphere collisions, shuffled with the simulation's own rand_seed)
    #   static-cache (values cached in objects with static storage on first use: other simulations with different G / softening / dt)
    # each plan (solo / after others / next to others in threads / served + continued snapshot) runs in a FRESH process
    cores = []
    bq = {"kind": "collide", "n": ctx.rng.randint(30, 45), "seed": ctx.rng.randint(1, 10 ** 6), "tmax": 1.0,
          "collision": "direct", "gravity": ctx.rng.choice(["none", "basic"])}
    oq = [{"kind": "collide", "n": ctx.rng.randint(20, 35), "seed": ctx.rng.randint(1, 10 ** 6), "tmax": 0.5} for _ in range(2)]
    cores.append(("rng", bq, oq))
    for integ in (INTEGRATORS[:-1] if ctx.thorough else [ctx.rng.choice(INTEGRATORS[:-1])]):
        def orb(i, G):
            return {"integrator": i, "n": ctx.rng.randint(2, 4), "seed": ctx.rng.randint(1, 10 ** 6), "dt": ctx.rng.choice([0.01, 0.02]), "G": G,
                    "softening": ctx.rng.choice([0.0, 1e-3]), "safe_mode": ctx.rng.choice([0, 1]), "tmax": 6.0 if i in ("ias15", "bs", "mercurius", "trace") else 20.0}
        cores.append(("static-cache:" + integ, orb(integ, ctx.rng.choice([0.5, 2.0])), [orb(ctx.rng.choice(INTEGRATORS[:-1]), 1.0), orb(integ, 1.0)]))
    for cls, bspec, others in cores:
        for plan in ("solo", "after", "thread", "served"):
            jobs.append(("coresident:%s:%s" % (cls, plan), libdir, "coresident",
                         {"plan": plan, "b": bspec, "others": others, "seed": ctx.rng.randint(1, 10 ** 6), "usleep_us": 300 if cls == "rng" else 100}, 240))
    # keyboard commands (pause, single step, 50 steps, resume) + pulls must not change any bit of the trajectory
    try:
        kk = json.load(open(os.path.join(vlib.BUILD, "c19", "lockproto.json"))).get("keyboard_keys", [])
    except Exception:
        kk = []
    try:    # independent of the translator (which may have failed closed): every literal the handler text compares `key` with
        txt = open(os.path.join(vlib.REPO, "src", "server.c")).read()
        i0 = txt.index('"/keyboard/"'); txt = txt[i0:txt.index('"/screenshot"', i0)] if '"/screenshot"' in txt[i0:] else txt[i0:i0 + 6000]
        for m_ in re.finditer(r"(?:case\s+|key\s*==\s*)(?:'(.)'|(\d+))", txt):
            kk.append(ord(m_.group(1)) if m_.group(1) else int(m_.group(2)))
    except Exception:
        pass
    kk = sorted(set(kk))
    # every key the handler has a case for, except quit ('Q'), pause/step keys (sent in their own sequence); plus two keys it does not know
    other_keys = [k for k in kk if k not in (81, 32, 264, 267)] + [ctx.rng.randint(65, 90), ctx.rng.randint(300, 400)]
    other_keys = [k for k in other_keys if k != 81]
    for integ, extra, us, tm in (("whfast", {"safe_mode": 0, "corrector": ctx.rng.choice([0, 11])}, 200, 30.0), ("mercurius", {"safe_mode": 0}, 300, 25.0),
                                 ("saba", {"safe_mode": 0}, 200, 30.0), ("ias15", {}, 4000, 40.0), ("ias15", {"megno": 1, "n_test": 1}, 4000, 40.0)):
        pk = {"seed": ctx.rng.randint(1, 10 ** 6), "spec": dict({"integrator": integ, "n": ctx.rng.randint(2, 4), "seed": ctx.rng.randint(1, 10 ** 6),
              "dt": 0.01}, **extra), "tmax": tm, "usleep_us": us, "pause_at": round(ctx.rng.uniform(0.15, 0.5), 3),
              "pulls_before": ctx.rng.randint(0, 3), "pulls_after": ctx.rng.randint(0, 3), "page_down": True, "other_keys": other_keys}
        jobs.append(("keyboard:" + integ + ("+megno" if extra.get("megno") else ""), libdir, "keyboard", pk, 240))
    groups = []
    for integ in INTEGRATORS:
        cost = {"ias15": 40.0, "bs": 15.0, "mercurius": 60.0, "trace": 60.0, "janus": 150.0, "saba": 150.0, "eos": 120.0}.get(integ, 300.0)
        specs = [{"integrator": integ, "n": ctx.rng.randint(2, 5) if integ != "sei" else ctx.rng.randint(5, 20), "seed": ctx.rng.randint(1, 10 ** 6), "dt": 0.01,
                  "safe_mode": 1, "corrector": ctx.rng.choice([0, 3]), "tmax": round(cost * ctx.rng.uniform(0.8, 1.2), 2)} for _ in range(4)]
        groups.append({"name": integ, "specs": specs, "rounds": ctx.scale(2, 6)})
    jobs.append(("hammer", libdir, "hammer", {"groups": groups}, 400))
    # the server is started from a second thread while integrate() is already running
    for integ in (["leapfrog", "whfast"] if not ctx.thorough else ["leapfrog", "whfast", "mercurius", "saba"]):
        jobs.append(("latestart:" + integ, libdir, "latestart", {"seed": ctx.rng.randint(1, 10 ** 6), "spec": {"integrator": integ, "n": ctx.rng.randint(2, 4),
                     "seed": ctx.rng.randint(1, 10 ** 6), "dt": 0.01, "safe_mode": 1}, "tmax": 0.6, "sleep_ms": ctx.rng.choice([25, 40]),
                     "start_after_steps": ctx.rng.randint(4, 15), "clients": 2, "continue": 4}, 240))
    # histories in which the particle number changes: remove -> observe (save / copy / serve) -> add
    for integ in ["ias15", ctx.rng.choice(["whfast", "leapfrog", "mercurius", "trace"])] + (["whfast", "leapfrog", "mercurius", "saba"] if ctx.thorough else []):
        n = ctx.rng.randint(3, 5)
        jobs.append(("history:" + integ, libdir, "history", {"seed": ctx.rng.randint(1, 10 ** 6), "spec": {"integrator": integ, "n": n, "seed": ctx.rng.randint(1, 10 ** 6),
                     "dt": 0.01, "safe_mode": 1}, "t1": 3.0, "t2": 7.0, "remove_index": ctx.rng.randint(1, n), "steps_between": ctx.rng.choice([0, 3]),
                     "add_m": 1e-4, "add_a": round(1.0 + 0.45 * n + 0.7, 3)}, 240))
    jobs.append(("compress", libdir, "compress", {"seed": ctx.rng.randint(1, 10 ** 6), "cases": ctx.scale(120, 600)}, 240))
    jobs.append(("teardown", libdir, "teardown", {"seed": ctx.rng.randint(1, 10 ** 6), "spec": {"integrator": "whfast", "n": 3, "seed": ctx.rng.randint(1, 10 ** 6),
                 "dt": 0.01}, "tmax": 2.0, "iterations": ctx.scale(12, 60), "clients": 3}, 300))
    jobs.append(("fdclose", libdir, "fdclose", {"seed": ctx.rng.randint(1, 10 ** 6), "N": 3000, "clients": 3, "seconds": ctx.scale(3, 12)}, 200))
    if libavx:
        pw = {"seed": ctx.rng.randint(1, 10 ** 6), "steps": ctx.rng.randint(10, 40),
              "a": [1.0, 0], "b": [round(ctx.rng.uniform(1.3, 2.5), 3), 0], "thread_steps": ctx.scale(20000, 100000)}
        jobs.append(("w512:mass", libavx, "w512", pw, 120))
        pw2 = dict(pw, a=[1.0, 1], b=[1.0, 0], seed=pw["seed"] + 1, thread_steps=0)
        jobs.append(("w512:gr", libavx, "w512", pw2, 120))
    with ThreadPoolExecutor(max_workers=int(os.environ.get("VERIF_C19_PAR", "8"))) as ex:
        def run_job(j):
            res, diag = drive(j[1], j[2], j[3], j[4])
            if j[2] == "keyboard" and res is not None and not res.get("conclusive"):
                # the pause did not take effect in time (machine load): once more with a slower integration loop
                res2, diag2 = drive(j[1], j[2], dict(j[3], usleep_us=j[3]["usleep_us"] * 4), j[4])
                if res2 is not None:
                    res2["_first_attempt_inconclusive"] = True
                    res, diag = res2, diag2
            return (j, (res, diag))
        results = list(ex.map(run_job, jobs))

    served_total = 0
    seq_by_id = {}
    for (name, lib, mode, params, _), (res, diag) in results:
        if mode == "conc" and res:
            seq_by_id[name] = {params["specs"][int(k)]["id"]: v for k, v in res.get("sequential", {}).items()}
    if len(seq_by_id) == 2:
        a, b = seq_by_id["conc"], seq_by_id["conc-reversed"]
        diff = sorted(i for i in a if a[i] != b.get(i))
        ctx.obligation("validation: sequential results do not depend on which simulations ran before in the process (%d simulations, two "
                       "processes, opposite order)" % len(a), not diff, "simulation ids with order-dependent result: %s" % diff[:10])
        if diff:
            sp = [s for s in pc["specs"] if s["id"] == diff[0]][0]
            ctx.violation("order-dependent:" + sp["integrator"], {"mode": "conc", "variant": "default", "params": pc, "also_reversed_order": True,
                          "spec": sp, "forward": a[diff[0]], "reversed": b.get(diff[0])}, True,
                          "the final bits of a simulation depend on which other simulations ran earlier in the same process")
    # ---- co-residency: compare the plans of each class with the solo run
    core_res = {}
    for (name, lib, mode, params, _), (res, diag) in results:
        if mode == "coresident" and res is not None:
            core_res.setdefault(name.rsplit(":", 1)[0], {})[params["plan"]] = (res, params)
    for cls, plans in sorted(core_res.items()):
        if "solo" not in plans:
            continue
        solo = plans["solo"][0]
        bad = []
        for plan in ("after", "thread", "served"):
            if plan not in plans:
                continue
            r_, p_ = plans[plan]
            ctx.evaluations += 1
            ctx.case(key=(cls, plan))
            if r_["b"] != solo["b"] or r_["b_particles"] != solo["b_particles"]:
                bad.append((plan, "final state of B differs from B alone in a fresh process", p_))
            if plan == "served" and solo.get("restart_is_bitexact") and r_.get("b_continued_particles") not in (None, solo["b_particles"]):
                bad.append((plan, "snapshot of B served at t=%s and continued differs from B alone" % r_.get("snapshot_t"), p_))
        ctx.obligation("validation: %s — simulation B gives the same bits alone in a fresh process, after other simulations, next to other "
                       "simulations in threads, and served + continued (%d plans)" % (cls, len(plans)), not bad, "; ".join("%s: %s" % (a, b) for a, b, _ in bad))
        if bad:
            ctx.violation("%s:%s" % (cls.split(":")[0] + ":" + cls.split(":")[1], bad[0][0]),
                          {"mode": "coresident", "variant": "default", "params": bad[0][2], "compare_with_plan": "solo", "what": bad[0][1],
                           "solo": solo, "all": {k: v[0] for k, v in plans.items()}}, True,
                          "%s: %s" % (cls, bad[0][1]))
    for (name, lib, mode, params, _), (res, diag) in results:
        replay = {"mode": mode, "variant": "avx512" if lib == libavx and libavx else "default", "params": params}
        if res is None:
            # a crash / hang of the library under threads is itself a finding
            ctx.violation("crash-or-hang:" + name.split(":")[0], dict(replay, diagnostic=diag), True,
                          "child process running the %s scenario died or hung: %s" % (name, diag[:200]))
            continue
        if mode == "coresident":
            continue
        if mode == "conc":
            n = res["n"]
            ctx.evaluations += n * (params["rounds"] + 2)
            for s in params["specs"]:
                ctx.case(key=("conc", s["integrator"], s.get("safe_mode"), s["eft"]),
                         sample={"scenario": "threads", "integrator": s["integrator"], "bodies": s["n"]} if len(ctx.samples) < 4 else None)
            ctx.obligation("validation(real threads): sequential baseline is deterministic and error-free (%d simulations)" % n,
                           not res["baseline_nondeterministic"] and not res["errors"], json.dumps(res)[:800])
            ctx.obligation("validation(real threads): %d simulations x %d rounds, concurrent == sequential (bytes of final snapshots, "
                           "wall-clock fields and pointers masked)" % (n, params["rounds"]), not res["mismatch"], json.dumps(res["mismatch"][:2])[:1500])
            if res["mismatch"]:
                m = res["mismatch"][0]
                ctx.violation("concurrent:" + m["spec"]["integrator"], dict(replay, first_mismatch=m), True,
                              "simulation run concurrently with others ends in different bits than when run alone")
        elif mode == "lifecycle":
            ctx.evaluations += res["actions"] * (res["servers"] + res["archives"])
            ctx.case(key=("lifecycle", res["actions"]))
            ctx.extra["lifecycle"] = {k: res[k] for k in ("actions", "servers", "archives", "n_bad")}
            ctx.obligation("validation: server life-cycle error paths (port in use, start twice, stop twice, stop without start, start after stop, free "
                           "while serving; %d actions): every other serving simulation (%d) keeps answering with its own snapshot and every open "
                           "archive (%d) keeps returning its own bytes" % (res["actions"], res["servers"], res["archives"]), res["n_bad"] == 0,
                           json.dumps(res["violations"])[:900])
            if res["n_bad"]:
                v0 = res["violations"][0]
                ctx.violation("lifecycle:interference", dict(replay, first={"after": v0["action"], "observed": v0["bad"]}, trace=res["trace"]), True,
                              "after '%s': %s" % (v0["action"], "; ".join(v0["bad"])[:300]))
        elif mode == "incomplete":
            ctx.evaluations += len(res["steps"])
            ctx.case(key=("incomplete-request", res["serves_before"]))
            ctx.extra["incomplete_request"] = res
            bad = [st for st in res["steps"] if not st["serves_after"]] 
            ctx.obligation("validation: the scenario itself works (server serves before the incomplete requests; integration unaffected)",
                           res["serves_before"] and res["integration_ok"], json.dumps(res)[:500])
            if bad or not res["stop_server_returns"]:
                ctx.violation("server:incomplete-request-hangs-server", dict(replay, result=res), True,
                              "after a client that disconnects before the end of its request headers the server thread spins forever: no further "
                              "snapshot is served and reb_simulation_stop_server / free never return")
        elif mode == "latestart":
            ctx.evaluations += res["served"]
            served_total += res["served"]
            ctx.case(key=(name, res["served"] > 0))
            ctx.extra.setdefault("latestart", []).append({k: res.get(k) for k in ("served", "start_steps_done", "mid_step_in_start_step", "mid_step_later",
                                                                                  "continued", "continuation_mismatch", "unparsable", "err")})
            bad = []
            if res["mid_step_later"]: bad.append("%d snapshots served after the step in which the server came up are mid-step states, e.g. %s" % (res["mid_step_later"], res["examples"][:1]))
            if res["unparsable"]: bad.append("%d bodies do not parse" % res["unparsable"])
            if res["continuation_mismatch"]: bad.append("%d continued snapshots do not reach the reference end state" % res["continuation_mismatch"])
            if not res["trajectory_equal"]: bad.append("trajectory differs from the run without a server")
            ctx.obligation("validation(real threads): %s — server started from a second thread during integrate(): %d snapshots, all later ones are "
                           "boundary states, %d continued bit-for-bit" % (name, res["served"], res["continued"]), not bad, "; ".join(bad))
            if bad:
                ctx.violation("server:late-start", dict(replay, result=res), True, "; ".join(bad)[:400])
            if res["mid_step_in_start_step"]:
                ctx.violation("server:started-during-step", dict(replay, result=res), True,
                              "snapshots served during the very step in which reb_simulation_start_server was called from another thread are mid-step states "
                              "(that step began before the server existed and runs without the mutex)")
        elif mode == "history":
            ctx.evaluations += 7
            ctx.case(key=(name, params["steps_between"] > 0))
            ctx.extra.setdefault("history", []).append({"scenario": name, "agree": res["agree"]})
            if params["spec"]["integrator"] == "ias15":
                if not res["all_agree"]:
                    ctx.violation("ias15:stale_arrays_after_remove_then_add", dict(replay, result=res), True,
                                  "IAS15: remove a particle -> save / copy / serve -> add a particle: the later trajectory differs from the unobserved run")
            else:
                ctx.obligation("validation: %s — remove -> observe (save / copy / serve) -> add: original, restored, copy and served snapshot all equal "
                               "the unobserved run" % name, res["all_agree"], json.dumps(res))
                if not res["all_agree"]:
                    ctx.violation("history:" + params["spec"]["integrator"], dict(replay, result=res), True, "observation changes a remove/add history")
        elif mode == "compress":
            cases = res["cases"]
            body = ("From Coq Require Import List Arith.\nFrom RV Require Import C19.Conc.\nImport ListNotations.\n"
                    "Definition cases : list (nat * nat * nat) := [%s].\n"
                    "Fixpoint bad (l : list (nat * nat * nat)) (i : nat) : list nat := match l with [] => [] | (a, n, e) :: r => "
                    "(if Nat.eqb (ias15_compress a n) e then [] else [i]) ++ bad r (S i) end.\nEval vm_compute in (bad cases 0).\n"
                    % "; ".join("(%d, %d, %d)" % (c[0], c[1], c[3]) for c in cases))
            ok, out = vlib.coq_eval("c19_compress", body)
            badidx = vlib.parse_coq_list_nat(out) if ok else None
            second = [i for i, c in enumerate(cases) if c[4] != c[3] or not c[5]]
            ctx.traces += len(cases) if badidx is not None else 0
            ctx.evaluations += len(cases)
            for c in cases:
                ctx.case(key=("compress", c[0] > 3 * c[1], c[2] > 0, c[0] == 0))
            ctx.obligation("correspondence:C19 Gallina ias15_compress == ri_ias15.N_allocated after reb_simulation_save_to_stream on the library, %d "
                           "simulations (with/without variational particles, shrunk N, unstepped); a second serialisation changes nothing and yields the "
                           "same bytes" % len(cases), badidx == [] and not second,
                           "coq: %s; mismatching cases %s; not idempotent %s" % (out[-300:] if badidx is None else "", [cases[i] for i in (badidx or [])][:5], second[:5]))
            if badidx:
                c = cases[badidx[0]]
                ctx.violation("serializer:ias15-compression", dict(replay, case={"N_allocated_before": c[0], "N": c[1], "N_var": c[2], "N_allocated_after": c[3]}), True,
                              "reb_simulation_save_to_stream changed ri_ias15.N_allocated from %d to %d on a simulation with N=%d (N_var=%d); the audited "
                              "compression gives %d" % (c[0], c[3], c[1], c[2], min(c[0], 3 * c[1])))
        elif mode == "hammer":
            ctx.evaluations += res["runs"]
            for g in params["groups"]:
                ctx.case(key=("hammer", g["name"]))
            ctx.obligation("validation(real threads): %d integrator types, 4 simulations of the same type at the same time in 4 threads == one after "
                           "another (%d concurrent runs)" % (res["groups"], res["runs"]), not res["mismatch"], json.dumps(res["mismatch"][:1])[:800])
            if res["mismatch"]:
                m0 = res["mismatch"][0]
                ctx.violation("concurrent-same-type:" + m0["group"], dict(replay, first_mismatch=m0), True,
                              "simulations of the same integrator type running at the same time in different threads end in different bits than alone")
        elif mode == "teardown":
            ctx.evaluations += res["freed"] + res["restarted"]
            ctx.case(key=("teardown", res["freed"] > 0))
            ctx.extra["teardown"] = res
            ctx.obligation("validation: %d simulations freed (%d servers restarted) under continuous client load without crash; a fresh simulation afterwards "
                           "integrates to the reference bits" % (res["freed"], res["restarted"]), res["afterwards_equal"], json.dumps(res))
            if not res["afterwards_equal"]:
                ctx.violation("teardown:corrupts-later-simulation", dict(replay, result=res), True, "a simulation created after freeing served simulations gives different bits")
        elif mode == "keyboard":
            ctx.evaluations += 3
            ctx.case(key=(name, res["conclusive"]), sample={"scenario": "keyboard", "integrator": res["integrator"], "single_steps": res["single_steps"],
                                                           "multi_steps": res["multi_steps"], "pulls": res["pulls_running"]} if len(ctx.samples) < 6 else None)
            ctx.extra.setdefault("keyboard_runs", []).append({k: res.get(k) for k in ("integrator", "conclusive", "single_steps", "multi_steps", "pulls_running",
                                                                                     "final_differing_doubles", "snapshot_differing_doubles", "client_error")})
            bad = []
            if res["final_differing_doubles"] or not res["final_t_equal"] or not res["steps_equal"]:
                bad.append("final state after pause/step/resume + pulls differs from the run without a server in %d doubles" % res["final_differing_doubles"])
            if res["snapshot_differing_doubles"]:
                bad.append("snapshot pulled while paused, continued to tmax, differs from the reference in %d doubles" % res["snapshot_differing_doubles"])
            ctx.obligation("validation(real threads): %s — keyboard requests (pause, %d single steps, %d-step burst, resume) and %d pulls leave every bit of the "
                           "trajectory unchanged%s" % (name, res["single_steps"], res["multi_steps"], res["pulls_running"],
                                                       "" if res["conclusive"] else " [INCONCLUSIVE: pause did not take effect]"), not bad, "; ".join(bad))
            if bad:
                ctx.violation("server:request-alters-trajectory:" + res["integrator"], dict(replay, result=res), True, "; ".join(bad))
        elif mode == "steps":
            ctx.evaluations += res["served"]
            ctx.case(key=("steps-api", params["spec"]["integrator"], params["single_call"]))
            ctx.extra["steps_api"] = {k: res[k] for k in ("served", "boundaries", "not_a_boundary", "unparsable", "trajectory_equal")}
            ctx.obligation("validation: trajectory of sim.steps() is the same with and without clients", res["trajectory_equal"], json.dumps(res)[:400])
            if res["not_a_boundary"] or res["unparsable"]:
                ctx.violation("server:step-api-without-mutex", dict(replay, result=res), True,
                              "snapshots served while the user thread runs sim.steps(n)/sim.step() are mid-step states (reb_simulation_steps does not take the server mutex)")
        elif mode == "server" and name == "prologue-heartbeat":
            served_total += res["served"]
            ctx.evaluations += res["served"]
            ctx.case(key=("prologue-heartbeat", res["served"] > 0))
            ctx.extra["prologue_heartbeat"] = {k: res[k] for k in ("served", "boundaries", "n_not_a_boundary", "unparsable", "trajectory_equal")}
            ctx.obligation("validation: prologue-heartbeat scenario: trajectory unchanged by clients, bodies parse", res["trajectory_equal"] and not res["unparsable"], json.dumps(res)[:400])
            if res["n_not_a_boundary"]:
                ctx.violation("server:prologue-heartbeat-unlocked", dict(replay, result=res), True,
                              "a user heartbeat that writes the simulation in two steps is also called in the prologue of reb_simulation_integrate, outside the "
                              "mutex: served snapshots show one write without the other")
        elif mode == "server":
            served_total += res["served"]
            ctx.evaluations += res["served"]
            ctx.case(key=("server", params["spec"]["integrator"], params["calls"]),
                     sample={"scenario": "server", "integrator": params["spec"]["integrator"], "served": res["served"],
                             "boundaries": res["boundaries"], "distinct_served": res["distinct_served"]})
            bad = []
            if res["unparsable"]: bad.append("%d bodies do not parse as a snapshot" % res["unparsable"])
            if res["n_not_a_boundary"]: bad.append("%d snapshots are not a step-boundary state, e.g. %s" % (res["n_not_a_boundary"], res["not_a_boundary"][:1]))
            if res["continuation_mismatch"]: bad.append("continuing a served snapshot does not reach the reference end state: %s" % res["continuation_mismatch"][:1])
            if not res["trajectory_equal"]: bad.append("trajectory with clients differs from trajectory without")
            if not res.get("unobserved_equal", True):
                bad.append("final state of the served run differs from the UNOBSERVED run (no server, nothing ever serialised) in %s doubles"
                           % res.get("unobserved_differing_doubles"))
            ctx.obligation("validation(real threads): %s — %d snapshots served during %d step boundaries: all are boundary states, %d continued "
                           "bit-for-bit like the reference run's own snapshot of that boundary, trajectory unchanged" % (name, res["served"], res["boundaries"], res["continued"]), not bad, "; ".join(bad))
            ctx.extra.setdefault("server_runs", []).append({k: res[k] for k in ("served", "boundaries", "distinct_served", "continued",
                                                                             "full_stream_mismatch", "client_errors")} | {"continued_to_reference_end": res.get("continued_to_reference_end", 0)} | {"integrator": params["spec"]["integrator"]})
            if bad:
                ctx.violation("server:" + ("not-a-boundary" if res["n_not_a_boundary"] or res["unparsable"] else
                                           "trajectory-changed" if not (res["trajectory_equal"] and res.get("unobserved_equal", True)) else "continuation"),
                              dict(replay, result=res), True, "; ".join(bad)[:400])
        elif mode == "torn":
            ctx.evaluations += res["served"]
            served_total += res["served"]
            ctx.case(key=(name, res["served"] > 0))
            th = ctx.extra.setdefault("torn_hunt", {})
            th[name] = {k: res[k] for k in ("served", "calls", "suspicious", "unexplained")} | {"torn": len(res["torn"])}
            if res["torn"]:
                if params.get("eft", 0) == 0:
                    ctx.violation("server:unlocked-synchronize", dict(replay, torn=res["torn"][:3]), True,
                                  "snapshot served while the reb_simulation_synchronize after the integration loop runs mixes synchronised and unsynchronised particles")
                else:
                    ctx.violation("server:unlocked-check-exit-synchronize", dict(replay, torn=res["torn"][:3]), True,
                                  "snapshot served while reb_check_exit synchronises (exact_finish_time=1, outside the mutex) mixes synchronised and unsynchronised particles")
            # snapshots of this scenario that match no recorded state and are not classified as the known tear are recorded, not
            # judged: the scenario runs the known-defective path on purpose; the lock discipline itself is judged by the server scenarios
            if res["unexplained"]:
                th[name]["unexplained_detail"] = res.get("unexplained_detail", [])[:3]
        elif mode == "fdclose":
            ctx.evaluations += res["cycles"] + res["control_cycles"]
            ctx.case(key=("fdclose", res["served"] > 0))
            ctx.extra["fdclose"] = res
            ctx.obligation("validation: save/load cycles of a simulation without server traffic never fail (%d cycles)" % res["control_cycles"],
                           res["control_failures"] == 0 and res["control_cycles"] > 0, json.dumps(res)[:600])
            if res["failures"] and not res["control_failures"]:
                ctx.violation("server:double-close-fd", dict(replay, result=res), True,
                              "saving/loading simulation B fails while the server thread of simulation A handles requests (descriptor closed twice)")
        elif mode == "w512":
            ctx.evaluations += 3
            ctx.case(key=("w512", name))
            ctx.obligation("validation: %s control (two identical WHFast512 simulations alternated) unaffected" % name, res["control_equal"], json.dumps(res))
            if not (res["a_equal"] and res["b_equal"]):
                ctx.violation("whfast512:sequential-alternation", dict(replay, result=res), True,
                              "two WHFast512 simulations with different stellar mass / gr_potential alternated step by step in ONE thread differ "
                              "from the same simulations run separately (constants_owner check of /repo 85499fd not effective)")
            else:
                ctx.extra.setdefault("w512_sequential_alternation_ok", []).append(name)
            thr = res.get("threads")
            if thr:
                ctx.evaluations += 2
                ctx.case(key=("w512-threads", name))
                ctx.extra.setdefault("w512_threads", []).append(thr)
                if not (thr["a_equal"] and thr["b_equal"]):
                    ctx.violation("whfast512:file-scope-statics", dict(replay, result=res), True,
                                  "two WHFast512 simulations with different stellar mass stepped CONCURRENTLY from two threads differ from the same "
                                  "simulations run separately (per-simulation constants in file-scope statics shared by all threads)")
    kr = ctx.extra.get("keyboard_runs", [])
    if kr:
        ctx.obligation("validation: at least one keyboard scenario was conclusive (%d of %d)" % (len([k for k in kr if k.get("conclusive")]), len(kr)),
                       any(k.get("conclusive") for k in kr), json.dumps(kr)[:600])
    ctx.obligation("validation(real threads): server scenarios actually served snapshots (%d)" % served_total, served_total > 0, "")
    ctx.extra["input_distribution"] = {"conc_simulations": len(pc["specs"]), "conc_rounds": pc["rounds"],
                                       "server_integrators": [j[0] for j in jobs if j[2] == "server"], "snapshots_served": served_total}
    ctx.rule = ("(a) %d simulations (every integrator type x variants) created/integrated/copied/saved/loaded/continued/freed in %d rounds of "
                "concurrent threads with seeded start offsets, each compared with its sequential run; (b) server scenarios per integrator with "
                "seeded client count/delays/pauses and a sleeping additional_forces callback; a case is distinct by (scenario, integrator, options)"
                % (len(pc["specs"]), pc["rounds"]))
    ctx.assumptions += [
        "theorems quantify over ALL interleavings of the generated integrator program and the generated server program (sequentially "
        "consistent shared store); the real pthread/OS memory model beyond the lock discipline is not modelled",
        "liveness (the need_copy spin, mutex fairness) is not claimed",
        "'a step touches only memory reachable from its own reb_simulation*' is trusted for the C code apart from the generated statics list",
        "real-thread runs are validation of the model on sampled schedules, not proof; the schedule is not controllable, replay = the seeded parameters",
        "reb_simulation_output_screenshot (releases the mutex inside the heartbeat) and the /keyboard/ status commands are outside the served-snapshot claim",
    ]


def replay(ctx, rep):
    r = rep.get("replay", {})
    if "mode" not in r:
        print(json.dumps(rep, indent=1)); return 0
    lib = ctx.lib(r.get("variant", "default"))
    res, diag = drive(lib, r["mode"], r["params"], 600)
    if r.get("also_reversed_order") and res:
        p2 = dict(r["params"], specs=list(reversed(r["params"]["specs"])), offsets=[list(reversed(o)) for o in r["params"]["offsets"]], rounds=1)
        res2, _ = drive(lib, "conc", p2, 600)
        if res2:
            a = {r["params"]["specs"][int(k)]["id"]: v for k, v in res["sequential"].items()}
            b = {p2["specs"][int(k)]["id"]: v for k, v in res2["sequential"].items()}
            res = {"order_dependent_ids": sorted(i for i in a if a[i] != b.get(i))}
    print(json.dumps({"result": res, "diagnostic": diag}, indent=1)[:6000])
    return 0
