#!/venv/bin/python
"""C19 translator: $VERIF_REPO/src/*.c  ->  coq/Gen/Statics.v   (+ build/c19/statics.json for the harness)

For the two build configurations of the library
    default : -DLIBREBOUND -D_GNU_SOURCE -DSERVER -std=c99            (setup.py)
    avx512  : the same + -DAVX512 -march=native                        (setup.py with AVX512=1)
every translation unit that is linked into librebound (tools/vlib.py LIB_SOURCES; src/*.c files that are not linked must be
on the EXCLUDED list below, anything else fails) is dumped with `clang -Xclang -ast-dump=json -fsyntax-only`, and the
following is extracted from the AST (i.e. after preprocessing with the flags of that configuration):

  statics_<cfg>        every object with static storage duration that is declared in a file of src/ : file-scope `static`,
                       function-local `static`, non-static globals; with the file, the enclosing function ("" = file scope),
                       linkage, const-ness of the OBJECT (an array of const, a const scalar/struct, a `T *const`; a
                       `const char *p` is a mutable object), has-initialiser, type, and the list of functions of the
                       library that may WRITE it.  "May write" is conservative: the object is the root of the left-hand
                       side of an assignment / compound assignment / ++ / --  (through . -> [] * casts), or its address is
                       taken with &, or (arrays) it decays to a pointer anywhere but directly under a subscript.
  external_calls_<cfg> every function that library code references (call or address) and that has no body in any linked
                       translation unit nor in a system header reachable from library code (inline intrinsics are followed).
  external_objects_<cfg> objects with static storage declared outside src/ that library code references (stdout, stderr...).

Fail closed: unknown storage class, a src/*.c file that is neither linked nor excluded, clang errors, a VarDecl whose
location cannot be resolved, JSON shape surprises -> exit != 0.
In the avx512 configuration only translation units that can differ from the default configuration are re-dumped in the
quick tier: those whose text mentions AVX512, plus a check that the objects declared in src/*.h seen through such a
unit are those of the default configuration; VERIF_C19_FULL=1 (thorough tier) re-dumps every unit.
"""
import json, os, re, subprocess, sys, glob
from concurrent.futures import ProcessPoolExecutor

ROOT = os.path.dirname(os.path.dirname(os.path.abspath(__file__)))
sys.path.insert(0, os.path.join(ROOT, "tools"))
REPO = os.environ.get("VERIF_REPO", "/repo")
SRC = os.path.realpath(os.path.join(REPO, "src"))
OUT = os.path.join(ROOT, "coq", "Gen", "Statics.v")
OUTJ = os.path.join(ROOT, "build", "c19", "statics.json")
DFLAGS = ["-DLIBREBOUND", "-D_GNU_SOURCE", "-DSERVER", "-std=c99"]
VFLAGS = {"default": [], "avx512": ["-DAVX512", "-march=native"]}
EXCLUDED = {"glad": "OpenGL loader, only with -DOPENGL (not part of the python/shared library)",
            "communication_mpi": "only with -DMPI"}
FULL = os.environ.get("VERIF_C19_FULL", "0") == "1"


class Fail(Exception):
    pass


def fail(msg):
    raise Fail(msg)


def qs(s):
    if any(ord(c) < 32 or ord(c) > 126 for c in s):
        fail("non printable-ascii string %r" % s)
    return '"' + s.replace('"', '""') + '"'


def in_src(f):
    return f is not None and os.path.realpath(f).startswith(SRC + os.sep)


def load_ast(path_c, cfg):
    """Parse the JSON AST; replay clang's location elision (a loc omits file/line when equal to the previously printed
    one) with an object_hook, which sees the location dictionaries in document order."""
    cmd = ["clang", "-Xclang", "-ast-dump=json", "-fsyntax-only", "-w"] + DFLAGS + VFLAGS[cfg] + ["-I" + SRC, path_c]
    r = subprocess.run(cmd, capture_output=True)
    if r.returncode != 0:
        fail("clang failed on %s [%s]: %s" % (path_c, cfg, r.stderr.decode()[-600:]))
    st = {"file": None, "line": None}

    def hook(d):
        if "offset" in d:
            if "file" in d: st["file"] = d["file"]
            if "line" in d: st["line"] = d["line"]
            d["_file"] = st["file"]; d["_line"] = st["line"]
        elif "kind" in d and d["kind"] in ("RecordDecl", "EnumDecl", "TypedefDecl"):
            d.pop("inner", None)      # types are irrelevant here (C18 handles them); saves memory
        return d
    return json.loads(r.stdout, object_hook=hook)


def bare(loc):
    if loc is None:
        return None
    if "expansionLoc" in loc:
        return loc["expansionLoc"]
    return loc


def node_file(n):
    l = bare(n.get("loc"))
    if l and "_file" in l:
        return l["_file"], l["_line"]
    r = bare(n.get("range", {}).get("begin"))
    if r and "_file" in r:
        return r["_file"], r["_line"]
    return None, None


def object_is_const(qt):
    """const-ness of the object itself, from clang's qualType spelling."""
    t = qt.strip()
    # strip array suffixes
    t = re.sub(r"(\[[^\]]*\])+$", "", t).strip()
    if "(*" in t or "(^" in t:          # pointer to function / array: object const only if '*const'
        m = re.search(r"\(\*\s*(const)?", t)
        return bool(m and m.group(1))
    if "*" in t:
        tail = t[t.rindex("*") + 1:]
        return "const" in tail.split()
    return "const" in t.split()


def analyse_tu(args):
    name, cfg = args
    path_c = os.path.join(SRC, name + ".c")
    ast = load_ast(path_c, cfg)
    if ast.get("kind") != "TranslationUnitDecl":
        fail("unexpected AST root")
    objs = {}          # id -> record
    canon = {}         # id -> canonical id (first declaration)
    fun_body = {}      # id -> (name, body node, in_src)
    fun_name = {}      # id -> name
    fun_canon = {}
    top_inits = []

    def reg_var(n, scope, toplevel):
        sc = n.get("storageClass")
        if sc not in (None, "static", "extern", "register", "auto"):
            fail("storage class %r of %s" % (sc, n.get("name")))
        if not toplevel and sc not in ("static", "extern"):
            return False
        f, line = node_file(n)
        if f is None:
            fail("no location for VarDecl %s in %s" % (n.get("name"), name))
        prev = n.get("previousDecl")
        canon[n["id"]] = canon.get(prev, prev) if prev else n["id"]
        qt = n["type"]["qualType"]
        dq = n["type"].get("desugaredQualType", qt)
        objs[n["id"]] = {"name": n["name"], "file": os.path.basename(f) if in_src(f) else f, "in_src": in_src(f),
                         "scope": scope, "static": sc == "static", "extern_decl": sc == "extern", "has_init": "init" in n,
                         "const": object_is_const(qt) or object_is_const(dq), "type": qt, "line": line}
        return True

    for n in ast.get("inner", []):
        k = n.get("kind")
        if k == "VarDecl":
            reg_var(n, "", True)
            if "inner" in n:
                top_inits.append(n)
        elif k == "FunctionDecl":
            prev = n.get("previousDecl")
            fun_canon[n["id"]] = fun_canon.get(prev, prev) if prev else n["id"]
            fun_name[n["id"]] = n["name"]
            body = [c for c in n.get("inner", []) if c.get("kind") == "CompoundStmt"]
            if body:
                f, _ = node_file(n)
                fun_body[fun_canon[n["id"]]] = (n["name"], body[0], in_src(f))
        elif k in ("RecordDecl", "EnumDecl", "TypedefDecl", "EmptyDecl", "StaticAssertDecl", "FileScopeAsmDecl"):
            pass
        else:
            fail("unexpected top-level %s in %s" % (k, name))

    writers = {}       # canonical var id -> set(function)
    refs_fun = set()   # canonical function ids referenced
    refs_fun_names = {}
    refs_ext_obj = set()
    mutex_funs = set()

    def root_mark(e, fn):
        while True:
            k = e.get("kind")
            if k in ("ParenExpr", "ImplicitCastExpr", "CStyleCastExpr", "ArraySubscriptExpr", "MemberExpr"):
                inner = e.get("inner", [])
                if not inner:
                    return
                e = inner[0]
            elif k == "UnaryOperator" and e.get("opcode") in ("*", "&", "__extension__"):
                e = e["inner"][0]
            elif k == "ConditionalOperator":
                root_mark(e["inner"][1], fn); root_mark(e["inner"][2], fn); return
            elif k == "DeclRefExpr":
                rd = e.get("referencedDecl", {})
                if rd.get("kind") == "VarDecl" and rd["id"] in objs:
                    writers.setdefault(canon[rd["id"]], set()).add(fn)
                return
            else:
                return

    def walk(n, fn, parent_kind, work):
        k = n.get("kind")
        if k == "VarDecl":
            reg_var(n, fn, False)
        elif k in ("BinaryOperator", "CompoundAssignOperator"):
            op = n.get("opcode", "")
            if k == "CompoundAssignOperator" or op == "=":
                root_mark(n["inner"][0], fn)
        elif k == "UnaryOperator":
            if n.get("opcode") in ("++", "--", "&"):
                root_mark(n["inner"][0], fn)
        elif k == "ImplicitCastExpr" and n.get("castKind") == "ArrayToPointerDecay" and parent_kind != "ArraySubscriptExpr":
            root_mark(n["inner"][0], fn)
        elif k == "DeclRefExpr":
            rd = n.get("referencedDecl", {})
            if rd.get("kind") == "FunctionDecl":
                cid = fun_canon.get(rd["id"], rd["id"])
                refs_fun.add(cid); refs_fun_names[cid] = rd["name"]
                if rd["name"].startswith("pthread_mutex_") or rd["name"].startswith("pthread_cond_") or rd["name"].startswith("pthread_rwlock_"):
                    mutex_funs.add((name + ".c", fn, rd["name"]))
                if cid in fun_body and cid not in work["seen"]:
                    work["seen"].add(cid); work["todo"].append(cid)
            elif rd.get("kind") == "VarDecl" and rd["id"] in objs and not objs[rd["id"]]["in_src"]:
                refs_ext_obj.add(objs[rd["id"]]["name"])
        for c in n.get("inner", []) or []:
            if isinstance(c, dict):
                walk(c, fn, k, work)

    sys.setrecursionlimit(100000)
    work = {"seen": set(), "todo": []}
    for cid, (fname, body, insrc) in fun_body.items():
        if insrc:
            work["seen"].add(cid); work["todo"].append(cid)
    for n in top_inits:
        f, _ = node_file(n)
        if in_src(f):
            for c in n["inner"]:
                walk(c, "<initialiser of %s>" % n["name"], "VarDecl", work)
    while work["todo"]:
        cid = work["todo"].pop()
        fname, body, insrc = fun_body[cid]
        walk(body, fname, "FunctionDecl", work)

    # merge redeclarations inside the TU
    merged = {}
    for vid, o in objs.items():
        c = canon[vid]
        m = merged.setdefault(c, dict(o, decls=0, defined=False))
        m["decls"] += 1
        if not o["extern_decl"] or o["has_init"]:
            m["defined"] = True; m["file"] = o["file"]; m["in_src"] = o["in_src"]; m["line"] = o["line"]
            m["has_init"] = m["has_init"] or o["has_init"]
        m["const"] = m["const"] and o["const"]
        m["static"] = m["static"] or o["static"]
    out_objs = []
    for c, m in merged.items():
        m["writers"] = sorted(writers.get(c, ()))
        m["tu"] = name
        out_objs.append(m)
    defined_funs = sorted(set(fb[0] for cid, fb in fun_body.items() if fb[2]))
    sys_inline = set(fun_body[c][0] for c in work["seen"] if not fun_body[c][2])
    ext = sorted(set(refs_fun_names[c] for c in refs_fun if c not in fun_body))
    return {"tu": name, "cfg": cfg, "objs": out_objs, "defined": defined_funs, "referenced_undefined": ext,
            "sys_inline": sorted(sys_inline), "ext_objs": sorted(refs_ext_obj), "mutex_funs": sorted(mutex_funs)}


def assemble(results):
    defined = set()
    for r in results:
        defined |= set(r["defined"])
    ext = set()
    extobj = set()
    for r in results:
        ext |= set(r["referenced_undefined"]) - defined
        extobj |= set(r["ext_objs"])
    objs = {}
    for r in results:
        for o in r["objs"]:
            if not o["in_src"]:
                continue
            if o["static"]:
                key = ("static", o["file"], o["scope"], o["name"])
            else:
                key = ("global", o["name"])
            m = objs.get(key)
            if m is None:
                m = objs[key] = dict(o); m["writers"] = set(o["writers"])
            else:
                m["writers"] |= set(o["writers"])
                m["const"] = m["const"] and o["const"]
                if o["defined"] and not m["defined"]:
                    for k in ("file", "line", "has_init", "defined", "type"):
                        m[k] = o[k]
    lst = sorted(objs.values(), key=lambda o: (o["file"], o["scope"], o["name"]))
    for o in lst:
        o["writers"] = sorted(o["writers"])
        if not o["defined"] and not o["static"]:
            # extern declaration in src/ without a definition in any linked unit: an object of another library
            fail("global %s declared in %s has no definition in the linked units" % (o["name"], o["file"]))
    ext = sorted(e for e in ext if not e.startswith("__builtin_"))
    return lst, ext, sorted(extobj)


def coq_obj(o):
    return "mkStatic %s %s %s %s %s %s %s [%s]" % (
        qs(o["name"]), qs(o["file"]), qs(o["scope"]), "false" if o["static"] else "true",
        "true" if o["const"] else "false", "true" if o["has_init"] else "false", qs(o["type"]),
        "; ".join(qs(w) for w in o["writers"]))


def main():
    import vlib
    all_c = sorted(os.path.basename(p)[:-2] for p in glob.glob(os.path.join(SRC, "*.c")))
    linked = list(vlib.LIB_SOURCES)
    for c in all_c:
        if c not in linked and c not in EXCLUDED:
            fail("src/%s.c is neither linked into librebound (vlib.LIB_SOURCES) nor on the excluded list" % c)
    for c in linked:
        if c not in all_c:
            fail("linked source %s.c does not exist" % c)
    mentions = [c for c in linked if "AVX512" in open(os.path.join(SRC, c + ".c")).read()]
    if "integrator_whfast512" not in mentions:
        fail("integrator_whfast512.c does not mention AVX512 any more")
    jobs = [(c, "default") for c in linked] + [(c, "avx512") for c in (linked if FULL else mentions)]
    with ProcessPoolExecutor(max_workers=int(os.environ.get("VERIF_JOBS", "16")) // 2 or 1) as ex:
        res = list(ex.map(analyse_tu, jobs))
    rd = [r for r in res if r["cfg"] == "default"]
    ra = {r["tu"]: r for r in res if r["cfg"] == "avx512"}
    # objects declared in headers must be the same in both configurations (so that units that do not mention AVX512
    # cannot differ): compare header-located objects seen through the re-dumped units
    def header_objs(r):
        return sorted((o["file"], o["scope"], o["name"], o["const"]) for o in r["objs"] if o["in_src"] and o["file"].endswith(".h"))
    for r in rd:
        if r["tu"] in ra and header_objs(r) != header_objs(ra[r["tu"]]):
            fail("objects declared in headers differ between configurations (seen from %s.c): run with VERIF_C19_FULL=1 and extend the translator" % r["tu"])
    ravx = [ra.get(r["tu"], r) for r in rd]
    out = {}
    coq = ["(* GENERATED by tools/translate_statics.py from %s/src/*.c — do not edit. *)" % "$VERIF_REPO",
           "From Coq Require Import List String Bool.", "Import ListNotations.", "Open Scope string_scope.", "",
           "(* so_external: external linkage (non-static global). so_const: the object itself is const-qualified.",
           "   so_writers: functions of the library that may write the object (conservative; see the translator). *)",
           "Record static_obj := mkStatic { so_name : string; so_file : string; so_scope : string; so_external : bool;",
           "  so_const : bool; so_init : bool; so_type : string; so_writers : list string }.", ""]
    coq.append("Definition linked_sources : list string := [%s]." % "; ".join(qs(c + ".c") for c in linked))
    coq.append("Definition excluded_sources : list string := [%s]." % "; ".join(qs(c + ".c") for c in sorted(EXCLUDED) if c in all_c))
    coq.append("Definition avx512_redumped : list string := [%s]." % "; ".join(qs(c + ".c") for c in (linked if FULL else mentions)))
    for cfg, rs in (("default", rd), ("avx512", ravx)):
        lst, ext, extobj = assemble(rs)
        mf = sorted(set(tuple(m) for r in rs for m in r["mutex_funs"]))
        out[cfg] = {"statics": lst, "external_calls": ext, "external_objects": extobj, "mutex_functions": mf}
        coq.append("")
        coq.append("Definition statics_%s : list static_obj := [\n  %s]." % (cfg, ";\n  ".join(coq_obj(o) for o in lst)))
        coq.append("Definition external_calls_%s : list string := [\n  %s]." % (cfg, "; ".join(qs(e) for e in ext)))
        coq.append("(* (file, function, pthread primitive) for every use of a pthread mutex/condition primitive in library code *)")
        coq.append("Definition mutex_functions_%s : list (string * string * string) := [%s]." % (cfg, "; ".join("(%s, %s, %s)" % tuple(qs(x) for x in m) for m in mf)))
        coq.append("Definition external_objects_%s : list string := [%s]." % (cfg, "; ".join(qs(e) for e in extobj)))
    os.makedirs(os.path.dirname(OUTJ), exist_ok=True)
    json.dump(out, open(OUTJ, "w"), indent=1)
    new = "\n".join(coq) + "\n"
    if not os.path.exists(OUT) or open(OUT).read() != new:
        with open(OUT + ".tmp", "w") as f:
            f.write(new)
        os.replace(OUT + ".tmp", OUT)
    print("statics: default %d objects (%d mutable), avx512 %d objects (%d mutable); external calls %d / %d" % (
        len(out["default"]["statics"]), len([o for o in out["default"]["statics"] if not o["const"]]),
        len(out["avx512"]["statics"]), len([o for o in out["avx512"]["statics"] if not o["const"]]),
        len(out["default"]["external_calls"]), len(out["avx512"]["external_calls"])))


if __name__ == "__main__":
    try:
        main()
    except Fail as e:
        print("translate_statics: FAIL: %s" % e, file=sys.stderr)
        sys.exit(2)
