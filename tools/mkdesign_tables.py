#!/usr/bin/env python3
"""Regenerate the two machine-generated tables of DESIGN.md (between the AUTOGEN markers):
   section 9 (genuine defects, from known_findings.json) and section 10 (seeded mutations, from seeded/*/meta.json)."""
import json, os, glob, re
ROOT = os.path.dirname(os.path.dirname(os.path.abspath(__file__)))
kf = json.load(open(os.path.join(ROOT, "known_findings.json")))["findings"]
def esc(s): return s.replace("|", "\\|").replace("\n", " ")
rows = []
seen = set()
for f in kf:
    what = re.sub(r"^(fixed|open): *", "", f["what"]); what = re.sub(r"^property=C\d+ *", "", what)
    what = re.sub(r"^(fixed|open): *", "", what); what = re.sub(r"^property=C\d+ *", "", what)
    what = re.sub(r"^[0-9a-f]{7} ", "", what)
    key = (f.get("commit") or f.get("key"), what[:60])
    if key in seen: continue
    seen.add(key)
    st = "fix " + str(f.get("commit", "?")) if f.get("status") == "fixed" else "**open**"
    rows.append("| %s | %s | %s |" % (f["property"], esc(what[:330]), st))
t9 = "| property | failing input / call site (as recorded by the check that found it) | handling |\n|---|---|---|\n" + "\n".join(rows)
srows = []
for m in sorted(glob.glob(os.path.join(ROOT, "seeded", "*", "meta.json"))):
    d = json.load(open(m))
    caught = ["%s: %s" % (c, "caught" if v.get("caught") else "MISSED") for c, v in d.get("checks", {}).items()]
    readme = os.path.join(os.path.dirname(m), "README.md")
    title = ""
    if os.path.exists(readme):
        for line in open(readme):
            if line.strip().startswith("#"):
                title = line.strip("# \n"); break
    base = str(d.get("base_commit", ""))[:7] + (" (patch no longer applies at %s)" % d["no_longer_applies_at"][:7] if d.get("no_longer_applies_at") else "")
    srows.append("| %s | %s | %s | %s | %s | %s |" % (d["name"], d["breaks_property"], esc(title[:140]),
                 "yes" if d.get("confirmed") or (d.get("demo_clean_exit") == 0 and d.get("demo_mutated_exit") not in (0, None)) else "no", "; ".join(caught), base))
t10 = "| seed | property | change (title of its README) | demo passes clean / fails mutated | checks run against it (state at the time it was last run) | /repo commit it was last evaluated on |\n|---|---|---|---|---|---|\n" + "\n".join(srows)
# section 11: measured trusted base per property, from the evidence files the checks wrote on /repo
trows = []
allax = set()
for e in sorted(glob.glob(os.path.join(ROOT, "evidence", "C*.json"))):
    d = json.load(open(e)); c = d["coverage"]
    pa = c.get("print_assumptions", {})
    ax = sorted({a for v in pa.values() for a in v})
    allax |= set(ax)
    closed = sum(1 for v in pa.values() if not v)
    trows.append("| %s | %s | %d (%d closed under the global context) | %s | %s/%s | %s | %s |" % (
        d["property_id"], d["level"], len(pa), closed, esc(", ".join(a.split(".")[-1] for a in ax)) or "none",
        c.get("discharged"), c.get("obligations"), c.get("evaluations", ""), c.get("traces_validated_against_impl", "")))
t11 = ("| property | level | property theorems in Props.v | axioms (union of `Print Assumptions` over them) | obligations discharged | evaluations | cases compared with the implementation |\n|---|---|---|---|---|---|---|\n"
       + "\n".join(trows) + "\n\nAll axioms seen: " + ", ".join("`%s`" % a for a in sorted(allax)) + ".")
# section 13: the property theorems as they stand in coq/Cxx/Props.v
prow = []
for d in sorted(glob.glob(os.path.join(ROOT, "coq", "C[0-9][0-9]"))):
    pf = os.path.join(d, "Props.v")
    if not os.path.exists(pf): continue
    names = re.findall(r"^(?:Theorem|Lemma|Corollary)\s+(\w+)", open(pf).read(), re.M)
    nfiles = len([f for f in os.listdir(d) if f.endswith(".v")])
    nlines = sum(len(open(os.path.join(d, f)).read().splitlines()) for f in os.listdir(d) if f.endswith(".v"))
    prow.append("| %s | %d | %d / %d | %s |" % (os.path.basename(d), len(names), nfiles, nlines, ", ".join("`%s`" % n for n in names)))
t13 = "| property | theorems in Props.v | .v files / lines in coq/Cxx | names |\n|---|---|---|---|\n" + "\n".join(prow)
# reverts of the repaired defects (tools/revertall.py -> build/revert_regression.json, kept as seeded/_reverts.json)
rv = None
for cand in (os.path.join(ROOT, "build", "revert_regression.json"), os.path.join(ROOT, "seeded", "_reverts.json")):
    if os.path.exists(cand):
        rv = json.load(open(cand)); break
if rv:
    rr = []
    for r in rv["results"]:
        if not r.get("applies"):
            st = "revert no longer applies (later commits rewrote these lines)"
        else:
            st = "; ".join("%s: %s%s" % (c, "VIOLATION" if v.get("caught") else "MISSED", " (no-failing-input-found)" if v.get("caught") and v.get("no_failing_input") else "")
                           for c, v in r.get("checks", {}).items())
        rr.append("| %s | %s | %s | %s |" % (r["commit"], ",".join(r["properties"]), esc(r.get("subject", "")[5:140]), st))
    ap = [r for r in rv["results"] if r.get("applies")]
    t14 = ("On /repo %s: %d fix commits recorded in known_findings.json; %d reverts apply to HEAD; %d of those make the owning check report a VIOLATION again.\n\n"
           % (rv.get("head", "?"), len(rv["results"]), len(ap), sum(1 for r in ap if r.get("caught")))
           + "| commit | property | defect repaired | owning check on HEAD with the commit reverted |\n|---|---|---|---|\n" + "\n".join(rr))
else:
    t14 = "(not run)"
p = os.path.join(ROOT, "DESIGN.md")
s = open(p).read()
for tag, t in (("FINDINGS", t9), ("SEEDS", t10), ("TRUSTED", t11), ("THEOREMS", t13), ("REVERTS", t14)):
    a, b = "<!-- AUTOGEN:%s:BEGIN -->" % tag, "<!-- AUTOGEN:%s:END -->" % tag
    if a in s:
        s = s[:s.index(a) + len(a)] + "\n" + t + "\n" + s[s.index(b):]
open(p, "w").write(s)
print("findings rows", len(rows), "seed rows", len(srows))
