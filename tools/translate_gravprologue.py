#!/venv/bin/python
"""Regenerate coq/Gen/GravPrologue.v from $VERIF_REPO/src/gravity.c + rebound.h (fail-closed).

The prologue of reb_calculate_acceleration = everything between the opening brace and the dispatching `switch (...)`.
Every statement must be one of
   local declaration   [const] <type> [*][const] NAME = EXPR ;      EXPR free of side effects (no '(' call except casts, no '=')
                       -> SRead n   if EXPR is exactly r->gravity (the local then aliases the selector), else SOther
   a fallback rule     if (<conjunction, any order, of ONE  SEL == REB_GRAVITY_Y  and one or more  r->integrator != REB_INTEGRATOR_Xi>)
                          { [warning call;] r->gravity = REB_GRAVITY_Z; }
                       -> SRule SEL [X1;..] Y Z      (SEL = r->gravity or a local that was read from it; numeric enum values)
and the dispatch must be  switch (SEL){ .  Anything else -> exit 1.  The numeric enum values are read from rebound.h."""
import os, re, sys
REPO = os.environ.get("VERIF_REPO", "/repo")
ROOT = os.path.dirname(os.path.dirname(os.path.abspath(__file__)))


def die(msg):
    sys.stderr.write("translate_gravprologue: " + msg + "\n")
    sys.exit(1)


def enum_values(h, prefix):
    out = {}
    for m in re.finditer(r"\b(%s\w+)\s*=\s*(\d+)\s*," % prefix, h):
        out[m.group(1)] = int(m.group(2))
    return out


def main():
    src = open(os.path.join(REPO, "src", "gravity.c")).read()
    h = open(os.path.join(REPO, "src", "rebound.h")).read()
    grav = enum_values(h, "REB_GRAVITY_")
    integ = enum_values(h, "REB_INTEGRATOR_")
    for k in ("REB_GRAVITY_NONE", "REB_GRAVITY_BASIC", "REB_GRAVITY_MERCURIUS"):
        if k not in grav:
            die("enum value %s not found" % k)
    if "REB_INTEGRATOR_MERCURIUS" not in integ:
        die("REB_INTEGRATOR_MERCURIUS not found")
    m = re.search(r"\nvoid\s+reb_calculate_acceleration\s*\(\s*struct\s+reb_simulation\s*\*\s*r\s*\)\s*\{", src)
    if not m:
        die("reb_calculate_acceleration not found")
    body = src[m.end():]
    # strip comments
    body = re.sub(r"/\*.*?\*/", " ", body, flags=re.S)
    body = re.sub(r"//[^\n]*", " ", body)
    sw = re.search(r"\bswitch\s*\(\s*([^)]*?)\s*\)\s*\{", body)
    if not sw:
        die("dispatching switch not found")
    pro = body[:sw.start()]
    if "switch" in pro or "return" in pro or "goto" in pro:
        die("unexpected control flow in the prologue")
    sel_expr = sw.group(1)
    stmts = []
    locals_ = {}          # name -> index of locals read from r->gravity

    def sel_of(e):
        e = e.strip()
        if e == "r->gravity":
            return "Field"
        if e in locals_:
            return "(Local %d)" % locals_[e]
        die("selector expression %r is neither r->gravity nor a local read from it" % e)

    pos = 0
    text = pro
    rule_re = re.compile(r"\s*if\s*\(([^(){};]*)\)\s*\{"
                         r"(\s*reb_simulation_warning\s*\(\s*r\s*,\s*\"(?:[^\"\\]|\\.)*\"\s*\)\s*;)?\s*r->gravity\s*=\s*(REB_GRAVITY_\w+)\s*;\s*\}", re.S)
    decl_re = re.compile(r"\s*(?:const\s+)?(?:struct\s+\w+|unsigned\s+int|int|double)\s*\*?\s*(?:restrict\s+)?(?:const\s+)?(\w+)\s*=\s*([^;]*);", re.S)
    while True:
        rest = text[pos:]
        if not rest.strip():
            break
        mr = rule_re.match(rest)
        if mr:
            ixs, sels, gz = [], [], mr.group(3)
            for conj in mr.group(1).split("&&"):
                conj = conj.strip()
                m1 = re.fullmatch(r"r->integrator\s*!=\s*(REB_INTEGRATOR_\w+)", conj)
                m2 = re.fullmatch(r"([\w>\-]+)\s*==\s*(REB_GRAVITY_\w+)", conj)
                if m1:
                    ixs.append(m1.group(1))
                elif m2:
                    sels.append((m2.group(1), m2.group(2)))
                else:
                    die("unsupported conjunct in fallback rule: %r" % conj)
            if len(sels) != 1 or not ixs:
                die("fallback rule must test the selector once and the integrator at least once: %r" % mr.group(1))
            sel, gy = sels[0]
            if any(ix not in integ for ix in ixs) or gy not in grav or gz not in grav:
                die("unknown enum constant in fallback rule: %s %s %s" % (ixs, gy, gz))
            stmts.append("SRule %s [%s] %d %d" % (sel_of(sel), "; ".join(str(integ[ix]) for ix in ixs), grav[gy], grav[gz]))
            pos += mr.end()
            continue
        md = decl_re.match(rest)
        if md:
            name, expr = md.group(1), md.group(2).strip()
            if "=" in expr.replace("==", "") or "++" in expr or "--" in expr:
                die("side effect in initialiser of %s" % name)
            if re.search(r"\b(?!sizeof\b)[A-Za-z_]\w*\s*\(", expr):
                die("function call in initialiser of %s" % name)
            if re.search(r"r->gravity\b(?!_)", expr):
                if expr != "r->gravity":
                    die("initialiser of %s mentions r->gravity in an unsupported way: %r" % (name, expr))
                locals_[name] = len(locals_)
                stmts.append("SRead %d" % locals_[name])
            else:
                stmts.append("SOther")
            pos += md.end()
            continue
        die("cannot parse prologue statement starting at: %r" % rest.strip()[:80])
    if not any(s.startswith("SRule") and s.endswith(" [%d] %d %d" % (integ["REB_INTEGRATOR_MERCURIUS"], grav["REB_GRAVITY_MERCURIUS"], grav["REB_GRAVITY_BASIC"])) for s in stmts):
        die("the MERCURIUS fallback rule is missing from the prologue")
    out = ["(* GENERATED by tools/translate_gravprologue.py from src/gravity.c and src/rebound.h - do not edit. *)",
           "From Coq Require Import ZArith List.", "Import ListNotations.", "Open Scope Z_scope.",
           "Inductive psel := Field | Local (n : nat).",
           "Inductive pstmt := SRead (n : nat) | SRule (s : psel) (integs : list Z) (gfrom gto : Z) | SOther.",
           "Definition prologue : list pstmt := [%s]." % "; ".join(stmts),
           "Definition dispatch_on : psel := %s." % sel_of(sel_expr),
           "Definition gravity_values : list Z := [%s]." % "; ".join(str(v) for v in sorted(set(grav.values()))),
           "Definition integrator_values : list Z := [%s]." % "; ".join(str(v) for v in sorted(set(integ.values()))), ""]
    os.makedirs(os.path.join(ROOT, "coq", "Gen"), exist_ok=True)
    path = os.path.join(ROOT, "coq", "Gen", "GravPrologue.v")
    new = "\n".join(out)
    if not os.path.exists(path) or open(path).read() != new:
        open(path, "w").write(new)
    return 0


if __name__ == "__main__":
    sys.exit(main())
