"""Child-process driver of the C06 / C07 checks.  Reads a JSON job list on stdin, runs every job against the real
library (PYTHONPATH = freshly built library dir), prints a JSON result list.  Jobs:
  hist  : run an operation history with manual snapshots; keep the live stream at every snapshot; oracle
  auto  : automatic snapshots by step count / interval, driven in chunks, against a step-by-step twin
  open  : open a (possibly damaged) archive file, report index or error   (C07; run one per process)
  resume: restart from the last intact snapshot of a damaged archive, continue the history, append   (C07)
"""
import sys, os, json, struct, warnings, tempfile
sys.path.insert(0, os.path.dirname(os.path.abspath(__file__)))
import c06_lib as L

rebound = L.load(os.environ["PYTHONPATH"].split(":")[0])
warnings.simplefilter("ignore")
FT = L.field_types(rebound)
T_TYPE = FT["t"][0]
P_TYPE = FT["particles"][0]


def tbits(stream):
    for t, p in L.parse(stream, FT["end"][0]):
        if t == T_TYPE:
            return struct.unpack("<Q", p)[0]
    return None


def only_signed_zero(a, b):
    """do two particle payloads differ only by the sign of zero-valued doubles?"""
    if len(a) != len(b) or a == b:
        return False
    for i in range(len(a) // 128):
        pa, pb = a[i * 128:(i + 1) * 128], b[i * 128:(i + 1) * 128]
        for j in range(12):
            x, y = pa[8 * j:8 * j + 8], pb[8 * j:8 * j + 8]
            if x != y:
                zx = struct.unpack("<Q", x)[0] & ((1 << 63) - 1)
                zy = struct.unpack("<Q", y)[0] & ((1 << 63) - 1)
                if zx != 0 or zy != 0:
                    return False
        if pa[96:] != pb[96:]:
            return False
    return True


def oracle(fname, kept, names=None):
    """compare every snapshot of the archive with the kept live streams"""
    res = {"nblobs": None, "state": [], "time": [], "error": None}
    try:
        sa = rebound.Simulationarchive(fname, process_warnings=False)
    except Exception as e:
        res["error"] = "open: %r" % (e,)
        return res
    res["nblobs"] = int(sa.nblobs)
    for k in range(min(sa.nblobs, len(kept))):
        want_t = tbits(kept[k])
        got_t = struct.unpack("<Q", struct.pack("<d", sa.t[k]))[0]
        if want_t != got_t:
            kind = "index_time"
            if got_t == 0 and want_t == tbits(kept[0]):
                kind = "index_time_unchanged_t"
            res["time"].append({"k": k, "got": got_t, "want": want_t, "kind": kind})
        try:
            s = sa[k]
            st = L.stream_of(rebound, s)
        except Exception as e:
            res["state"].append({"k": k, "fields": ["<load failed: %r>" % (e,)], "kind": "load"})
            continue
        a, b = L.masked(rebound, st, FT), L.masked(rebound, kept[k], FT)
        d = L.diff_masked(a, b, FT)
        if d:
            kind = "state"
            if d == ["particles"] and only_signed_zero(a[P_TYPE], b[P_TYPE]):
                kind = "signed_zero"
            res["state"].append({"k": k, "fields": d, "kind": kind})
    return res


def job_hist(job, tmp):
    fname = os.path.join(tmp, "h.bin")
    if os.path.exists(fname):
        os.remove(fname)
    sim = L.new_sim(rebound, job["spec"])
    streams, files = [], []
    for op in job["ops"]:
        if op[0] in ("snap", "snap_del"):
            streams.append(L.stream_of(rebound, sim))
        L.apply_op(rebound, sim, op, fname)
        if op[0] in ("snap", "snap_del") and job.get("bytes"):
            files.append(open(fname, "rb").read())
    out = {"nsnap": len(streams), "N_final": sim.N}
    if streams:
        out["oracle"] = oracle(fname, streams)
    if job.get("bytes") and streams:
        out["streams"] = [s.hex() for s in streams]
        out["files"] = [f.hex() for f in files]
        E = FT["end"][0]
        out["files"] = [L.mask_padding(f, E, 64, True).hex() for f in files]
        out["diffs"] = [L.mask_padding(L.lib_diff(rebound, streams[0], s), E).hex() for s in streams[1:]]
        out["index"] = L.lib_index(rebound, fname)
    return out


def job_auto(job, tmp):
    fname = os.path.join(tmp, "a.bin")
    if os.path.exists(fname):
        os.remove(fname)
    sim = L.new_sim(rebound, job["spec"])
    for _ in range(job.get("presteps", 0)):
        sim.step()
    twin = sim.copy()
    dt = sim.dt
    expected = []          # (t bits) of expected snapshots, in order
    recs = {}
    def rec():
        st = L.stream_of(rebound, twin)
        recs[twin.steps_done] = (struct.unpack("<Q", struct.pack("<d", twin.t))[0], L.masked(rebound, st, FT))
    rec()
    s0 = sim.steps_done
    if job["mode"] == "step":
        sim.save_to_file(fname, step=job["k"])
    else:
        sim.save_to_file(fname, interval=job["interval"])
    t_start = sim.t; jn = [0]
    sign = 1.0 if dt > 0 else -1.0
    total = 0
    manual_at = []
    def heartbeat_expect():
        if job["mode"] == "step":
            if (twin.steps_done - s0) % job["k"] == 0 and twin.steps_done not in hb_done:
                expected.append(recs[twin.steps_done][0]); hb_done.add(twin.steps_done); exp_steps.append(twin.steps_done)
        else:
            # prescribed cadence, judged in exact arithmetic: the j-th snapshot is due at the first step boundary
            # with t >= t_start + j*interval (generator keeps thresholds away from step boundaries)
            from fractions import Fraction
            if sign * (Fraction(t_start) + jn[0] * sign * Fraction(job["interval"])) <= sign * Fraction(twin.t):
                jn[0] += 1
                expected.append(recs[twin.steps_done][0]); exp_steps.append(twin.steps_done)
    hb_done = set(); exp_steps = []
    for c in job["chunks"]:
        if c == "snap":
            sim.save_to_file(fname)
            expected.append(recs[twin.steps_done][0]); exp_steps.append(twin.steps_done)
            continue
        sim.integrate(sim.t + (c - 0.5) * dt, exact_finish_time=0)
        for _ in range(c):
            heartbeat_expect()        # heartbeat before each step
            twin.step(); rec()
        heartbeat_expect()            # heartbeat after the loop
    out = {"steps": [sim.steps_done, twin.steps_done], "expected": len(expected), "bad": []}
    sa = rebound.Simulationarchive(fname, process_warnings=False)
    got = [struct.unpack("<Q", struct.pack("<d", sa.t[i]))[0] for i in range(sa.nblobs)]
    out["nblobs"] = int(sa.nblobs)
    if got != expected and len(got) == len(expected) and all(g == e or (g == 0 and e == expected[0]) for g, e in zip(got, expected)):
        out["bad"].append({"what": "index_time_unchanged_t", "got_t": got, "expected_t": expected})
    elif got != expected:
        out["bad"].append({"what": "cadence", "got_t": got, "expected_t": expected, "expected_steps": exp_steps})
    for k in range(min(sa.nblobs, len(exp_steps))):
        s = sa[k]
        a = L.masked(rebound, L.stream_of(rebound, s), FT)
        b = recs[exp_steps[k]][1]
        for nme in ("particles", "t", "steps_done", "dt", "N"):
            if a.get(FT[nme][0]) != b.get(FT[nme][0]):
                out["bad"].append({"what": "state", "k": k, "field": nme})
    return out


def snap_hashes(sa):
    """(strict, relaxed) sha256 of every snapshot re-saved and canonicalised; relaxed also ignores the members
    index_1st_order_a/b of first-order var_config records"""
    import hashlib
    hs, hr = [], []
    for k in range(sa.nblobs):
        st = L.stream_of(rebound, sa[k])
        for lst, rel in ((hs, False), (hr, True)):
            m = L.masked(rebound, st, FT, relax_vc=rel)
            lst.append(hashlib.sha256(repr(sorted(m.items())).encode()).hexdigest())
    return hs, hr


def snap_hashes_noseed(sa):
    """strict hashes without rand_seed (a simulation created afresh legitimately draws a new seed)"""
    import hashlib
    out = []
    for k in range(sa.nblobs):
        m = L.masked(rebound, L.stream_of(rebound, sa[k]), FT, extra_names=("functionpointers", "rand_seed"))
        out.append(hashlib.sha256(repr(sorted(m.items())).encode()).hexdigest())
    return out


def job_open(job, tmp):
    """open a file; everything a user sees: error / nblobs / offsets / t / warning; optionally re-save each snapshot"""
    res = L.lib_index(rebound, job["file"])
    out = {"index": res}
    if job.get("load") and res[0]:
        sa = rebound.Simulationarchive(job["file"], process_warnings=False)
        out["snap_hashes"], out["snap_hashes_relaxed"] = snap_hashes(sa)
        if job.get("noseed"):
            out["snap_hashes_noseed"] = snap_hashes_noseed(sa)
    return out


def job_resume(job, tmp):
    """restart from the last intact snapshot of job['file'], run job['ops'] (snap appends to the same file)"""
    fname = job["file"]
    sa = rebound.Simulationarchive(fname, process_warnings=False)
    nb = int(sa.nblobs)
    sim = sa[-1]
    del sa
    for op in job["ops"]:
        L.apply_op(rebound, sim, op, fname)
    res = L.lib_index(rebound, fname)
    out = {"restart_from": nb - 1, "index": res, "snap_hashes": [], "snap_hashes_relaxed": []}
    if res[0]:
        sa = rebound.Simulationarchive(fname, process_warnings=False)
        out["snap_hashes"], out["snap_hashes_relaxed"] = snap_hashes(sa)
    return out


def job_many(job, tmp):
    """more snapshots than the initial capacity of the index arrays (1024): a pure implementation-limit regression test
    (the Coq model has unbounded lists)"""
    f = os.path.join(tmp, "many.bin")
    if os.path.exists(f):
        os.remove(f)
    sim = rebound.Simulation(); sim.add(m=1.0); sim.integrator = "leapfrog"; sim.dt = 0.5
    n = job["n"]
    ts = []
    for i in range(n):
        ts.append(sim.t)
        sim.save_to_file(f)
        sim.step()
    sa = rebound.Simulationarchive(f, process_warnings=False)
    nb = int(sa.nblobs)
    bad_t = [i for i in range(min(nb, n)) if sa.t[i] != ts[i]][:5]
    last = sa[-1]
    mid = sa[min(nb, n) - 1]
    return {"written": n, "nblobs": nb, "last_t": last.t, "expected_last_t": ts[-1], "bad_index_times": bad_t,
            "warnings": int(sa.warnings.value), "t_at_1030": (sa[1030].t if nb > 1030 else None), "expected_t_at_1030": (ts[1030] if n > 1030 else None)}


def _bits(x):
    return struct.unpack("<Q", struct.pack("<d", x))[0]


def sa_state(sim):
    """the cadence members of the simulation, doubles as bit patterns (order = record sa_state of coq/C07/Attach.v)"""
    return [_bits(sim.simulationarchive_auto_interval), _bits(sim.simulationarchive_auto_walltime), int(sim.simulationarchive_auto_step),
            _bits(sim.simulationarchive_next), int(sim.simulationarchive_next_step), _bits(sim.t), _bits(sim.walltime), int(sim.steps_done)]


def _auto_sim(dt=0.1313, t0=0.0):
    sim = rebound.Simulation()
    sim.add(m=1.0); sim.add(m=1e-3, a=1.0, e=0.1, inc=0.1); sim.add(m=1e-3, a=2.3, e=0.05, omega=0.4)
    sim.integrator = "whfast"; sim.dt = dt
    if t0:
        sim.t = t0
    return sim


def _attach(sim, fn, mode, val):
    if mode == "step":
        sim.save_to_file(fn, step=val)
    elif mode == "interval":
        sim.save_to_file(fn, interval=val)
    else:
        sim.save_to_file(fn, walltime=val)


def job_attach(job, tmp):
    """observe reb_simulation_save_to_file_{interval,step,walltime}: cadence state before / after, file size before / after"""
    fn = os.path.join(tmp, "att.bin")
    if os.path.exists(fn):
        os.remove(fn)
    out = []
    def obs(sim, mode, val):
        before = sa_state(sim); sz0 = os.path.getsize(fn) if os.path.exists(fn) else -1
        _attach(sim, fn, mode, val)
        out.append({"mode": mode, "val": (_bits(val) if mode != "step" else int(val)), "before": before, "after": sa_state(sim),
                    "size_before": sz0, "size_after": os.path.getsize(fn) if os.path.exists(fn) else -1})
    for mode, val, other, dt, t0 in (("step", 7, 5, 0.1313, 0.0), ("interval", 7 * 0.1313 + 0.05, 1.0, 0.1313, 0.0),
                                     ("interval", 7 * 0.1313 + 0.05, 1.0, -0.1313, 0.0), ("interval", 5 * 0.1313 + 0.02, 2.0, -0.1313, 3.5), ("step", 4, 9, -0.1313, -1.0)):
        if os.path.exists(fn):
            os.remove(fn)
        sim = _auto_sim(dt, t0)
        for _ in range(job.get("presteps", 3)):
            sim.step()
        obs(sim, mode, val)                      # fresh attach
        obs(sim, mode, val)                      # attach again, same cadence
        sim.integrate(sim.t + 30 * sim.dt, exact_finish_time=0)
        for k in job.get("restart_from", [1, 3]):
            sa = rebound.Simulationarchive(fn, process_warnings=False)
            s2 = sa[k]; del sa
            obs(s2, mode, val)                   # restart from snapshot k, re-attach with the same cadence
            s2.step(); s2.step()
            obs(s2, mode, other)                 # then change the cadence
            obs(s2, "step" if mode == "interval" else "interval", 3 if mode == "interval" else 0.5)   # other kind of cadence
        s3 = rebound.Simulationarchive(fn, process_warnings=False)[-1]
        obs(s3, "walltime", 1e9)
    return {"obs": out}


def job_autocrash(job, tmp):
    """automatic snapshots (mode step / interval): uninterrupted run vs crash during the write of snapshot j (cut k bytes into
    the write), restart from the last intact snapshot, re-attach with the SAME cadence, run on; repeated for every (j, frac) of
    job['crashes'].  Returns count / times / snapshot hashes of both archives."""
    mode, val, nsteps = job["mode"], job["val"], job["nsteps"]
    ref = os.path.join(tmp, "ref.bin"); fn = os.path.join(tmp, "run.bin")
    for p in (ref, fn):
        if os.path.exists(p):
            os.remove(p)
    sim = _auto_sim(job.get("dt", 0.1313), job.get("t0", 0.0)); tmax = sim.t + nsteps * sim.dt
    _attach(sim, ref, mode, val); sim.integrate(tmax, exact_finish_time=0)
    sa = rebound.Simulationarchive(ref, process_warnings=False)
    rt = [_bits(sa.t[i]) for i in range(sa.nblobs)]
    rh, rr = snap_hashes(sa); del sa
    open(fn, "wb").write(open(ref, "rb").read())
    done = []
    for (j, frac) in job["crashes"]:
        data = open(fn, "rb").read()
        sa = rebound.Simulationarchive(fn, process_warnings=False)
        offs = [int(sa.offset[i]) for i in range(sa.nblobs)]; nb = int(sa.nblobs); del sa
        if not (1 <= j < nb):
            continue
        # the file as it was before snapshot j was appended (trailer j-1 with offset_next 0) and after it
        fa = bytearray(data[:offs[j]]); fa[-4:] = b"\0\0\0\0"; fa = bytes(fa)
        end = offs[j + 1] if j + 1 < nb else len(data)
        fb = bytearray(data[:end]); fb[-4:] = b"\0\0\0\0"; fb = bytes(fb)
        off = len(fa) - 12
        k = int(frac * (len(fb) - off))
        open(fn, "wb").write(fa[:off] + fb[off:off + k] + fa[off + k:])
        sa = rebound.Simulationarchive(fn, process_warnings=False)
        s2 = sa[-1]; nb0 = int(sa.nblobs); del sa
        _attach(s2, fn, mode, val)
        s2.integrate(tmax, exact_finish_time=0)
        done.append({"j": j, "cut": k, "restart_from": nb0 - 1})
    sa = rebound.Simulationarchive(fn, process_warnings=False)
    gt = [_bits(sa.t[i]) for i in range(sa.nblobs)]
    gh, gr = snap_hashes(sa)
    return {"ref_n": len(rt), "n": len(gt), "times_equal": gt == rt, "hashes_equal": gh == rh, "relaxed_equal": gr == rr,
            "ref_t": rt[:40], "t": gt[:40], "cycles": done}


CADENCE_FIELDS = ("simulationarchive_auto_interval", "simulationarchive_auto_walltime", "simulationarchive_auto_step",
                  "simulationarchive_next", "simulationarchive_next_step")


def job_autolive(job, tmp):
    """all three automatic cadences, driven ONE step per integrate() call, so that the live simulation can be inspected
    right after the call in which a snapshot was written: the restored snapshot must equal the live simulation in both
    directions (masked streams equal), in particular in the cadence members next / next_step / auto_*.  A snapshot written
    by the heartbeat BEFORE the step of this call is compared in its cadence members only (they are not touched by a step)."""
    fname = os.path.join(tmp, "al.bin")
    if os.path.exists(fname):
        os.remove(fname)
    sim = L.new_sim(rebound, job["spec"])
    for _ in range(job.get("presteps", 0)):
        sim.step()
    mode = job["mode"]
    _attach(sim, fname, mode, job["val"])
    bad = []; nsnap = 0; full = 0; size = -1
    ids = {n: FT[n][0] for n in CADENCE_FIELDS}
    for i in range(job["nsteps"]):
        sim.integrate(sim.t + 0.5 * sim.dt, exact_finish_time=0)
        sz = os.path.getsize(fname) if os.path.exists(fname) else -1
        if sz == size:
            continue
        size = sz
        sa = rebound.Simulationarchive(fname, process_warnings=False)
        grown = int(sa.nblobs) - nsnap; nsnap = int(sa.nblobs)
        snap = sa[-1]
        a = L.masked(rebound, L.stream_of(rebound, snap), FT)
        b = L.masked(rebound, L.stream_of(rebound, sim), FT)
        if snap.steps_done == sim.steps_done:
            full += 1
            dif = L.diff_masked(a, b, FT)
        else:
            dif = [n for n in CADENCE_FIELDS if a.get(ids[n]) != b.get(ids[n])] if grown == 1 else []
        if dif:
            bad.append({"call": i, "snapshot": nsnap - 1, "fields": dif, "snapshot_steps_done": int(snap.steps_done), "live_steps_done": int(sim.steps_done),
                        "snapshot_next_step": int(snap.simulationarchive_next_step), "live_next_step": int(sim.simulationarchive_next_step),
                        "snapshot_next": snap.simulationarchive_next, "live_next": sim.simulationarchive_next})
    return {"nsnap": nsnap, "full_compares": full, "bad": bad[:4], "nbad": len(bad)}


def job_automix(job, tmp):
    """one simulation object, one archive, automatic cadence; history mixing integrate() calls (heartbeats), manual
    step()/steps(k) (no heartbeat), detach (no archive attached) and re-attach with the same cadence.  Reports, per attach
    segment: the threshold after the attach, the values the heartbeats saw, the snapshots written (steps_done / t) and the final
    threshold, so that the heartbeat model can be run on exactly the same heartbeat sequence."""
    fname = os.path.join(tmp, "mx.bin")
    if os.path.exists(fname):
        os.remove(fname)
    sim = L.new_sim(rebound, job["spec"])
    twin = sim.copy()
    mode, val = job["mode"], job["val"]
    segs = []; cur = None; attached = False
    def nblobs():
        if not os.path.exists(fname):
            return 0
        return int(rebound.Simulationarchive(fname, process_warnings=False).nblobs)
    def close():
        nonlocal cur
        if cur is not None:
            n1 = nblobs()
            sa = rebound.Simulationarchive(fname, process_warnings=False) if n1 else None
            snaps = [sa[k] for k in range(cur["n0"], n1)] if sa else []
            cur["snap_steps"] = [int(s.steps_done) for s in snaps]
            cur["snap_t"] = [s.t.hex() for s in snaps]
            cur["final_next_step"] = int(sim.simulationarchive_next_step)
            cur["final_next"] = sim.simulationarchive_next.hex()
            segs.append(cur); cur = None
    for op in job["ops"]:
        if op[0] == "attach":
            close()
            _attach(sim, fname, mode, val); attached = True
            cur = {"n0": nblobs(), "next_step0": int(sim.simulationarchive_next_step), "next0": sim.simulationarchive_next.hex(),
                   "t_attach": sim.t.hex(), "steps_attach": int(sim.steps_done),
                   "xs_steps": [], "xs_t": [], "sign": (1.0 if sim.dt > 0 else -1.0)}
        elif op[0] == "detach":
            close()
            sim._simulationarchive_filename = None; attached = False
        elif op[0] == "manual":
            sim.steps(op[1])
            for _ in range(op[1]):
                twin.step()
        elif op[0] == "integrate":
            n = op[1]
            if attached:
                cur["xs_steps"].append(int(twin.steps_done)); cur["xs_t"].append(twin.t.hex())
            sim.integrate(sim.t + (n - 0.5) * sim.dt, exact_finish_time=0)
            for _ in range(n):
                twin.step()
                if attached:
                    cur["xs_steps"].append(int(twin.steps_done)); cur["xs_t"].append(twin.t.hex())
    close()
    return {"segs": segs, "in_step": (twin.steps_done == sim.steps_done and twin.t == sim.t), "mode": mode, "val": val, "steps_done": int(sim.steps_done)}


HVF_FIELDS = ("particles", "t", "steps_done", "dt", "N", "integrator", "G") + CADENCE_FIELDS


def _fresh_from(sim):
    """a FRESH simulation holding the same particles, time and settings (no archive attached, cadence members at their defaults)"""
    f = rebound.Simulation()
    f.G = sim.G; f.integrator = sim.integrator; f.dt = sim.dt; f.t = sim.t
    for i in range(sim.N):
        p = sim.particles[i]
        f.add(m=p.m, x=p.x, y=p.y, z=p.z, vx=p.vx, vy=p.vy, vz=p.vz, r=p.r, hash=p.hash)
        f.particles[i].last_collision = p.last_collision
        f.particles[i].ax, f.particles[i].ay, f.particles[i].az = p.ax, p.ay, p.az
    f.steps_done = sim.steps_done
    return f


def _snap_view(fn):
    """per snapshot: index time bits and the fields the comparison speaks about"""
    if not os.path.exists(fn):
        return []
    sa = rebound.Simulationarchive(fn, process_warnings=False)
    out = []
    for k in range(sa.nblobs):
        m = L.masked(rebound, L.stream_of(rebound, sa[k]), FT)
        out.append((_bits(sa.t[k]), {n: m.get(FT[n][0]) for n in HVF_FIELDS}))
    return out


def job_hvf(job, tmp):
    """history vs fresh: an object that was attached to archive A (then detached / re-attached / switched to archive B / changed
    cadence / deleted and reused the file name / was restored from a snapshot) must from then on write the same snapshots, at the same
    times, with the same cadence members, as a FRESH object holding the same state that is attached once."""
    A = os.path.join(tmp, "hA.bin"); B = os.path.join(tmp, "hB.bin"); Bf = os.path.join(tmp, "hBf.bin")
    for p in (A, B, Bf):
        if os.path.exists(p):
            os.remove(p)
    v = job["variant"]; dt = job["dt"]; m1, c1 = job["c1"]; m2, c2 = job["c2"]
    if v == "manual_switch":
        # manual snapshots only: archive A, then archive B from the same object vs a fresh object writing B' (no cadence in use)
        H = L.new_sim(rebound, {"n": job.get("n", 3), "integrator": job["integrator"], "dt": dt, "t0": job.get("t0", 0.0)})
        for _ in range(job["n1"]):
            H.save_to_file(A); H.step()
        F = _fresh_from(H)
        for _ in range(job["n2"]):
            H.save_to_file(B); F.save_to_file(Bf); H.step(); F.step()
        a = _snap_view(B); b = _snap_view(Bf); bad = []
        if len(a) != len(b):
            bad.append("history object wrote %d snapshots, fresh object %d" % (len(a), len(b)))
        for k, (x, y) in enumerate(zip(a, b)):
            dif = [n for n in HVF_FIELDS if x[1][n] != y[1][n]] + (["index time"] if x[0] != y[0] else [])
            if dif:
                bad.append("snapshot %d differs in %s" % (k, dif))
        return {"n_hist": len(a), "n_fresh": len(b), "bad": bad[:5], "nbad": len(bad), "steps": [int(H.steps_done), int(F.steps_done)]}
    H = L.new_sim(rebound, {"n": job.get("n", 3), "integrator": job["integrator"], "dt": dt, "t0": job.get("t0", 0.0)})
    _attach(H, A, m1, c1)
    H.integrate(H.t + (job["n1"] - 0.5) * H.dt, exact_finish_time=0)
    skip = 0
    if v == "restored":
        sa = rebound.Simulationarchive(A, process_warnings=False)
        H = sa[job.get("k", -1)]; del sa
    if v == "detach":
        H._simulationarchive_filename = None
        H.integrate(H.t + (job.get("nd", 3) - 0.5) * H.dt, exact_finish_time=0)
    F = _fresh_from(H)
    if v == "same_file":
        skip = len(_snap_view(A))
        target = A
        _attach(H, A, m2, c2)
    elif v == "reuse_name_delete":
        target = A
        H.save_to_file(A, delete_file=True, **{m2: c2})
    elif v == "switch_mode_delete":
        target = B
        H.save_to_file(B, delete_file=True, **{m2: c2})
    else:
        target = B
        _attach(H, B, m2, c2)
    _attach(F, Bf, m2, c2)
    tmax = H.t + (job["n2"] - 0.5) * H.dt
    H.integrate(tmax, exact_finish_time=0); F.integrate(tmax, exact_finish_time=0)
    a = _snap_view(target)[skip:]; b = _snap_view(Bf)
    bad = []
    if len(a) != len(b):
        bad.append("history object wrote %d snapshots, fresh object %d" % (len(a), len(b)))
    for k, (x, y) in enumerate(zip(a, b)):
        if x[0] != y[0]:
            bad.append("snapshot %d: index time %r vs %r" % (k, struct.unpack("<d", struct.pack("<Q", x[0]))[0], struct.unpack("<d", struct.pack("<Q", y[0]))[0]))
        # the threshold member of a cadence that is NOT in use is dead state (never read until the next attach, which resets it):
        # a leftover value there is not a behavioural difference
        dead = {"step": ("simulationarchive_next",), "interval": ("simulationarchive_next_step",), "walltime": ("simulationarchive_next_step",)}[m2]
        dif = [n for n in HVF_FIELDS if n not in dead and x[1][n] != y[1][n]]
        if dif:
            bad.append("snapshot %d differs in %s" % (k, dif))
    return {"n_hist": len(a), "n_fresh": len(b), "bad": bad[:5], "nbad": len(bad), "steps": [int(H.steps_done), int(F.steps_done)]}


def job_autoF(job, tmp):
    """interval cadence in binary64: the heartbeat times (before every step and after each integrate call), the library's
    snapshot times and the final accumulated threshold simulationarchive_next"""
    fname = os.path.join(tmp, "af.bin")
    if os.path.exists(fname):
        os.remove(fname)
    sim = L.new_sim(rebound, job["spec"])
    for _ in range(job.get("presteps", 0)):
        sim.step()
    twin = sim.copy()
    import ctypes
    # C entry point: the Python wrapper treats interval=0 as "not given"
    rebound.clibrebound.reb_simulation_save_to_file_interval(ctypes.byref(sim), fname.encode("ascii"), ctypes.c_double(job["interval"]))
    next0 = sim.simulationarchive_next
    xs = []
    for c in job["chunks"]:
        sim.integrate(sim.t + (c - 0.5) * sim.dt, exact_finish_time=0)
        xs.append(twin.t)
        while twin.steps_done < sim.steps_done:
            twin.step(); xs.append(twin.t)
    if not os.path.exists(fname):
        return {"xs": [x.hex() for x in xs], "sign": (1.0 if sim.dt > 0 else -1.0), "interval": job["interval"], "next0": next0.hex(),
                "lib_t": [], "final_next": sim.simulationarchive_next.hex(), "same_t": twin.t == sim.t}
    sa = rebound.Simulationarchive(fname, process_warnings=False)
    # index times are reliable here only through the snapshots themselves (a snapshot at the time of snapshot 0 is fine since 38095ff)
    lt = [sa.t[i] for i in range(sa.nblobs)]
    return {"xs": [x.hex() for x in xs], "sign": (1.0 if sim.dt > 0 else -1.0), "interval": job["interval"], "next0": next0.hex(),
            "lib_t": [x.hex() for x in lt], "final_next": sim.simulationarchive_next.hex(), "same_t": twin.t == sim.t}


def job_disabled(job, tmp):
    """cadence value 0 means 'no automatic snapshots' for all three cadences (C entry points; the Python wrapper ignores them)"""
    import ctypes
    out = {}
    for mode, fn, ct in (("interval", "reb_simulation_save_to_file_interval", ctypes.c_double(0.0)), ("walltime", "reb_simulation_save_to_file_walltime", ctypes.c_double(0.0)),
                         ("step", "reb_simulation_save_to_file_step", ctypes.c_uint64(0))):
        f = os.path.join(tmp, "dis_%s.bin" % mode)
        if os.path.exists(f):
            os.remove(f)
        sim = L.new_sim(rebound, {"n": 2, "integrator": "leapfrog", "dt": 0.05})
        getattr(rebound.clibrebound, fn)(ctypes.byref(sim), f.encode("ascii"), ct)
        sim.integrate(0.5, exact_finish_time=0)
        out[mode] = {"file_created": os.path.exists(f), "steps": int(sim.steps_done)}
    return out


def job_spoof(job, tmp):
    """crafted particle coordinates that look like END ++ trailer with a consistent back-link, crash right behind them,
    then the user's recovery: open, restart from the last snapshot, step, append twice.  cut_delta=0: spoof, -1: control"""
    f = os.path.join(tmp, "sp.bin")
    if os.path.exists(f):
        os.remove(f)
    E = FT["end"][0]
    dbl = lambda bits: struct.unpack("<d", struct.pack("<Q", bits))[0]
    sim = L.new_sim(rebound, {"n": 3, "integrator": "whfast", "dt": 0.05})
    sim.save_to_file(f); sim.step(); sim.save_to_file(f)
    sim.step()
    p1, p2 = sim.particles[1], sim.particles[2]
    p1.y = dbl((128 << 32) | 0x1234)       # bytes 12..15 of particle 1: the value 128 (back-link target)
    p2.x = dbl(E)                          # field type END, padding 0
    p2.y = 0.0                             # field size 0
    p2.z = dbl((128 << 32) | 7)            # trailer: index 7, offset_prev 128
    p2.vx = 1.0                            # low 4 bytes = offset_next = 0
    fa = open(f, "rb").read(); sim.save_to_file(f); fb = open(f, "rb").read()
    off = len(fa) - 12
    w = fb[off:]
    i = w.find(struct.pack("<d", p2.x) + struct.pack("<d", 0.0) + struct.pack("<d", p2.z))
    k = i + 28 + job.get("cut_delta", 0)
    open(f, "wb").write(fa[:off] + w[:k] + fa[off + k:])
    sa = rebound.Simulationarchive(f, process_warnings=False); nb0 = int(sa.nblobs); s2 = sa[-1]; del sa
    s2.step(); s2.save_to_file(f); s2.step(); s2.save_to_file(f)
    msgs = []
    sa = rebound.Simulationarchive(f, process_warnings=False)
    return {"cut": k, "write_len": len(w), "nblobs_after_crash": nb0, "nblobs_after_two_appends": int(sa.nblobs)}


def job_crafted(job, tmp):
    """a valid 3-snapshot archive with ONE trailer member or field size replaced by a value near the integer limits"""
    g = os.path.join(tmp, "cr.bin")
    if os.path.exists(g):
        os.remove(g)
    sim = L.new_sim(rebound, {"n": 2, "integrator": "whfast"})
    sim.save_to_file(g); sim.step(); sim.save_to_file(g); sim.step(); sim.save_to_file(g)
    b = bytearray(open(g, "rb").read())
    sa = rebound.Simulationarchive(g, process_warnings=False); offs = [int(sa.offset[i]) for i in range(3)]; del sa
    t1 = offs[1] - 12; t2 = offs[2] - 12
    what = job["what"]
    p32 = lambda pos, v: b.__setitem__(slice(pos, pos + 4), struct.pack("<I", v & 0xffffffff))
    p64 = lambda pos, v: b.__setitem__(slice(pos, pos + 8), struct.pack("<Q", v & (2**64 - 1)))
    {"next_max": lambda: p32(t1 + 8, 0x7fffffff), "next_neg": lambda: p32(t1 + 8, 0x80000000), "next_m1": lambda: p32(t1 + 8, 0xffffffff),
     "prev_neg": lambda: p32(t2 + 4, 0xfffffff0), "prev_max": lambda: p32(t2 + 4, 0x7fffffff), "idx_neg": lambda: p32(t2, 0xffffffff),
     "size_big": lambda: p64(offs[1] + 8, 2**40), "size_2_63": lambda: p64(offs[1] + 8, 2**63), "size_m16": lambda: p64(offs[1] + 8, 2**64 - 16),
     "size_m1": lambda: p64(offs[1] + 8, 2**64 - 1), "last_next_max": lambda: p32(len(b) - 4, 0x7fffffff)}[what]()
    open(g, "wb").write(bytes(b))
    return {"file": L.mask_padding(bytes(b), FT["end"][0], 64, True).hex() if job.get("bytes") else None, "index": L.lib_index(rebound, g)}


def job_rerun(job, tmp):
    """what a user does after a crash during the FIRST write: if the file exposes a snapshot, restart from it; if opening reports
    an error (no complete snapshot), run the whole history again from the start with the same file name.  Either way the final
    archive must be the uninterrupted one.  Also counts leaked file descriptors."""
    fname = job["file"]; segs = job["segs"]
    fd0 = len(os.listdir("/proc/self/fd"))
    try:
        sa = rebound.Simulationarchive(fname, process_warnings=False)
        sim = sa[-1]; del sa
        start = 1; restarted = True
    except RuntimeError:
        sim = L.new_sim(rebound, job["spec"])
        start = 0; restarted = False
    for i in range(start, len(segs)):
        for op in segs[i]:
            L.apply_op(rebound, sim, op, fname)
        sim.save_to_file(fname)
    fd1 = len(os.listdir("/proc/self/fd"))
    out = {"restarted_from_snapshot0": restarted, "fd_growth": fd1 - fd0, "snap_hashes": [], "snap_hashes_relaxed": []}
    try:
        sa = rebound.Simulationarchive(fname, process_warnings=False)
        out["snap_hashes"], out["snap_hashes_relaxed"] = snap_hashes(sa)
        out["snap_hashes_noseed"] = snap_hashes_noseed(sa)
    except RuntimeError as e:
        out["open_error"] = repr(e)[:120]
    return out


def job_resume1(job, tmp):
    """restart from the last intact snapshot of a crash image, run the ops, take the stream and append ONCE: returns the image,
    the stream and the file after the append, so that the model's save_append (corruption test + repair walk + write) can be
    compared byte for byte with what the library did on the damaged file"""
    fname = job["file"]
    img = open(fname, "rb").read()
    sa = rebound.Simulationarchive(fname, process_warnings=False)
    sim = sa[-1]; del sa
    for op in job["ops"]:
        L.apply_op(rebound, sim, op, fname)
    st = L.stream_of(rebound, sim)
    sim.save_to_file(fname)
    E = FT["end"][0]
    return {"stream": st.hex(), "after": L.mask_padding(open(fname, "rb").read(), E, 64, True).hex(), "image": L.mask_padding(img, E, 64, True).hex()}


def job_cycle(job, tmp):
    """repeated crash/restart cycles: restart from the last intact snapshot, redo the next segment, append; the append is cut
    at the given fractions of its write (each fraction = one more crash), finally completed.  Returns snapshot hashes."""
    import hashlib
    fname = job["file"]; segs = job["segs"]; cuts = list(job["cuts"])
    i = 0; ncrash = 0
    while i < len(segs):
        sa = rebound.Simulationarchive(fname, process_warnings=False)
        sim = sa[-1]; del sa
        for op in segs[i]:
            L.apply_op(rebound, sim, op, fname)
        fa = open(fname, "rb").read(); sim.save_to_file(fname); fb = open(fname, "rb").read()
        if cuts:
            c = cuts.pop(0)
            diffpos = [p for p in range(len(fb)) if p >= len(fa) or fa[p] != fb[p]]
            lo, hi = diffpos[0], diffpos[-1] + 1
            p = lo + int(c * (hi - lo))
            open(fname, "wb").write(fb[:p] + fa[p:])       # bytes before p written, the rest not
            ncrash += 1
        else:
            i += 1
    sa = rebound.Simulationarchive(fname, process_warnings=False)
    hs, hr = snap_hashes(sa)
    return {"snap_hashes": hs, "snap_hashes_relaxed": hr, "crashes": ncrash}


def main():
    jobs = json.load(sys.stdin)
    out = []
    with tempfile.TemporaryDirectory(prefix="c06drv") as tmp:
        for job in jobs:
            try:
                r = {"hist": job_hist, "auto": job_auto, "open": job_open, "resume": job_resume, "spoof": job_spoof, "cycle": job_cycle, "resume1": job_resume1, "rerun": job_rerun, "crafted": job_crafted, "many": job_many, "attach": job_attach, "autocrash": job_autocrash, "autoF": job_autoF, "autolive": job_autolive, "automix": job_automix, "disabled": job_disabled, "hvf": job_hvf}[job["kind"]](job, tmp)
            except Exception as e:
                import traceback
                r = {"exception": "%r" % (e,), "tb": traceback.format_exc()[-600:]}
            out.append(r)
    json.dump(out, sys.stdout)


if __name__ == "__main__":
    main()
