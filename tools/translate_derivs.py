#!/venv/bin/python
"""C16 translator (fail-closed): straight-line bodies of src/derivatives.c (all reb_particle_derivative_*)
and of reb_particle_from_orbit_err / reb_particle_from_pal (src/tools.c)  ->  coq/Gen/Derivs.v,
one Num-polymorphic Gallina definition per C function, same operation order as the source.

Not translated (they become INPUTS of the Gallina functions, supplied by the harness from the library/libm
in the binary64 run and constrained by hypotheses in the theorems):
  * reb_tools_particle_to_pal / reb_orbit_from_particle (Cartesian -> elements): a,lambda,k,h,ix,iy / a,e,inc,Omega,omega,f
  * reb_tools_solve_kepler_pal: p, q
  * sin/cos of lambda+p, Omega, omega, f, inc: named inputs slp clp / sO cO so co sf cf si ci
Anything outside the whitelisted statement / expression grammar makes the translator exit != 0.
"""
import os, re, sys

REPO = os.environ.get("VERIF_REPO", "/repo")
ROOT = os.path.dirname(os.path.dirname(os.path.abspath(__file__)))
OUT = os.path.join(ROOT, "coq", "Gen", "Derivs.v")


class Fail(Exception):
    pass


def strip_comments(s):
    s = re.sub(r"/\*.*?\*/", " ", s, flags=re.S)
    s = re.sub(r"//[^\n]*", " ", s)
    return s


def find_function(src, name):
    m = re.search(r"struct\s+reb_particle\s+" + re.escape(name) + r"\s*\(([^)]*)\)\s*\{", src)
    if not m:
        raise Fail("function %s not found" % name)
    i = m.end()
    depth = 1
    while depth:
        c = src[i]
        if c == "{":
            depth += 1
        elif c == "}":
            depth -= 1
        i += 1
    return m.group(1), src[m.end():i - 1]


# ------------------------------------------------------------------ expression parser
TOK = re.compile(r"\s*(?:(\d+\.\d*(?:[eE][-+]?\d+)?|\.\d+|\d+)|([A-Za-z_][A-Za-z_0-9]*(?:\.[A-Za-z_][A-Za-z_0-9]*)?)|(.))")


def tokenize(s):
    out = []
    pos = 0
    s = s.strip()
    while pos < len(s):
        m = TOK.match(s, pos)
        if not m:
            raise Fail("cannot tokenize: " + s[pos:pos + 20])
        pos = m.end()
        if m.group(1) is not None:
            out.append(("num", m.group(1)))
        elif m.group(2) is not None:
            out.append(("id", m.group(2)))
        elif m.group(3).strip():
            out.append(("op", m.group(3)))
    return out


class Parser:
    def __init__(self, toks, env):
        self.t = toks
        self.i = 0
        self.env = env      # callback: identifier -> Coq term ; ("call", f, argtext)

    def peek(self):
        return self.t[self.i] if self.i < len(self.t) else (None, None)

    def eat(self, kind=None, val=None):
        k, v = self.peek()
        if (kind and k != kind) or (val and v != val):
            raise Fail("expected %s %s, got %s %s" % (kind, val, k, v))
        self.i += 1
        return v

    def expr(self):
        a = self.term()
        while self.peek() in (("op", "+"), ("op", "-")):
            op = self.eat()
            b = self.term()
            a = "(%s N %s %s)" % ("nadd" if op == "+" else "nsub", a, b)
        return a

    def term(self):
        a = self.unary()
        while self.peek() in (("op", "*"), ("op", "/")):
            op = self.eat()
            b = self.unary()
            a = "(%s N %s %s)" % ("nmul" if op == "*" else "ndiv", a, b)
        return a

    def unary(self):
        if self.peek() == ("op", "-"):
            self.eat()
            return "(nneg N %s)" % self.unary()
        if self.peek() == ("op", "+"):
            self.eat()
            return self.unary()
        return self.atom()

    def atom(self):
        k, v = self.peek()
        if k == "num":
            self.eat()
            return literal(v)
        if k == "op" and v == "(":
            self.eat()
            e = self.expr()
            self.eat("op", ")")
            return e
        if k == "id":
            self.eat()
            if self.peek() == ("op", "("):
                self.eat()
                start = self.i
                depth = 1
                while depth:
                    kk, vv = self.peek()
                    if kk is None:
                        raise Fail("unbalanced call")
                    if (kk, vv) == ("op", "("):
                        depth += 1
                    if (kk, vv) == ("op", ")"):
                        depth -= 1
                    self.i += 1
                argt = self.t[start:self.i - 1]
                return self.env.call(v, argt)
            return self.env.ident(v)
        raise Fail("unexpected token %s %s" % (k, v))


def literal(v):
    if re.fullmatch(r"\d+", v):
        return "(nofZ N %d)" % int(v)
    m = re.fullmatch(r"(\d+)\.(\d*)", v)
    if not m:
        raise Fail("unsupported literal " + v)
    ip, fp = m.group(1), m.group(2).rstrip("0")
    if fp == "":
        return "(nofZ N %d)" % int(ip)
    if len(fp) > 6:
        raise Fail("literal with too many digits " + v)
    return "(ndec N %d %d)" % (int(ip + fp), 10 ** len(fp))


ORB_IN = ["G", "m", "Mp", "prx", "pry", "prz", "prvx", "prvy", "prvz", "a", "e", "inc", "Omega", "omega", "f",
          "cO", "sO", "co", "so", "cf", "sf", "ci", "si"]
PAL_IN = ["G", "m", "Mp", "prx", "pry", "prz", "prvx", "prvy", "prvz", "a", "k", "h", "ix", "iy", "p", "q",
          "slp", "clp"]
PRIMARY = {"primary.m": "Mp", "primary.x": "prx", "primary.y": "pry", "primary.z": "prz",
           "primary.vx": "prvx", "primary.vy": "prvy", "primary.vz": "prvz"}
TRIG_ORB = {"Omega": "O", "omega": "o", "f": "f", "inc": "i"}


class Env:
    def __init__(self, family, direct):
        self.family = family        # "orb" | "pal"
        self.direct = direct        # True for from_orbit / from_pal (elements are C parameters)
        self.locals = {}            # C local -> Coq name
        self.elem = set()           # element identifiers that are available as inputs
        self.struct = None
        self.fields = {}            # struct field -> current Coq term

    def ident(self, v):
        if v in self.locals:
            return self.locals[v]
        if v == "G":
            return "G"
        if v in PRIMARY:
            return PRIMARY[v]
        if v == "po.m" and not self.direct:
            return "m"
        if v == "m" and self.direct:
            return "m"
        if self.family == "orb":
            names = ["a", "e", "inc", "Omega", "omega", "f"]
            if self.direct and v in names:
                return v
            if (not self.direct) and v.startswith("o.") and v[2:] in names and "o" in self.elem:
                return v[2:]
        else:
            names = ["a", "k", "h", "ix", "iy", "p", "q"]
            if v in names and (self.direct or v in self.elem):
                return v
        if self.struct and v.startswith(self.struct + "."):
            fld = v[len(self.struct) + 1:]
            if fld in self.fields:
                return self.fields[fld]
        raise Fail("unknown identifier '%s'" % v)

    def call(self, fn, argt):
        text = "".join(x[1] for x in argt)
        if fn in ("sqrt", "fabs"):
            e = Parser(argt, self)
            r = e.expr()
            if e.i != len(argt):
                raise Fail("trailing tokens in call " + text)
            return "(%s N %s)" % ("nsqrt" if fn == "sqrt" else "nabs", r)
        if fn in ("sin", "cos"):
            if self.family == "pal":
                if text == "lambda+p" and (self.direct or {"lambda", "p"} <= self.elem):
                    return "slp" if fn == "sin" else "clp"
                raise Fail("trig argument '%s' not supported (pal)" % text)
            arg = text
            if not self.direct:
                if not (arg.startswith("o.") and "o" in self.elem):
                    raise Fail("trig argument '%s' not supported (orb)" % text)
                arg = arg[2:]
            if arg not in TRIG_ORB:
                raise Fail("trig argument '%s' not supported (orb)" % text)
            return ("s" if fn == "sin" else "c") + TRIG_ORB[arg]
        raise Fail("unknown function " + fn)


# Pinned rejection rules in front of the straight-line body of reb_particle_from_orbit_err (each returns
# reb_particle_nan()): a==0 (err 15), e==1, e<0, bound/unbound sign mismatch, e*cos(f)<-1, primary.m <= TINY.
# The translated body is the map on the accepted inputs; the Coq theorems carry a<>0, 1-e*e<>0 (or >0), 1+e*cf<>0.
# Any change of these rules makes the translator fail (re-sync by hand, as done for /repo's a==0 guard).
FROM_ORBIT_PREFIX = ("if(a==0.){*err=15;returnreb_particle_nan();}"
                     "if(e==1.){*err=1;returnreb_particle_nan();}if(e<0.){*err=2;returnreb_particle_nan();}"
                     "if(e>1.){if(a>0.){*err=3;returnreb_particle_nan();}}else{if(a<0.){*err=4;returnreb_particle_nan();}}"
                     "if(e*cos(f)<-1.){*err=5;returnreb_particle_nan();}if(primary.m<=TINY){*err=6;returnreb_particle_nan();}")


def translate(name, params, body, family, direct):
    env = Env(family, direct)
    body = strip_comments(body)
    if name == "reb_particle_from_orbit_err":
        k = body.find("struct reb_particle p")
        if k < 0 or re.sub(r"\s+", "", body[:k]) != FROM_ORBIT_PREFIX:
            raise Fail("validation prefix of reb_particle_from_orbit_err changed")
        body = body[k:]
    stmts = [s.strip() for s in body.split(";")]
    lets = []
    fresh = [0]
    pending_decl = set()

    def new(nm):
        fresh[0] += 1
        return "v%d_%s" % (fresh[0], re.sub(r"\W", "_", nm))

    def pexpr(text):
        toks = tokenize(text)
        p = Parser(toks, env)
        r = p.expr()
        if p.i != len(toks):
            raise Fail("trailing tokens in expression: " + text)
        return r

    returned = False
    for st in stmts:
        if not st:
            continue
        if returned:
            raise Fail("statement after return: " + st)
        st1 = re.sub(r"\s+", " ", st)
        m = re.fullmatch(r"struct reb_particle (\w+) = \{0\}", st1)
        if m:
            env.struct = m.group(1)
            for fld in ["m", "x", "y", "z", "vx", "vy", "vz", "ax", "ay", "az"]:
                env.fields[fld] = "(nzero N)"
            continue
        if st1 == "double a, lambda, k, h, ix, iy":
            pending_decl |= {"a", "lambda", "k", "h", "ix", "iy"}
            continue
        if re.sub(r"\s", "", st1) == "reb_tools_particle_to_pal(G,po,primary,&a,&lambda,&k,&h,&ix,&iy)":
            if not {"a", "lambda", "k", "h", "ix", "iy"} <= pending_decl or family != "pal":
                raise Fail("to_pal without declaration")
            env.elem |= {"a", "lambda", "k", "h", "ix", "iy"}
            continue
        if re.sub(r"\s", "", st1) == "doublep=0.,q=0.":
            pending_decl |= {"p", "q"}
            continue
        if re.sub(r"\s", "", st1) == "reb_tools_solve_kepler_pal(h,k,lambda,&p,&q)":
            if not {"p", "q"} <= pending_decl or family != "pal":
                raise Fail("solve_kepler_pal without declaration")
            if not direct and not {"h", "k", "lambda"} <= env.elem:
                raise Fail("solve_kepler_pal before to_pal")
            env.elem |= {"p", "q"}
            if direct:
                env.elem |= {"lambda"}
            continue
        if re.sub(r"\s", "", st1) == "structreb_orbito=reb_orbit_from_particle(G,po,primary)":
            if family != "orb" or direct:
                raise Fail("unexpected orbit_from_particle")
            env.elem.add("o")
            continue
        m = re.fullmatch(r"double (\w+) ?= ?(.+)", st1)
        if m:
            nm, ex = m.group(1), m.group(2)
            if nm in env.locals or nm in pending_decl:
                raise Fail("redeclaration of " + nm)
            term = pexpr(ex)
            cn = new(nm)
            lets.append((cn, term))
            env.locals[nm] = cn
            continue
        m = re.fullmatch(r"(\w+)\.(\w+) ?(\+?=) ?(.+)", st1)
        if m and env.struct == m.group(1):
            fld, op, ex = m.group(2), m.group(3), m.group(4)
            if fld not in env.fields:
                raise Fail("unknown field " + fld)
            term = pexpr(ex)
            if op == "+=":
                term = "(nadd N %s %s)" % (env.fields[fld], term)
            cn = new("o_" + fld)
            lets.append((cn, term))
            env.fields[fld] = cn
            continue
        m = re.fullmatch(r"return (\w+)", st1)
        if m and m.group(1) == env.struct:
            returned = True
            continue
        raise Fail("unsupported statement in %s: '%s'" % (name, st1))
    if not returned:
        raise Fail("no return in " + name)
    for fld in ("ax", "ay", "az"):
        if env.fields[fld] not in ("(nzero N)", "(nofZ N 0)"):
            v = dict(lets).get(env.fields[fld])
            if v != "(nofZ N 0)":
                raise Fail("acceleration field set to a non-zero value in " + name)
    ins = ORB_IN if family == "orb" else PAL_IN
    gname = "gen_" + name.replace("reb_particle_", "").replace("_err", "")
    out = ["Definition %s (%s : T) : P7 :=" % (gname, " ".join(ins))]
    for cn, term in lets:
        out.append("  let %s := %s in" % (cn, term))
    out.append("  (%s)." % ", ".join(env.fields[f] for f in ["m", "x", "y", "z", "vx", "vy", "vz"]))
    return gname, "\n".join(out)


def main():
    dsrc = strip_comments(open(os.path.join(REPO, "src", "derivatives.c")).read())
    tsrc = strip_comments(open(os.path.join(REPO, "src", "tools.c")).read())
    names = re.findall(r"^struct\s+reb_particle\s+(reb_particle_derivative_\w+)\s*\(", dsrc, re.M)
    if len(names) != len(set(names)) or len(names) < 12:
        raise Fail("unexpected list of derivative functions")
    # every function definition of derivatives.c must be one of these (nothing silently skipped)
    alldefs = re.findall(r"^[A-Za-z_][\w\s\*]*?\b(\w+)\s*\([^;{]*\)\s*\{", dsrc, re.M)
    if sorted(alldefs) != sorted(names):
        raise Fail("derivatives.c contains definitions that are not translated: %s" % sorted(set(alldefs) - set(names)))
    defs = []
    table = []
    for nm in names:
        params, body = find_function(dsrc, nm)
        if re.sub(r"\s+", " ", params.strip()) != "double G, struct reb_particle primary, struct reb_particle po":
            raise Fail("unexpected signature of " + nm)
        if "reb_orbit_from_particle" in body:
            fam = "orb"
        elif "reb_tools_particle_to_pal" in body:
            fam = "pal"
        else:
            raise Fail("cannot classify " + nm)
        g, text = translate(nm, params, body, fam, False)
        defs.append(text)
        table.append((nm, g, fam))
    params, body = find_function(tsrc, "reb_particle_from_orbit_err")
    if re.sub(r"\s+", " ", params.strip()) != ("double G, struct reb_particle primary, double m, double a, double e, "
                                              "double inc, double Omega, double omega, double f, int* err"):
        raise Fail("unexpected signature of reb_particle_from_orbit_err")
    g, text = translate("reb_particle_from_orbit_err", params, body, "orb", True)
    defs.append(text); table.append(("reb_particle_from_orbit", g, "orb"))
    params, body = find_function(tsrc, "reb_particle_from_pal")
    if re.sub(r"\s+", " ", params.strip()) != ("double G, struct reb_particle primary, double m, double a, double lambda, "
                                              "double k, double h, double ix, double iy"):
        raise Fail("unexpected signature of reb_particle_from_pal")
    g, text = translate("reb_particle_from_pal", params, body, "pal", True)
    defs.append(text); table.append(("reb_particle_from_pal", g, "pal"))

    os.makedirs(os.path.dirname(OUT), exist_ok=True)
    hdr = ["(* GENERATED by tools/translate_derivs.py from src/derivatives.c and src/tools.c. Do not edit. *)",
           "From Coq Require Import ZArith.", "From RV Require Import Common.Num.", "",
           "Section Derivs.", "Context {T : Type} (N : Num T).",
           "Definition P7 : Type := (T * T * T * T * T * T * T)%type.", ""]
    txt = "\n".join(hdr) + "\n\n".join(defs) + "\n\nEnd Derivs.\n"
    txt += "\n(* translated functions: %d *)\n" % len(table)
    old = open(OUT).read() if os.path.exists(OUT) else None
    if old != txt:
        with open(OUT, "w") as f:
            f.write(txt)
    import json
    json.dump(table, open(os.path.join(ROOT, "build", "c16_derivs_table.json"), "w"))
    print("translated %d functions -> %s" % (len(table), OUT))


if __name__ == "__main__":
    try:
        main()
    except Fail as e:
        print("translate_derivs: FAIL: %s" % e)
        sys.exit(2)
