"""C16 searcher (library only): finite differences vs the library's variational output.

 (a) constructor: reb_particle_derivative_X[_Y]  vs  Richardson-extrapolated central differences of
     reb_particle_from_orbit / reb_particle_from_pal (all 12 first-order, all exported pairs);
 (b) trajectory: variational particles after integration vs finite differences of neighbouring real
     trajectories, IAS15 (orders 1,2), BS (1,2), WHFast (1); parameters x..vz, m, elements; varied index;
     test-particle variations; N_active < N;
 (c) rescale: product variation*exp(lrescale) equals the un-rescaled linear evolution; MEGNO -> 2, Lyapunov -> 0.
Every tolerance = small relative floor + 20 x the Richardson error estimate of the finite difference itself, so a
coarse finite difference can never raise an alarm (amplification-aware)."""
import ctypes, math

D = ctypes.c_double
ORB = ["a", "e", "inc", "Omega", "omega", "f"]
PAL = ["a", "lambda", "k", "h", "ix", "iy"]
PARAMS = ["m", "a", "e", "inc", "Omega", "omega", "f", "lambda", "h", "k", "ix", "iy"]
C6 = ["x", "y", "z", "vx", "vy", "vz"]


def vec(p, with_m=False):
    return ([p.m] if with_m else []) + [getattr(p, c) for c in C6]


def family(x, y=None):
    s = {x, y} - {None, "m", "a"}
    if s & {"e", "inc", "Omega", "omega", "f"}:
        return "orb"
    return "pal"


class Inconclusive(Exception):
    pass


class Lib:
    def __init__(self, rebound):
        self.rb = rebound
        self.c = rebound.clibrebound
        P = rebound.Particle
        self.c.reb_particle_from_orbit.restype = P
        self.c.reb_particle_from_pal.restype = P

    def build(self, fam, G, prim, el):
        if fam == "orb":
            return self.c.reb_particle_from_orbit(D(G), prim, D(el["m"]), *(D(el[k]) for k in ORB))
        return self.c.reb_particle_from_pal(D(G), prim, D(el["m"]), D(el["a"]), D(el["lambda"]), D(el["k"]), D(el["h"]),
                                            D(el["ix"]), D(el["iy"]))

    def deriv(self, name, G, prim, po):
        fn = getattr(self.c, "reb_particle_derivative_" + name)
        fn.restype = self.rb.Particle
        return fn(D(G), prim, po)


def step_of(x, el):
    if x == "e":       # stay inside 0 <= e < 1 (the second-order stencil uses twice the step)
        return min(0.02, el["e"] / 4, (1 - el["e"]) / 8)
    return {"a": 0.02 * el["a"], "m": 0.02}.get(x, 0.02)


def richardson(fd, h, levels=3):
    """fd(h) has an even error expansion; returns (value, error estimate) as vectors."""
    T = [[fd(h / 2 ** i)] for i in range(levels)]
    for i in range(1, levels):
        for j in range(1, i + 1):
            f = 4.0 ** j
            T[i].append([(f * a - b) / (f - 1) for a, b in zip(T[i][j - 1], T[i - 1][j - 1])])
    best = T[-1][-1]
    prev = T[-1][-2]
    return best, max(abs(a - b) for a, b in zip(best, prev))


def fd1(F, x, h):
    return lambda s: [(a - b) / (2 * s * h) for a, b in zip(F({x: +s * h}), F({x: -s * h}))]


def fd2(F, x, y, hx, hy):
    if x == y:
        def g(s):
            f0 = F({})
            return [(a - 2 * c0 + b) / (s * hx) ** 2 for a, c0, b in zip(F({x: s * hx}), f0, F({x: -s * hx}))]
        return g
    def g(s):
        pp = F({x: s * hx, y: s * hy}); pm = F({x: s * hx, y: -s * hy})
        mp = F({x: -s * hx, y: s * hy}); mm = F({x: -s * hx, y: -s * hy})
        return [(a - b - c0 + d) / (4 * s * hx * s * hy) for a, b, c0, d in zip(pp, pm, mp, mm)]
    return g


def judge(got, ref, err, rel):
    scale = max(max(abs(v) for v in ref), max(abs(v) for v in got), 1e-300)
    worst = max(abs(a - b) for a, b in zip(got, ref))
    tol = rel * scale + 20 * err
    if err == err and err > 1e-3 * scale:
        raise Inconclusive("finite difference too coarse: error estimate %.3g at scale %.3g" % (err, scale))
    return worst <= tol and worst == worst, worst, tol, scale


# ------------------------------------------------------------------ (a) constructors
def gen_corner_elements(rng, fam, corner):
    """degenerate elements.  Pal elements are regular everywhere: e = 0 (h = k = 0) and ix = iy = 0 exactly.  The classical
    elements are singular at e = 0 and inc = 0 (documented in Variation.vary): there the constructors differentiate at the
    elements reb_orbit_from_particle recovers, so inc = 0 is probed with Omega = 0 (what it recovers) and e with 1e-4, 0.9."""
    g = gen_elements(rng, fam)
    el = g["el"]
    if fam == "pal":
        if corner in ("e0", "e0i0"):
            el["h"] = el["k"] = 0.0
        if corner in ("i0", "e0i0"):
            el["ix"] = el["iy"] = 0.0
        if corner == "m0":
            el["m"] = 0.0
    else:
        if corner == "i0":
            el["inc"] = 0.0; el["Omega"] = 0.0
        if corner == "esmall":
            el["e"] = 1e-4
        if corner == "ebig":
            el["e"] = 0.9
        if corner == "ipi":
            el["inc"] = 3.0
        if corner == "m0":
            el["m"] = 0.0
    return g


def gen_elements(rng, fam="orb"):
    # both branches of the Pal Kepler solver (e < 0.3: Newton iteration, e >= 0.3: reb_M_to_E); the region
    # 0.2 <= e < 0.3 did not converge before /repo commit c089d6c (fixed finding pal_kepler_unconverged, probed below)
    e = rng.uniform(0.05, 0.5) if fam == "orb" else rng.choice([rng.uniform(0.02, 0.3), rng.uniform(0.18, 0.2999), rng.uniform(0.3, 0.5)])
    om = rng.uniform(-3, 3)
    el = {"m": rng.choice([0.0, 10 ** rng.uniform(-5, -2)]), "a": 10 ** rng.uniform(-0.3, 0.7), "e": e,
          "inc": rng.uniform(0.2, 2.4), "Omega": rng.uniform(-3, 3), "omega": om, "f": rng.uniform(-3, 3),
          "lambda": rng.uniform(-3, 3), "k": e * math.cos(om), "h": e * math.sin(om),
          "ix": rng.uniform(-0.8, 0.8), "iy": rng.uniform(-0.8, 0.8)}
    prim = {"m": rng.uniform(0.5, 2), "x": rng.gauss(0, 1), "y": rng.gauss(0, 1), "z": rng.gauss(0, 1),
            "vx": rng.gauss(0, .3), "vy": rng.gauss(0, .3), "vz": rng.gauss(0, .3)}
    return {"G": rng.choice([1.0, 39.47841760435743]), "prim": prim, "el": el}


def check_constructor(lib, spec):
    x, y = spec["x"], spec.get("y")
    G, el = spec["G"], spec["el"]
    prim = lib.rb.Particle(**spec["prim"])
    fam = family(x, y)

    def F(shift):
        e2 = dict(el)
        for k, v in shift.items():
            e2[k] += v
        return vec(lib.build(fam, G, prim, e2), True)
    po = lib.build(fam, G, prim, el)
    if y is None:
        got = vec(lib.deriv(x, G, prim, po), True)
        ref, err = richardson(fd1(F, x, step_of(x, el)), 1.0)
        ok, worst, tol, scale = judge(got, ref, err, 1e-7)
    else:
        got = vec(lib.deriv(x + "_" + y, G, prim, po), True)
        hx, hy = 2 * step_of(x, el), 2 * step_of(y, el)
        ref, err = richardson(fd2(F, x, y, hx, hy), 1.0)
        ok, worst, tol, scale = judge(got, ref, err, 1e-5)
    return ok, {"got": got, "finite_difference": ref, "fd_error_estimate": err, "worst": worst, "tolerance": tol}


# ------------------------------------------------------------------ (b) trajectories
def base_system(rng):
    pl = []
    a = 1.0
    for i in range(2):
        e = rng.uniform(0.03, 0.15)
        om = rng.uniform(-3, 3)
        pl.append({"m": 10 ** rng.uniform(-4, -3), "a": a, "e": e, "inc": rng.uniform(0.05, 0.4), "Omega": rng.uniform(-3, 3),
                   "omega": om, "f": rng.uniform(-3, 3)})
        a *= rng.uniform(1.6, 2.1)
    return {"star_m": rng.uniform(0.8, 1.2), "planets": pl, "tmax": rng.uniform(6.0, 14.0)}


def edge_system(rng):
    """edge systems of the frame operations: centre of mass EXACTLY at rest at the origin, a single particle, massless
    companions (the real particles are then already in their COM frame although a variation moves the COM)"""
    kind = rng.choice(["binary", "single", "massless", "binary3"])
    if kind == "binary":                   # symmetric equal-mass binary, Cartesian: COM = 0 exactly
        m, x, v = rng.choice([0.5, 1.0]), rng.choice([0.5, 1.0, 2.0]), rng.choice([0.25, 0.5])
        cart = [{"m": m, "x": x, "vy": v}, {"m": m, "x": -x, "vy": -v}]
    elif kind == "single":
        cart = [{"m": 1.0}]
    elif kind == "massless":               # star at rest at the origin, massless planets
        cart = [{"m": 1.0}, {"m": 0.0, "x": 1.0, "vy": 1.0}, {"m": 0.0, "x": -1.5, "vy": -0.8, "vz": 0.1}]
    else:                                  # symmetric binary + massless third body
        cart = [{"m": 1.0, "x": 0.5, "vy": 0.5}, {"m": 1.0, "x": -0.5, "vy": -0.5}, {"m": 0.0, "x": 3.0, "vy": 0.8}]
    return {"cart": cart, "tmax": rng.uniform(3.0, 8.0), "edge": kind}


def setup(lib, spec, shift):
    """build the simulation of spec with the varied quantity shifted by `shift` = {name: delta}."""
    rb = lib.rb
    sim = rb.Simulation()
    integ = spec["integrator"]
    sim.integrator = integ
    if integ == "whfast":
        sim.dt = spec.get("dt", 0.02)
        sim.ri_whfast.safe_mode = spec.get("safe_mode", 1)
    elif integ == "bs":
        sim.ri_bs.eps_rel = 1e-12
        sim.ri_bs.eps_abs = 1e-12
    if spec.get("softening"):
        sim.softening = spec["softening"]
    sys_ = spec["system"]
    if "cart" in sys_:                     # edge systems entered in Cartesian coordinates
        for pc in sys_["cart"]:
            sim.add(**pc)
    else:
        sim.add(m=sys_["star_m"])
        for pl in sys_["planets"]:
            sim.add(primary=sim.particles[0], **pl)
    if spec.get("testparticle_class"):
        sim.add(primary=sim.particles[0], m=0.0, a=1.37, e=0.1, inc=0.2, Omega=0.3, omega=1.0, f=2.0)
        if spec["testparticle_class"] == "nactive":
            sim.N_active = 3
    idx = spec["index"]
    p = sim.particles[idx]
    cart = [n for n in shift if n in C6 or (n == "m" and spec.get("cartesian_m"))]
    if len(cart) != len(shift):
        if cart:
            raise RuntimeError("mixed Cartesian/element shifts are not supported")
    if cart:
        for name in cart:
            setattr(p, name, getattr(p, name) + shift[name])
    elif spec.get("_el"):
        el = dict(spec["_el"])
        for k, v in shift.items():
            el[k] += v
        np_ = lib.build(spec["fam"], sim.G, sim.particles[0], el)
        for c in ["m"] + C6:
            setattr(p, c, getattr(np_, c))
    elif shift:
        raise RuntimeError("element shift without elements")
    return sim


def elements_of(lib, spec):
    sim = setup(lib, dict(spec, _el=None), {})
    p, prim = sim.particles[spec["index"]], sim.particles[0]
    if spec["fam"] == "orb":
        o = p.orbit(primary=prim)
        return {"m": p.m, "a": o.a, "e": o.e, "inc": o.inc, "Omega": o.Omega, "omega": o.omega, "f": o.f}
    av, lam, kv, hv, ixv, iyv = (D(0) for _ in range(6))
    lib.c.reb_tools_particle_to_pal(D(sim.G), p, prim, *(ctypes.byref(v) for v in (av, lam, kv, hv, ixv, iyv)))
    return {"m": p.m, "a": av.value, "lambda": lam.value, "k": kv.value, "h": hv.value, "ix": ixv.value, "iy": iyv.value}


def run_to(sim, spec):
    if spec["integrator"] == "whfast":
        sim.integrate(spec["system"]["tmax"], exact_finish_time=0)
    else:
        sim.integrate(spec["system"]["tmax"])


def check_trajectory(lib, spec):
    x, y, order = spec["x"], spec.get("y"), spec["order"]
    spec = dict(spec)
    cart = x in C6 or (x == "m" and spec.get("cartesian_m"))
    if not cart:
        spec["fam"] = family(x, y)
        spec["_el"] = elements_of(lib, spec)
    idx = spec["index"]
    tpv = spec.get("tp_variation", False)
    sim = setup(lib, spec, {})
    nreal = sim.N
    if order == 1:
        v = sim.add_variation(testparticle=idx) if tpv else sim.add_variation()
        slot = 0 if tpv else idx
        if cart:
            setattr(v.particles[slot], x, 1.0)
        else:
            v.vary(idx, x)
        vw = v
    else:
        va = sim.add_variation(testparticle=idx) if tpv else sim.add_variation()
        same = (x == y)
        vb = va if same else (sim.add_variation(testparticle=idx) if tpv else sim.add_variation())
        vw = sim.add_variation(order=2, first_order=va, first_order_2=vb, testparticle=idx if tpv else -1)
        slot = 0 if tpv else idx
        if cart:
            setattr(va.particles[slot], x, 1.0)
            if not same:
                setattr(vb.particles[slot], y, 1.0)
        else:
            va.vary(idx, x)
            if not same:
                vb.vary(idx, y)
            vw.vary(idx, x, y)
    run_to(sim, spec)
    which = [idx] if tpv else list(range(nreal))
    got = sum((vec(vw.particles[0 if tpv else i]) for i in which), [])

    def F(shift):
        s = setup(lib, spec, shift)
        run_to(s, spec)
        return sum((vec(s.particles[i]) for i in which), [])
    el = spec.get("_el") or {"a": 1.0}
    hs = {"a": 1e-3 * el.get("a", 1.0), "m": 1e-5}
    if order == 1:
        # WHFast with a fixed step is a smooth map of the initial conditions and its variational equations are the exact
        # tangent map: compare to round-off level (three Richardson levels), for any dt
        wh = spec["integrator"] == "whfast"
        h = hs.get(x, 1e-3) * (4.0 if wh else 1.0)
        ref, err = richardson(fd1(F, x, h), 1.0, levels=3 if wh else 2)
        rel = {"ias15": 1e-6, "whfast": 3e-9, "bs": 1e-4}[spec["integrator"]]
    else:
        hx, hy = 8 * hs.get(x, 1e-3), 8 * hs.get(y, 1e-3)
        ref, err = richardson(fd2(F, x, y, hx, hy), 1.0, levels=3)
        rel = {"ias15": 1e-4, "bs": 1e-3}[spec["integrator"]]
    ok, worst, tol, scale = judge(got, ref, err, rel)
    return ok, {"got": got[:12], "finite_difference": ref[:12], "fd_error_estimate": err, "worst": worst, "tolerance": tol}


# ------------------------------------------------------------------ (c) rescale, MEGNO
def check_rescale(lib, spec):
    rb = lib.rb
    out = []
    for big in (1.0, spec["big"]):
        sim = rb.Simulation()
        sim.integrator = spec["integrator"]
        if spec["integrator"] == "whfast":
            sim.dt = 0.05
            sim.ri_whfast.safe_mode = spec.get("safe_mode", 1)
        elif spec["integrator"] == "leapfrog":
            sim.dt = 0.01
        sim.add(m=1.)
        sim.add(m=1e-3, a=1., e=0.1)
        sim.add(m=1e-3, a=1.8, e=0.05, f=1.)
        v = sim.add_variation()
        v.particles[1].x = big
        v.particles[2].vy = -0.5 * big
        sim.integrate(spec["tmax"], exact_finish_time=0)
        sim.synchronize()
        out.append((vec(v.particles[1]) + vec(v.particles[2]), v.lrescale))
    (ref, l0), (got, l1) = out
    # linear equations: var_big * exp(lrescale) == big * var_1
    lb = math.log(spec["big"])
    worst = 0.0
    scale = max(abs(r) for r in ref)
    for g, r in zip(got, ref):
        worst = max(worst, abs(g * math.exp(l1 - lb) - r) if g == g else float("inf"))
    maxc = max(abs(g) for g in got)
    ok = (l0 == 0.0) and (l1 > 0.0) and worst <= 1e-9 * scale and maxc <= 1e100 * 1.0000001
    return ok, {"lrescale_unit": l0, "lrescale_big": l1, "max_coordinate_after": maxc, "worst_product_error": worst, "scale": scale}


def check_megno(lib, spec):
    rb = lib.rb
    sim = rb.Simulation()
    sim.integrator = "whfast"
    sim.add(m=1.)
    sim.add(m=spec["m1"], a=1., e=spec["e1"])
    sim.add(m=spec["m2"], a=spec["a2"], e=spec["e2"], f=spec["f2"])
    sim.move_to_com()
    sim.dt = 2 * math.pi / 23.7
    sim.init_megno(seed=spec["seed"])
    sim.integrate(2 * math.pi * spec["orbits"], exact_finish_time=0)
    Y, L = sim.megno(), sim.lyapunov()
    ok = abs(Y - 2.0) < 0.1 and abs(L) < 2e-3
    return ok, {"megno": Y, "lyapunov": L, "orbits": spec["orbits"]}


def check_megno_order(lib, spec):
    """MEGNO must not depend on other sets of variational particles, wherever they are in var_config."""
    rb = lib.rb

    def run(after, before):
        sim = rb.Simulation()
        sim.integrator = spec["integrator"]
        sim.dt = 0.05
        sim.add(m=1.)
        sim.add(m=1e-3, a=1., e=0.05)
        sim.add(m=1e-3, a=spec["a2"], e=0.03, f=1.)
        sim.move_to_com()
        if before:
            v = sim.add_variation(); v.particles[1].x = 1.
        sim.init_megno(seed=spec["seed"])
        if after:
            v = sim.add_variation(); v.particles[1].x = 1.
        sim.integrate(spec["tmax"], exact_finish_time=0)
        return sim.megno()
    a, b, c = run(False, False), run(True, False), run(False, True)
    ok = abs(a - b) <= 1e-9 * max(1, abs(a)) and abs(a - c) <= 1e-9 * max(1, abs(a))
    return ok, {"megno_alone": a, "megno_set_added_after": b, "megno_set_added_before": c}


def check_python_vary(lib, spec):
    """The Python entry points (rebound.Particle(variation=..., variation2=...), Variation.vary) must hand back exactly what the
    C constructor returns, for both orders of a pair and for the documented aliases l -> lambda, i -> inc."""
    rb = lib.rb
    x, y = spec["x"], spec.get("y")
    sim = rb.Simulation()
    sim.G = spec["G"]
    prim = rb.Particle(**spec["prim"])
    sim.add(prim)
    po = lib.build(family(x, y), spec["G"], sim.particles[0], spec["el"])
    sim.add(po)
    name = x if y is None else x + "_" + y
    ref = vec(lib.deriv(name, sim.G, sim.particles[0], sim.particles[1]), True)
    alias = {"lambda": "l", "inc": "i"}
    outs = {}
    if y is None:
        forms = [(x, None)] + ([(alias[x], None)] if x in alias else [])
    else:
        forms = [(x, y), (y, x)] + ([(alias.get(x, x), alias.get(y, y))] if (x in alias or y in alias) else [])
    bad = []
    for a, b in forms:
        try:
            p = rb.Particle(simulation=sim, particle=sim.particles[1], variation=a, variation2=b, primary=sim.particles[0])
            got = vec(p, True)
        except Exception as e:
            bad.append(((a, b), repr(e)))
            continue
        if any(not (g == r or (g != g and r != r)) for g, r in zip(got, ref)):
            bad.append(((a, b), got))
    # Variation.vary writes the same particle into the variational slot
    if y is None:
        v = sim.add_variation()
        v.vary(1, x)
        if vec(v.particles[1], True) != ref:
            bad.append((("vary", x), vec(v.particles[1], True)))
    else:
        va = sim.add_variation(); vb = sim.add_variation()
        vw = sim.add_variation(order=2, first_order=va, first_order_2=vb)
        vw.vary(1, y, x)
        if vec(vw.particles[1], True) != ref:
            bad.append((("vary", y, x), vec(vw.particles[1], True)))
    return not bad, {"expected": ref, "mismatches": bad[:4]}


def apply_ops(rb, sim, ops):
    """frame operations between initialisation and integration"""
    for op in ops:
        if op[0] == "com":
            sim.move_to_com()
        elif op[0] == "hel":
            sim.move_to_hel()
        elif op[0] == "rot":
            sim.rotate(rb.Rotation(angle=op[1], axis=op[2]))
        else:
            raise RuntimeError("unknown op %r" % (op,))


def check_multiset(lib, spec):
    """2-4 first-order variation sets in one simulation (any order, mass variations included), frame operations applied after
    the sets were initialised, then integration: EVERY set must equal the centred finite difference of real simulations that
    went through the same operation sequence with that set's parameter perturbed."""
    rb = lib.rb
    base = {"integrator": spec["integrator"], "system": spec["system"], "order": 1}
    subs = []
    for x, idx in spec["sets"]:
        sp = dict(base, x=x, index=idx)
        if not (x in C6 or x == "mcart"):
            sp["fam"] = family(x)
            sp["_el"] = elements_of(lib, sp)
        if x == "mcart":
            sp["x"] = "m"
            sp["cartesian_m"] = True
        subs.append(sp)
    sim = setup(lib, dict(base, x="x", index=0), {})
    nreal = sim.N
    vs = []
    for sp in subs:
        v = sim.add_variation()
        if sp["x"] in C6 or sp.get("cartesian_m"):
            setattr(v.particles[sp["index"]], sp["x"], 1.0)
        else:
            v.vary(sp["index"], sp["x"])
        vs.append(v)
    apply_ops(rb, sim, spec["ops"])
    run_to(sim, base)
    worst_all, bad = 0.0, []
    for k, (sp, v) in enumerate(zip(subs, vs)):
        got = sum((vec(v.particles[i]) for i in range(nreal)), [])

        def F(shift, sp=sp):
            t = setup(lib, sp, shift)
            apply_ops(rb, t, spec["ops"])
            run_to(t, base)
            return sum((vec(t.particles[i]) for i in range(nreal)), [])
        el = sp.get("_el") or {"a": 1.0}
        h = {"a": 1e-3 * el.get("a", 1.0), "m": 1e-5}.get(sp["x"], 1e-3)
        ref, err = richardson(fd1(F, sp["x"], h), 1.0, levels=2)
        ok, worst, tol, scale = judge(got, ref, err, 1e-6)
        if not ok:
            bad.append({"set": k, "param": spec["sets"][k], "worst": worst, "tolerance": tol, "got": got[:9], "finite_difference": ref[:9]})
    return not bad, {"failing_sets": bad[:3], "n_sets": len(subs)}


def check_softening(lib, spec):
    """first-order variation vs finite difference with a softened force"""
    sp = {"integrator": "ias15", "system": spec["system"], "x": spec["x"], "order": 1, "index": 1, "softening": spec["softening"]}
    return check_trajectory(lib, sp)


def check_rescale_mass(lib, spec):
    """a set with a mass variation, multiplied by `big`: exp(lrescale) * (x, v, m) / big must equal the factor-1 run"""
    rb = lib.rb
    out = []
    for big in (1.0, spec["big"]):
        sim = rb.Simulation()
        sim.integrator = spec["integrator"]
        if spec["integrator"] == "leapfrog":
            sim.dt = 0.01
        sim.add(m=1.)
        sim.add(m=1e-3, a=1., e=0.1)
        sim.add(m=1e-3, a=1.8, e=0.05, f=1.)
        v = sim.add_variation()
        v.vary(1, "m")
        for p in v.particles:
            for c in ["m"] + C6:
                setattr(p, c, getattr(p, c) * big)
        sim.integrate(spec["tmax"], exact_finish_time=0)
        out.append(([v.particles[1].m] + vec(v.particles[1]) + vec(v.particles[2]), v.lrescale))
    (ref, l0), (got, l1) = out
    lb = math.log(spec["big"])
    scale = max(abs(r) for r in ref)
    worst = 0.0
    for g, r in zip(got, ref):
        e = l1 - lb + (math.log(abs(g)) if g not in (0.0,) and g == g and abs(g) != float("inf") else 0.0)
        val = math.copysign(math.exp(e), g) if (g == g and abs(g) != float("inf") and e < 700) else float("inf")
        if g == 0.0:
            val = 0.0
        worst = max(worst, abs(val - r))
    ok = worst <= 1e-8 * scale
    return ok, {"lrescale_big": l1, "worst_product_error": worst, "scale": scale}


def var_state(sim):
    """(lrescale, [m, x..vz of every variational particle]) of every variational configuration, as stored"""
    out = []
    for k in range(sim.N_var_config):
        vc = sim.var_config[k]
        ps = vc.particles
        out.append((vc.lrescale, [getattr(p, c) for p in ps for c in ["m"] + C6]))
    return out


def same_state(a, b):
    import struct
    bits = lambda v: struct.pack("<d", v)
    return len(a) == len(b) and all(bits(x[0]) == bits(y[0]) and len(x[1]) == len(y[1]) and
                                    all(bits(u) == bits(w) for u, w in zip(x[1], y[1])) for x, y in zip(a, b))


def check_derived(lib, spec):
    """DERIVED simulations carry the same tangent vector as the live one: archive snapshots taken before and after automatic
    rescale events (snapshot 0 before the first rescale), copies and pickles must have bitwise the lrescale and the variational
    particles of the live simulation at the same time, and the represented vector exp(lrescale)*(m,x..vz)/big must match the
    factor-1 run (linearity; the factor-1 run itself is checked against finite differences by the trajectory oracle)."""
    import os, pickle, tempfile, shutil
    rb = lib.rb
    d = tempfile.mkdtemp(prefix="c16_derived_")
    try:
        runs = {}
        for big in (1.0, spec["big"]):
            sim = rb.Simulation()
            sim.integrator = spec["integrator"]
            if spec["integrator"] == "whfast":
                sim.dt = 0.05
                sim.ri_whfast.safe_mode = spec.get("safe_mode", 1)
            sim.add(m=1.)
            sim.add(m=1e-3, a=1., e=0.1)
            sim.add(m=5e-4, a=spec["a2"], e=0.05, f=1.)
            nsets = spec["nsets"]
            for k in range(nsets):
                v = sim.add_variation()
                v.vary(1 + k % 2, ["a", "m", "e"][k % 3] if spec["integrator"] != "whfast" else ["a", "e", "lambda"][k % 3])
                for p in v.particles:
                    for c in ["m"] + C6:
                        setattr(p, c, getattr(p, c) * big)
            path = os.path.join(d, "a_%g.bin" % (1 if big == 1.0 else 2))
            live, others = [], []
            nseg = spec["nseg"]
            for j in range(nseg + 1):
                if j:
                    sim.integrate(spec["tmax"] * j / nseg, exact_finish_time=0)
                    if spec["integrator"] == "whfast":
                        sim.synchronize()
                sim.save_to_file(path)
                live.append((sim.t, var_state(sim)))
                if j in (nseg // 2, nseg):
                    others.append((j, "copy", var_state(sim.copy())))
                    others.append((j, "pickle", var_state(pickle.loads(pickle.dumps(sim)))))
            runs[big] = (path, live, others)
        path, live, others = runs[spec["big"]]
        bad = []
        sa = rb.Simulationarchive(path)
        if len(sa) != len(live):
            bad.append(("snapshots", len(sa), len(live)))
        for j in range(min(len(sa), len(live))):
            r = sa[j]
            if r.t != live[j][0] or not same_state(var_state(r), live[j][1]):
                bad.append(("snapshot", j, live[j][0], [x[0] for x in var_state(r)], [x[0] for x in live[j][1]]))
        for j, kind, st in others:
            if not same_state(st, live[j][1]):
                bad.append((kind, j))
        # a rescale must have happened between snapshot 0 and the last one, otherwise the case says nothing
        rescaled = any(x[0] > 0 for x in live[-1][1]) and all(x[0] == 0 for x in live[0][1])
        # represented vector of every restored snapshot vs the factor-1 run (restored as well)
        sa1 = rb.Simulationarchive(runs[1.0][0])
        lb = math.log(spec["big"])
        worst = 0.0
        for j in range(min(len(sa), len(sa1))):
            for (l1, v1), (l0, v0) in zip(var_state(sa[j]), var_state(sa1[j])):
                scale = max(abs(x) for x in v0) or 1.0
                for g, r0 in zip(v1, v0):
                    val = g * math.exp(l1 - lb) if (g == g and abs(g) != float("inf") and l1 - lb < 700) else float("inf")
                    worst = max(worst, abs(val - r0 * math.exp(l0)) / scale)
        ok = not bad and worst <= 1e-8
        if not rescaled and ok:
            raise Inconclusive("no automatic rescale happened in this run")
        return ok, {"mismatches": bad[:4], "worst_represented_error": worst, "lrescale_last": [x[0] for x in live[-1][1]]}
    finally:
        shutil.rmtree(d, ignore_errors=True)


def drain_messages(sim):
    """read every queued message (an unread error makes the next integrate() return at once)"""
    for _ in range(64):
        try:
            sim.process_messages()
            return
        except RuntimeError:
            continue


def check_corner(lib, spec):
    """edges of the quantified space for trajectories: a variation set added at t0 != 0 after steps were taken, integration
    backwards in time, N_real = 1 and 2, test-particle variation of the first and of the last particle, and continuing with the
    same object after the documented WHFast refusal of a test-particle variation."""
    rb = lib.rb
    mode, integ = spec["mode"], spec["integrator"]
    fixed = integ in ("whfast", "leapfrog")
    eft = 0 if fixed else 1
    h = 1e-6

    def base(nreal=3, sign=1.0):
        sim = rb.Simulation()
        sim.integrator = integ
        if fixed:
            sim.dt = sign * spec.get("dt", 0.02)
        sim.add(m=1.)
        if nreal >= 2:
            sim.add(m=spec.get("m1", 1e-3), a=1., e=0.1, inc=0.2, omega=0.3, f=spec.get("f1", 0.4))
        if nreal >= 3:
            sim.add(m=1e-3, a=1.8, e=0.05, f=1.)
        return sim
    c = spec.get("coord", "x")
    if mode == "late":                      # set added at t0 after steps; finite difference perturbs the state at t0
        def run(delta, var):
            sim = base()
            sim.integrate(spec["t0"], exact_finish_time=eft)
            if var:
                v = sim.add_variation(); setattr(v.particles[1], c, 1.0)
            else:
                setattr(sim.particles[1], c, getattr(sim.particles[1], c) + delta)
            sim.integrate(spec["t0"] + spec["tmax"], exact_finish_time=eft)
            return (sum((vec(v.particles[i]) for i in range(3)), []) if var else sum((vec(sim.particles[i]) for i in range(3)), [])), sim.t
    elif mode == "backward":
        def run(delta, var):
            sim = base(sign=-1.0)
            if var:
                v = sim.add_variation(); setattr(v.particles[1], c, 1.0)
            else:
                setattr(sim.particles[1], c, getattr(sim.particles[1], c) + delta)
            sim.integrate(-spec["tmax"], exact_finish_time=eft)
            return (sum((vec(v.particles[i]) for i in range(3)), []) if var else sum((vec(sim.particles[i]) for i in range(3)), [])), sim.t
    elif mode in ("n1", "n2"):
        nreal = 1 if mode == "n1" else 2
        def run(delta, var):
            sim = base(nreal)
            sim.particles[0].vx = 0.3
            k = nreal - 1
            if var:
                v = sim.add_variation(); setattr(v.particles[k], c, 1.0)
            else:
                setattr(sim.particles[k], c, getattr(sim.particles[k], c) + delta)
            sim.integrate(spec["tmax"], exact_finish_time=eft)
            return (sum((vec(v.particles[i]) for i in range(nreal)), []) if var else sum((vec(sim.particles[i]) for i in range(nreal)), [])), sim.t
    elif mode in ("tp_first", "tp_last", "after_error"):
        idx = 0 if mode == "tp_first" else 2
        def run(delta, var):
            sim = rb.Simulation()
            sim.integrator = "whfast" if (mode == "after_error" and var) else integ
            if sim.integrator == "whfast":
                sim.dt = 0.02
            sim.add(m=0., x=0.3, vy=1.2)
            sim.add(m=1., x=-1.)
            sim.add(m=0.0, x=1.0, vy=0.7, vz=0.1)
            if var:
                v = sim.add_variation(testparticle=idx); setattr(v.particles[0], c, 1.0)
                if mode == "after_error":
                    try:
                        sim.integrate(1.0)
                        raise RuntimeError("WHFast accepted a test-particle variation")
                    except RuntimeError as e:
                        if "not supported with WHFast" not in str(e):
                            raise
                    drain_messages(sim)
                    if sim.t != 0.0:
                        raise RuntimeError("time advanced although the integrator refused the configuration")
                    sim.integrator = integ
            else:
                setattr(sim.particles[idx], c, getattr(sim.particles[idx], c) + delta)
            sim.integrate(spec["tmax"])
            return (vec(v.particles[0]) if var else vec(sim.particles[idx])), sim.t
    else:
        raise RuntimeError("unknown mode")
    got, tv = run(0.0, True)

    def F(shift):
        out, t = run(shift.get(c, 0.0), False)
        if t != tv:
            raise RuntimeError("runs ended at different times %r %r" % (t, tv))
        return out
    ref, err = richardson(fd1(F, c, 1e-3 if not fixed else 4e-3), 1.0, levels=3 if fixed else 2)
    ok, worst, tol, scale = judge(got, ref, err, {"ias15": 1e-6, "bs": 1e-4}.get(integ, 1e-7))
    return ok, {"got": got[:9], "finite_difference": ref[:9], "worst": worst, "tolerance": tol}


def check_history(lib, spec):
    """An object with history must continue like a FRESH object holding the same particles, time, settings, variation sets and
    lrescale: after an automatic rescale, after switching the integrator and back, after a refused particle removal, after
    `del sim.particles` + re-adding everything, after a second init_megno.  Fixed-step integrators (safe mode): bit for bit;
    IAS15/BS keep a legitimate memory (predictor, proposed step): compared at equal times to 1e-11 (IAS15) / 1e-9 (BS, eps 1e-13)."""
    import struct, warnings
    rb = lib.rb
    F7 = ["m"] + C6
    integ, hist = spec["integrator"], spec["history"]
    fixed = integ in ("whfast", "leapfrog")
    eft = 0 if fixed else 1

    def base():
        sim = rb.Simulation()
        sim.integrator = integ
        if fixed:
            sim.dt = 0.02
        sim.ri_bs.eps_rel = 1e-13       # BS: the adaptive step sequence is legitimate memory; make its effect small
        sim.ri_bs.eps_abs = 1e-13
        sim.add(m=1.)
        sim.add(m=1e-3, a=1., e=0.1, f=spec["f1"])
        sim.add(m=5e-4, a=spec["a2"], e=0.05, f=2.)
        return sim

    def go(sim, T):
        sim.integrate(sim.t + T, exact_finish_time=(0 if sim.integrator in ("whfast", "leapfrog") else 1))
        sim.synchronize()

    def fresh_from(h, nsets, megno_last=False):
        f = rb.Simulation()
        f.G = h.G; f.integrator = h.integrator; f.dt = h.dt; f.t = h.t; f.softening = h.softening
        f.ri_bs.eps_rel = h.ri_bs.eps_rel; f.ri_bs.eps_abs = h.ri_bs.eps_abs
        nreal = h.N - h.N_var
        for i in range(nreal):
            p = h.particles[i]
            f.add(m=p.m, x=p.x, y=p.y, z=p.z, vx=p.vx, vy=p.vy, vz=p.vz)
        for k in range(nsets):
            if megno_last and k == nsets - 1:
                f.init_megno(seed=1)
            else:
                f.add_variation()
        for k in range(nsets):
            hv, fv = h.var_config[k], f.var_config[k]
            for ph, pf in zip(hv.particles, fv.particles):
                for c in F7:
                    setattr(pf, c, getattr(ph, c))
            fv.lrescale = hv.lrescale
        return f

    def state(sim):
        out = [sim.t, float(sim._calculate_megno), float(sim.N), float(sim.N_var)]
        for i in range(sim.N):
            out += [getattr(sim.particles[i], c) for c in F7]
        out += [sim.var_config[k].lrescale for k in range(sim.N_var_config)]
        if sim._calculate_megno:
            out += [sim._megno_Ys, sim._megno_Yss, float(sim._megno_n)]
        return out
    with warnings.catch_warnings():
        warnings.simplefilter("ignore")
        h = base()
        nsets, megno_last = 1, False
        if hist == "rescale_continue":
            v = h.add_variation(); v.vary(1, "a")
            for p in v.particles:
                for c in F7:
                    setattr(p, c, getattr(p, c) * spec["big"])
            go(h, 40.)
            if not h.var_config[0].lrescale > 0:
                raise Inconclusive("no rescale happened")
        elif hist == "switch_back":
            v = h.add_variation(); v.vary(2, "e"); go(h, 4.)
            other = "ias15" if integ != "ias15" else "whfast"
            h.integrator = other
            if other == "whfast":
                h.dt = 0.02
            go(h, 3.)
            h.integrator = integ
            if fixed:
                h.dt = 0.02
        elif hist == "refused_remove":
            v = h.add_variation(); v.vary(1, "a"); go(h, 4.)
            try:
                h.remove(2)
                raise RuntimeError("removing a real particle with variational particles present was accepted")
            except RuntimeError as e:
                if "not supported" not in str(e):
                    raise
            drain_messages(h)
        elif hist in ("remove_all_readd", "megno_remove_all"):
            if hist == "megno_remove_all":
                h.init_megno(seed=3)
            else:
                va = h.add_variation(); va.vary(1, "a")
            vb = h.add_variation(); vb.vary(2, "e")
            go(h, 3.)
            keep = [[getattr(h.particles[i], c) for c in F7] for i in range(h.N)]
            t0 = h.t
            del h.particles
            for i in range(3):
                h.add(**dict(zip(F7, keep[i])))
            if hist == "remove_all_readd":
                nsets = 2
                for k in range(2):
                    v = h.add_variation()
                    for j, p in enumerate(v.particles):
                        for c, val in zip(F7, keep[3 + 3 * k + j]):
                            setattr(p, c, val)
            else:
                nsets = 0          # nothing variational is re-added: no MEGNO, no variational particle may be touched or read
        elif hist == "megno_twice":
            h.init_megno(seed=5); go(h, 3.)
            h.init_megno(seed=6)
            nsets, megno_last = 2, True
        else:
            raise RuntimeError("unknown history")
        f = fresh_from(h, nsets, megno_last)
        go(h, spec["tmax"]); go(f, spec["tmax"])
        a, b = state(h), state(f)
    bits = lambda v: struct.pack("<d", v)
    if len(a) != len(b):
        return False, {"history": a[:8], "fresh": b[:8], "lengths": (len(a), len(b))}
    if fixed:
        ok = all(bits(x) == bits(y) for x, y in zip(a, b))
    else:
        ok = all((x == y) or (x != x and y != y) or abs(x - y) <= (1e-11 if integ == "ias15" else 1e-9) * max(1.0, abs(y)) for x, y in zip(a, b))
    k = next((i for i, (x, y) in enumerate(zip(a, b)) if bits(x) != bits(y)), None)
    return ok, {"first_difference_at": k, "history": a[k] if k is not None else None, "fresh": b[k] if k is not None else None,
                "calculate_megno": (h._calculate_megno, f._calculate_megno)}


CHECKS = {"constructor": check_constructor, "trajectory": check_trajectory, "rescale": check_rescale, "megno": check_megno, "megno_order": check_megno_order, "python_vary": check_python_vary, "multiset": check_multiset, "softening": check_softening, "rescale_mass": check_rescale_mass, "derived": check_derived, "corner": check_corner, "history": check_history}


def pairs_available(lib):
    out = []
    for i, x in enumerate(PARAMS):
        for y in PARAMS:
            try:
                getattr(lib.c, "reb_particle_derivative_%s_%s" % (x, y))
            except AttributeError:
                continue
            out.append((x, y))
    return out


def regular_a2(rng):
    """outer semi-major axis (inner = 1) whose period ratio keeps clear of every p:q mean-motion resonance with q <= 4:
    the MEGNO -> 2 clause of the property is about REGULAR orbits (a thorough run once drew the 4:1 resonance, MEGNO 2.47)"""
    while True:
        a2 = rng.uniform(1.9, 2.6)
        P = a2 ** 1.5
        if all(abs(P - pp / q) > 0.05 for q in (1, 2, 3, 4) for pp in range(q + 1, 6 * q)):
            return a2


def search(ctx, rebound, libdir):
    lib = Lib(rebound)
    rng = ctx.rng
    fails = []
    counts = {}
    inconclusive = []

    def do(kind, spec, key):
        try:
            ok, det = CHECKS[kind](lib, spec)
        except Inconclusive as e:
            counts["inconclusive"] = counts.get("inconclusive", 0) + 1
            inconclusive.append((kind,) + key)
            return
        except Exception as e:       # the library raising on a supported configuration is a failure too
            ok, det = False, {"exception": repr(e)}
        ctx.case(key=(kind,) + key)
        counts[kind] = counts.get(kind, 0) + 1
        if not ok:
            spec = {k: v for k, v in spec.items() if not k.startswith("_")}
            if kind == "trajectory" and spec["integrator"] == "whfast" and spec["x"] == "m":
                key = ("whfast_mass_variation",)
            fails.append((kind, key, {"check": kind, "spec": spec, "detail": det}))

    # (a) constructors: all 12 + all exported pairs, several orbits each
    pairs = pairs_available(lib)
    ctx.extra["second_order_pairs_exported"] = ["%s_%s" % p for p in pairs]
    for rep in range(ctx.scale(6, 60)):
        for x in PARAMS:
            do("constructor", dict(gen_elements(rng, family(x)), x=x), ("d1", x))
        for x, y in pairs:
            do("constructor", dict(gen_elements(rng, family(x, y)), x=x, y=y), ("d2", x, y))

    # (a'') constructors at degenerate elements
    for corner in ("e0", "i0", "e0i0", "m0"):
        for x in ("m", "a", "lambda", "h", "k", "ix", "iy"):
            do("constructor", dict(gen_corner_elements(rng, "pal", corner), x=x), ("d1c", corner, x))
        for x, y in [p_ for p_ in pairs if family(*p_) == "pal"][::3]:
            do("constructor", dict(gen_corner_elements(rng, "pal", corner), x=x, y=y), ("d2c", corner, x, y))
    for corner in ("i0", "esmall", "ebig", "ipi", "m0"):
        for x in ("e", "inc", "Omega", "omega", "f"):
            if corner == "i0" and x in ("Omega", "inc"):
                continue      # d/dOmega, d/dinc at inc = 0 depend on the (arbitrary) node direction: documented singularity
            do("constructor", dict(gen_corner_elements(rng, "orb", corner), x=x), ("d1c", corner, x))

    # (a') the Python entry points, every parameter and every exported pair in both orders
    for x in PARAMS:
        do("python_vary", dict(gen_elements(rng, family(x)), x=x), ("py1", x))
    for x, y in pairs:
        do("python_vary", dict(gen_elements(rng, family(x, y)), x=x, y=y), ("py2", x, y))

    # (b) trajectories
    firsts = C6 + PARAMS
    for integ in ("ias15", "bs", "whfast"):
        for x in firsts:
            for rep in range(ctx.scale(2, 12)):
                idx = rng.choice([1, 2])
                spec = {"integrator": integ, "system": base_system(rng), "x": x, "order": 1, "index": idx}
                if integ == "whfast":
                    spec["dt"] = rng.choice([0.02, rng.uniform(0.05, 0.25)])
                do("trajectory", spec, ("t1", integ, x))
        # mass as a plain Cartesian parameter (velocity fixed), star included
        for idx in (0, 1):
            do("trajectory", {"integrator": integ, "system": base_system(rng), "x": "m", "order": 1, "index": idx,
                              "cartesian_m": True}, ("t1m", integ, idx))
        # test-particle classes: massless third body, with and without N_active; test-particle variation
        for cls, tpv in (("massless", False), ("nactive", False), ("massless", True), ("nactive", True)):
            if tpv and integ == "whfast":
                continue        # documented: test-particle variations are not supported by WHFast
            x = rng.choice(C6)
            do("trajectory", {"integrator": integ, "system": base_system(rng), "x": x, "order": 1, "index": 3,
                              "testparticle_class": cls, "tp_variation": tpv}, ("t1tp", integ, cls, tpv))
    seconds = [(x, x) for x in C6[:3]] + [("x", "vy"), ("y", "z")] + pairs
    for integ in ("ias15", "bs"):
        chosen = seconds * (3 if ctx.thorough else 1)
        for x, y in chosen:
            idx = rng.choice([1, 2])
            do("trajectory", {"integrator": integ, "system": base_system(rng), "x": x, "y": y, "order": 2, "index": idx},
               ("t2", integ, x, y))
        x = rng.choice(C6[:3])
        do("trajectory", {"integrator": integ, "system": base_system(rng), "x": x, "y": x, "order": 2, "index": 3,
                          "testparticle_class": "massless", "tp_variation": True}, ("t2tp", integ))

    # (b') several variation sets in one simulation + frame operations after their initialisation
    ms_params = C6 + ["mcart", "m", "a", "e", "inc", "omega", "f", "lambda", "h", "k"]
    for rep in range(ctx.scale(10, 120)):
        nset = rng.choice([2, 2, 3, 4])
        sets = [(rng.choice(ms_params), rng.choice([1, 2])) for _ in range(nset)]
        if rep % 2 == 0:                 # at least one mass variation, at a random place in the order
            sets[rng.randrange(nset)] = (rng.choice(["m", "mcart"]), rng.choice([1, 2]))
        ops = []
        for _ in range(rng.choice([1, 1, 2, 3])):
            # docs/simulationreferenceframes.md: move_to_hel "moves all particles by the same amount" and "Variational equations
            # are not affected by this operation" (documented behaviour).  It is therefore only judged where that reading makes
            # the sets derivatives of the shifted state: while the variation of particle 0 is zero, i.e. before any move_to_com
            o = rng.choice(["com", "com", "hel", "rot"] if not any(q[0] == "com" for q in ops) else ["com", "rot"])
            ops.append(("rot", rng.uniform(-3, 3), [rng.gauss(0, 1), rng.gauss(0, 1), rng.gauss(0, 1)]) if o == "rot" else (o,))
        do("multiset", {"integrator": rng.choice(["ias15", "ias15", "bs"]), "system": base_system(rng), "sets": sets, "ops": ops},
           ("multi", nset, "+".join(o[0] for o in ops)))
    # the same oracle on the edge systems of the frame operations (COM exactly zero, N = 1, massless companions) with
    # variations that move the centre of mass (Cartesian coordinates and masses of any particle, the first one included)
    for rep in range(ctx.scale(8, 80)):
        sysd = edge_system(rng)
        nreal = len(sysd["cart"])
        nset = rng.choice([1, 2, 3])
        sets = [(rng.choice(C6 + ["mcart", "mcart"]), rng.randrange(nreal)) for _ in range(nset)]
        ops = [("com",)] + [rng.choice([("com",), ("rot", rng.uniform(-3, 3), [rng.gauss(0, 1), rng.gauss(0, 1), rng.gauss(0, 1)])])
                            for _ in range(rng.choice([0, 1]))]
        do("multiset", {"integrator": "ias15", "system": sysd, "sets": sets, "ops": ops}, ("multi_edge", sysd["edge"], nset))

    # fixed findings (/repo 73bd0c3, 32cf4f3) probed under stable keys: softened force, rescaling of a set with a mass variation
    for key, kind, spec, what in (
        ("var_gravity_ignores_softening", "softening", {"system": base_system(rng), "x": rng.choice(C6), "softening": rng.uniform(0.05, 0.3)},
         "with softening != 0 the variational particles are not the derivative of the trajectory (variational gravity ignores softening)"),
        ("rescale_ignores_variational_mass", "rescale_mass", {"integrator": rng.choice(["ias15", "leapfrog"]), "big": 10 ** rng.uniform(99.2, 99.9), "tmax": rng.uniform(30, 60)},
         "rescaling a set with a mass variation changes the represented tangent vector (the variational mass is not rescaled)")):
        try:
            ok, det = CHECKS[kind](lib, spec)
        except Inconclusive:
            ok, det = True, {}
        except Exception as e:
            ok, det = False, {"exception": repr(e)}
        ctx.case(key=(kind,))
        if not ok:
            ctx.violation(key, {"check": kind, "spec": spec, "detail": det}, True, what)

    # (b'') derived simulations: archive snapshots around automatic rescale events, copies, pickles
    for integ, sm in (("ias15", None), ("whfast", 1), ("whfast", 0), ("leapfrog", None)) * ctx.scale(1, 4):
        spec = {"integrator": integ, "big": 10 ** rng.uniform(98.5, 99.8), "tmax": rng.uniform(60, 120), "nseg": rng.choice([4, 6, 8]),
                "nsets": rng.choice([1, 2, 3, 4]), "a2": rng.uniform(1.7, 2.4)}
        if sm is not None:
            spec["safe_mode"] = sm
        do("derived", spec, ("derived", integ) if sm is None else ("derived", integ, "safe_mode=%d" % sm))

    # (b''') corners of the quantified space
    for integ in ("ias15", "bs", "whfast", "leapfrog"):
        for mode in ("late", "backward", "n1", "n2"):
            do("corner", {"mode": mode, "integrator": integ, "coord": rng.choice(C6), "t0": rng.uniform(1, 4), "tmax": rng.uniform(3, 8),
                          "m1": rng.choice([0.0, 1e-3]), "f1": rng.uniform(0, 6)}, ("corner", mode, integ))
    for integ in ("ias15", "bs"):
        for mode in ("tp_first", "tp_last", "after_error"):
            do("corner", {"mode": mode, "integrator": integ, "coord": rng.choice(C6), "tmax": rng.uniform(3, 6)}, ("corner", mode, integ))

    # (b'''') history vs fresh
    for integ in ("whfast", "leapfrog", "ias15", "bs"):
        for hist in ("rescale_continue", "switch_back", "refused_remove", "remove_all_readd", "megno_twice", "megno_remove_all"):
            if hist.startswith("megno") and integ in ("leapfrog", "bs"):
                continue        # MEGNO is accumulated by WHFast, IAS15 (and EOS) only; megno_remove_all: fixed finding (/repo c7dcae8), kept as regression
            spec = {"integrator": integ, "history": hist, "big": 10 ** rng.uniform(99.2, 99.8), "f1": rng.uniform(0, 6),
                    "a2": rng.uniform(1.7, 2.3), "tmax": rng.uniform(4, 9)}
            if hist == "megno_remove_all":
                try:
                    ok, det = check_history(lib, spec)
                except Exception as e:
                    ok, det = False, {"exception": repr(e)}
                ctx.case(key=("history", hist, integ))
                if not ok:
                    ctx.violation("megno_stale_after_remove_all", {"check": "history", "spec": spec, "detail": det}, True,
                                  "after `del sim.particles` calculate_megno keeps the index of the removed MEGNO particles: the "
                                  "integrators keep accumulating MEGNO from particles beyond N")
            else:
                do("history", spec, ("history", hist, integ))

    # (c) rescaling and chaos indicators
    for integ, sm in (("ias15", None), ("whfast", 1), ("whfast", 0), ("leapfrog", None)):
        spec = {"integrator": integ, "big": 10 ** rng.uniform(99.2, 99.9), "tmax": rng.uniform(20, 40)}
        if sm is not None:
            spec["safe_mode"] = sm
        do("rescale", spec, ("rescale", integ) if sm is None else ("rescale", integ, "safe_mode=%d" % sm))
    for rep in range(ctx.scale(1, 4)):
        do("megno", {"m1": 10 ** rng.uniform(-5, -4), "m2": 10 ** rng.uniform(-5, -4), "e1": rng.uniform(0, 0.05),
                     "e2": rng.uniform(0, 0.05), "a2": regular_a2(rng), "f2": rng.uniform(0, 6), "seed": rng.randrange(1 << 30),
                     "orbits": ctx.scale(3000, 10000)}, ("megno", rep))

    # MEGNO vs position of its configuration in var_config (fixed finding megno_whfast_config_order, /repo 11b9cc7; probe kept)
    for integ in ("whfast", "ias15"):
        spec = {"integrator": integ, "a2": rng.uniform(1.5, 1.9), "seed": rng.randrange(1 << 30), "tmax": rng.uniform(100, 300)}
        try:
            ok, det = check_megno_order(lib, spec)
        except Exception as e:
            ok, det = False, {"exception": repr(e)}
        ctx.case(key=("megno_order", integ))
        if not ok:
            ctx.violation("megno_whfast_config_order" if integ == "whfast" else "megno_order:" + integ,
                          {"check": "megno_order", "spec": spec, "detail": det}, True,
                          "MEGNO changes when another set of variational particles is added after init_megno (%s)" % integ)
    # WHFast with N_active=1 (fixed finding var1_whfast_nactive_lt_starti, /repo 09c4229): probed under a stable key
    spec = {"integrator": "whfast", "system": base_system(rng), "x": "x", "order": 1, "index": 1, "whfast_nactive1": True}
    try:
        ok, det = check_whfast_nactive1(lib, spec)
    except Exception as e:
        ok, det = False, {"exception": repr(e)}
    ctx.case(key=("whfast_nactive1",))
    if not ok:
        ctx.violation("var1_whfast_nactive_lt_starti", {"check": "whfast_nactive1", "spec": spec, "detail": det}, True,
                      "WHFast (Jacobi, gravity_ignore_terms=1) with N_active=1: first-order variational particles are not the "
                      "derivative of the trajectory (variational loop starts at N_active instead of MAX(N_active,starti))")

    # fixed finding (/repo c089d6c): the Pal Kepler solver must converge for 0.18 <= e < 0.3 (stable key)
    ok, det = check_pal_kepler(lib, {"n": 400, "seed": rng.randrange(1 << 30)})
    ctx.case(key=("pal_kepler",))
    if not ok:
        ctx.violation("pal_kepler_unconverged", {"check": "pal_kepler", "spec": det["spec"], "detail": det}, True,
                      "reb_tools_solve_kepler_pal returns (p,q) with residual up to 1e-4 for 0.2<=e<0.3, so reb_particle_from_pal and "
                      "the Pal derivative constructors (which assume the solved equation) disagree with finite differences there")
    ctx.extra["searcher_counts"] = counts
    ctx.extra["searcher_inconclusive"] = [":".join(str(t) for t in k) for k in inconclusive[:20]]
    ctx.obligation("searcher:C16 at most 5%% of the finite-difference checks inconclusive (%d of %d)"
                   % (len(inconclusive), sum(counts.values())), len(inconclusive) * 20 <= sum(counts.values()),
                   str(inconclusive[:10]))
    seen = set()
    for kind, key, rep in fails:
        k = "%s:%s" % (kind, ":".join(str(s) for s in key[:4]))
        if k in seen or len(seen) >= 12:
            continue
        seen.add(k)
        ctx.violation(k, rep, True, "variational output differs from the finite difference (%s %s)" % (kind, key))


def check_whfast_nactive1(lib, spec):
    rb = lib.rb

    def mk(dx):
        sim = rb.Simulation()
        sim.integrator = "whfast"
        sim.dt = 0.02
        sim.add(m=1.)
        sim.add(m=0., a=1., e=0.1)
        sim.add(m=0., a=1.7, e=0.05, f=1.)
        sim.particles[1].x += dx
        sim.N_active = 1
        return sim
    s = mk(0.0)
    v = s.add_variation()
    v.particles[1].x = 1.0
    s.integrate(5.0, exact_finish_time=0)
    got = vec(v.particles[1])

    def F(shift):
        t = mk(shift.get("x", 0.0))
        t.integrate(5.0, exact_finish_time=0)
        return vec(t.particles[1])
    ref, err = richardson(fd1(F, "x", 3e-4), 1.0, levels=2)
    ok, worst, tol, scale = judge(got, ref, err, 1e-6)
    return ok, {"got": got, "finite_difference": ref, "worst": worst, "tolerance": tol}


def check_pal_kepler(lib, spec):
    import random
    rng = random.Random(spec["seed"])
    worst, arg = 0.0, None
    for i in range(spec["n"]):
        e = rng.uniform(0.18, 0.2999); om = rng.uniform(-3.2, 3.2); lam = rng.uniform(-3.2, 3.2)
        h, k = e * math.sin(om), e * math.cos(om)
        p, q = D(0), D(0)
        lib.c.reb_tools_solve_kepler_pal(D(h), D(k), D(lam), ctypes.byref(p), ctypes.byref(q))
        p, q = p.value, q.value
        f0 = q * math.cos(p) + p * math.sin(p) - (k * math.cos(lam) + h * math.sin(lam))
        f1 = -q * math.sin(p) + p * math.cos(p) - (k * math.sin(lam) - h * math.cos(lam))
        r = math.hypot(f0, f1)
        if r > worst or r != r:
            worst, arg = r, {"h": h, "k": k, "lambda": lam, "p": p, "q": q}
    return worst < 1e-12, {"worst_residual": worst, "at": arg, "spec": spec}


def replay(ctx, rebound, rep):
    lib = Lib(rebound)
    r = rep["replay"]
    if r["check"] == "whfast_nactive1":
        ok, det = check_whfast_nactive1(lib, r["spec"])
    elif r["check"] == "pal_kepler":
        ok, det = check_pal_kepler(lib, r["spec"])
    else:
        ok, det = CHECKS[r["check"]](lib, r["spec"])
    print("replay %s: %s\n%s" % (r["check"], "holds" if ok else "VIOLATED", det))
    return 0 if ok else 1
