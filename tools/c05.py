"""C05 — a saved simulation restores bit-for-bit and continues bit-for-bit.

1. regeneration: tools/translate_descriptors.py rebuilds coq/Gen/Descriptors.v (descriptor table, struct members,
   framing constants, diff member lists) from the CURRENT tree; the generated table is additionally compared
   with the table of the compiled library (reb_binary_field_descriptor_list read through ctypes);
2. proof obligations: coq/C05 (framing inverse for all field lists, per-descriptor write/read/write round trip for
   every dtype class, pointer fix-up invisible under the mask, table_ok / sizes_agree / persisted_complete of the
   regenerated table by computation);
3. correspondence: for states built through the rebound API, the bytes of reb_simulation_save_to_stream are
   decoded by the Coq reader, re-encoded by the Coq writer (must be byte-identical), applied to a fresh state and
   written again by the Coq writer: must equal (pointer members masked) the library's save(load(bytes));
4. library-only oracles (always run; they produce the concrete failing input): continuation oracle
   (original vs restored vs copy advanced 1,7,50 steps, all persisted fields bitwise), per-member mutation oracle.
"""
import json, os, re, sys, time, warnings
import vlib

DT_ENUM = {0: "DDouble", 1: "DInt", 2: "DUInt", 3: "DU32", 4: "DI64", 5: "DU64", 7: "DVec3", 8: "DParticle", 9: "DPointer",
           10: "DPointerAligned", 11: "DDp7", 12: "DOther", 13: "DEnd", 15: "DParticle4", 16: "DPointerFixed"}


def import_lib(libdir):
    if libdir not in sys.path:
        sys.path.insert(0, libdir)
    tools = os.path.dirname(os.path.abspath(__file__))
    if tools not in sys.path:
        sys.path.insert(0, tools)
    import rebound
    import c05_gen
    return rebound, c05_gen


def gen_table():
    s = open(os.path.join(vlib.COQ, "Gen", "Descriptors.v")).read()
    rows = [(int(a), b, c, d, e, int(f)) for a, b, c, d, e, f in
            re.findall(r'mkdesc (\d+) (\w+) "([^"]*)" "([^"]*)" "([^"]*)" (\d+)', s)]
    sim = s.split("Definition sim_members")[1].split("].")[0]
    members = {p: (int(off), k, int(sz)) for p, off, k, sz, _ in re.findall(r'mkmember "([^"]*)" (\d+) (\w+) (\d+) "([^"]*)"', sim)}
    return rows, members


def check_dtype_enum():
    src = open(os.path.join(vlib.REPO, "src", "rebound.h")).read()
    m = re.search(r"struct reb_binary_field_descriptor\s*\{.*?enum\s*\{(.*?)\}\s*dtype;", src, re.S)
    if not m:
        return False, "dtype enum not found"
    body = re.sub(r"//[^\n]*", "", m.group(1))
    got = {}
    for name, val in re.findall(r"(REB_\w+)\s*=\s*(\d+)", body):
        got[int(val)] = name
    want = {0: "REB_DOUBLE", 1: "REB_INT", 2: "REB_UINT", 3: "REB_UINT32", 4: "REB_INT64", 5: "REB_UINT64", 7: "REB_VEC3D",
            8: "REB_PARTICLE", 9: "REB_POINTER", 10: "REB_POINTER_ALIGNED", 11: "REB_DP7", 12: "REB_OTHER", 13: "REB_FIELD_END",
            14: "REB_FIELD_NOT_FOUND", 15: "REB_PARTICLE4", 16: "REB_POINTER_FIXED_SIZE"}
    return got == want, "enum reb_binary_field_dtype = %s" % got


def compare_tables(rebound, gen):
    """generated table (source text) vs the table compiled into the library."""
    rows, members = gen_table()
    lib = gen.descriptors(rebound)
    bad = []
    if len(rows) != len(lib):
        bad.append("row count %d vs %d" % (len(rows), len(lib)))
    for r, l in zip(rows, lib):
        fid, dt, name, member, count, esz = r
        exp_off = members[member][0] if member else 0
        exp_offn = members[count][0] if count else 0
        if (fid, dt, name, exp_off, exp_offn, esz) != (l["id"], DT_ENUM.get(l["dtype"], "?"), l["name"], l["offset"], l["offset_N"], l["element_size"]):
            bad.append("row %r vs library %r" % (r, l))
    return bad


def option_sweep(rebound, gen, rng):
    """EVERY integrator x EVERY value of every option dict of the Python layer (taken from the imported rebound package,
    so a new dict entry is swept automatically), plus the numeric options on a small grid, crossed with save point and
    with the gravity / collision / boundary dicts.  Invalid combinations are rejected by the library itself; the
    caller skips a recipe whose plain (never saved) run raises."""
    import itertools, copy
    from rebound import simulation as S
    from rebound.integrators import whfast as W, saba as SA, eos as EO, trace as TR
    out = []
    def base(integ, label):
        b = gen._base(rng, integ, "optsweep/" + label)
        return b
    def emit(integ, label, sets=(), **kw):
        for k in (1, 3):
            r = base(integ, "%s/k=%d" % (label, k))
            r["set"] = list(r["set"]) + [list(x) for x in sets]
            r["k"] = k
            r.update(kw)
            out.append(r)
    for co, ke, cr, c2, sm in itertools.product(sorted(W.WHFAST_COORDINATES), sorted(W.WHFAST_KERNELS), (0, 3, 5, 7, 11, 17), (0, 1), (0, 1)):
        for ku in ((0, 1) if sm == 0 else (0,)):
            emit("whfast", "%s/%s/c%d/c2=%d/sm%d/ku%d" % (co, ke, cr, c2, sm, ku),
                 [["ri_whfast.coordinates", co], ["ri_whfast.kernel", ke], ["ri_whfast.corrector", cr], ["ri_whfast.corrector2", c2],
                  ["ri_whfast.safe_mode", sm], ["ri_whfast.keep_unsynchronized", ku]])
    for ty, sm in itertools.product(sorted(SA.SABA_TYPES), (0, 1)):
        for ku in ((0, 1) if sm == 0 else (0,)):
            emit("saba", "%s/sm%d/ku%d" % (ty, sm, ku), [["ri_saba.type", ty], ["ri_saba.safe_mode", sm], ["ri_saba.keep_unsynchronized", ku]])
    for p0, p1, n, sm in itertools.product(sorted(EO.EOS_TYPES), sorted(EO.EOS_TYPES), (1, 2, 3), (0, 1)):
        emit("eos", "%s/%s/n%d/sm%d" % (p0, p1, n, sm), [["ri_eos.phi0", p0], ["ri_eos.phi1", p1], ["ri_eos.n", n], ["ri_eos.safe_mode", sm]])
    for am, eps, mdt in itertools.product((0, 1, 2, 3), (1e-9, 1e-5, 0.0), (0.0, 1e-3)):
        emit("ias15", "am%d/eps%g/mindt%g" % (am, eps, mdt), [["ri_ias15.adaptive_mode", am], ["ri_ias15.epsilon", eps], ["ri_ias15.min_dt", mdt]])
    for L, sm, rc in itertools.product((None, "mercury", "C4", "C5", "infinity"), (0, 1), (2.0, 3.0, 5.0)):
        emit("mercurius", "L=%s/sm%d/rc%g" % (L, sm, rc), [["ri_mercurius.safe_mode", sm], ["ri_mercurius.r_crit_hill", rc]], mercurius_L=L)
    for pm, sp, rc, eta in itertools.product(sorted(TR.TRACE_PERI_MODES), (None, "default", "none"), (2.0, 4.0), (0.5, 1.0, 2.0)):
        emit("trace", "%s/S_peri=%s/rc%g/eta%g" % (pm, sp, rc, eta),
             [["ri_trace.peri_mode", pm], ["ri_trace.r_crit_hill", rc], ["ri_trace.peri_crit_eta", eta]], trace_S_peri=sp)
    for order, sp, sv in itertools.product((2, 4, 6, 8, 10), (1e-16, 1e-14), (1e-16, 1e-13)):
        emit("janus", "o%d/%g/%g" % (order, sp, sv), [["ri_janus.order", order], ["ri_janus.scale_pos", sp], ["ri_janus.scale_vel", sv]])
    for ea, er, mind, maxd in itertools.product((1e-8, 1e-5, 0.3), (1e-8, 1e-5), (0.0, 1e-4), (0.0, 0.1)):
        emit("bs", "%g/%g/%g/%g" % (ea, er, mind, maxd), [["ri_bs.eps_abs", ea], ["ri_bs.eps_rel", er], ["ri_bs.min_dt", mind], ["ri_bs.max_dt", maxd]])
    for om, omz in itertools.product((0.5, 1.0), (None, 0.7, 3.6)):
        emit("sei", "O%g/Oz%s" % (om, omz), [["ri_sei.OMEGA", om]] + ([["ri_sei.OMEGAZ", omz]] if omz is not None else []))
    # every integrator x every module of the gravity / collision / boundary dicts
    for integ in sorted(S.INTEGRATORS):
        if integ == "whfast512":
            continue
        for g in sorted(S.GRAVITIES):
            emit(integ, "gravity=%s" % g, gravity=g, box=[20.0, 1, 1, 1] if g == "tree" else None)
        for c, res in itertools.product(sorted(S.COLLISIONS), ("merge", "hardsphere", "halt")):
            if c == "none":
                continue
            if integ == "trace" and "tree" in c:
                # library defect outside C05 (heap overflow in reb_simulation_add_local when the tree re-inserts a particle
                # during TRACE's BS step; /tmp/c13_trace_linetree_repro.py, reported): would kill the harness process
                continue
            emit(integ, "collision=%s/%s" % (c, res), collision=c, collision_resolve=res, box=[20.0, 1, 1, 1] if "tree" in c else None)
        for b in sorted(S.BOUNDARIES):
            if b == "none":
                continue
            emit(integ, "boundary=%s" % b, boundary=b, box=[20.0, 1, 1, 1])
    return out


def continuation_histories(ctx, rebound, gen, rng):
    """The histories that C05 uses for 'restored continues bitwise' beyond the generator's own recipes; tools/c17.py uses the
    SAME list for 'copy evolves bitwise identically' (every fixed continuation finding is recorded under both properties)."""
    sweep = option_sweep(rebound, gen, rng)
    # thorough: the whole sweep; quick: a deterministic 1-in-23 sample of it (keeps the code path alive)
    full_sweep = sweep
    sweep = sweep if ctx.thorough else sweep[ctx.seed % 23::23]
    if not ctx.thorough:   # recipes that exposed defects in the thorough tier stay in the quick tier
        sweep = sweep + [r for r in full_sweep if r["integrator"] == "bs" and r.get("collision_resolve") == "merge" and r not in sweep]
    # fixed regression recipes (exact reproducers of findings made by the thorough tier)
    P = [(1.0, 0.0, 0.0, 0.0, 0.0, 0.0, 0.0, 0.001),
         (0.000606748223857011, 1.0, 0.0, 0.0, 0.28351668826104803, 1.0, 0.0, 0.005326149218456729),
         (0.00058431982445882, 1.0269995810945907, 0.0001986509501140561, 0.0, -0.28351668826104803, 1.0, 0.0, 0.005326149218456729),
         (0.0004965384415883654, -1.7, 0.1, 0.02, 0.0, -0.7669649888473704, 0.0, 0.002)]
    for k in (4, 5, 6):
        fx = gen._base(rng, "bs", "fixed/merge-in-step-5/k=%d" % k,
                       particles=[dict(zip(("m", "x", "y", "z", "vx", "vy", "vz", "r"), q)) for q in P], dt=0.01)
        fx["sim"]["rand_seed"] = 1877887275
        fx.update(collision="direct", collision_resolve="merge", k=k)
        sweep.append(fx)
    # directed probe of the recorded open finding continue:tree-rebuilt (exact recipe of known_findings.json): run on every tier
    T = [(1.0, 0.0, 0.0, 0.0, 0.0, 0.0, 0.0, 0.001),
         (0.00070801599340749, 1.0, 0.0, 0.0, 0.2698379299339455, 1.0, 0.0, 0.0051380773852095305),
         (0.0009404479928268736, 1.0216662272996382, 0.0004853672736398278, 0.0, -0.2698379299339455, 1.0, 0.0, 0.0051380773852095305),
         (0.0008358435509438283, -1.7, 0.1, 0.02, 0.0, -0.7669649888473704, 0.0, 0.002)]
    tr = gen._base(rng, "leapfrog", "fixed/linetree-merge-residual/k=2",
                   particles=[dict(zip(("m", "x", "y", "z", "vx", "vy", "vz", "r"), q)) for q in T], dt=0.01)
    tr["sim"]["rand_seed"] = 490150681
    tr.update(collision="linetree", collision_resolve="merge", box=[10.0, 1, 1, 1], k=2)
    sweep.append(tr)
    return sweep


def coq_exempt():
    """the hand-audited exempt list of coq/C05/Exempt.v (single source of truth for 'legitimately not persisted')"""
    s = vlib.strip_comments(open(os.path.join(vlib.COQ, "C05", "Exempt.v")).read())
    body = s.split("Definition exempt")[1].split("].")[0]
    return {m: c for m, c in re.findall(r'\("([^"]+)",\s*(\w+)\)', body)}


def c_member_name(pypath):
    """ctypes path (underscore-prefixed private names, Vec3d leaves) -> C member path"""
    parts = [q.lstrip("_") for q in pypath.split("@")[0].split(".")]
    if parts and parts[-1] in ("x", "y", "z") and len(parts) > 1 and parts[-2] in ("com_pos", "com_vel", "boxsize"):
        parts = parts[:-1]
    return ".".join(parts)


def coq_list(b):
    return "[" + ";".join(str(x) for x in b) + "]"


def run(ctx):
    warnings.simplefilter("ignore")
    libdir = ctx.lib()
    rebound, gen = import_lib(libdir)
    rng = ctx.rng
    ctx.regen("translate_descriptors.py")
    ctx.regen("translate_readsets.py")
    proved = ctx.prove("C05", extra_targets=["C05/Run.vo"])
    ok_enum, det = check_dtype_enum()
    ctx.obligation("regenerate:dtype enum values as assumed by the harness", ok_enum, det)
    try:
        bad = compare_tables(rebound, gen)
    except Exception as e:
        bad = ["exception %r" % (e,)]
    ctx.obligation("correspondence:generated descriptor table == reb_binary_field_descriptor_list of the compiled library "
                   "(id, dtype, name, offset, offset_N, element_size)", not bad, "; ".join(bad[:5]))

    # ------------------------------------------------------------------ states
    nrec = ctx.scale(500, 3000)
    recipes = gen.recipes(rng, nrec, thorough=ctx.thorough)
    n_base = len(recipes)
    sweep = continuation_histories(ctx, rebound, gen, rng)
    ctx.extra["option_sweep_recipes"] = len(sweep)
    ncorr = ctx.scale(84, 400)
    b0 = gen.save_bytes(rebound, rebound.Simulation())
    cases = []
    dist = {}
    for i, rec in enumerate(recipes):
        lab = rec.get("label", rec.get("integrator", "?"))
        dist[str(rec.get("integrator", lab))] = dist.get(str(rec.get("integrator", lab)), 0) + 1
    # correspondence cases: spread over the recipe list (which is ordered round-robin over integrators)
    step = max(1, len(recipes) // ncorr)
    for rec in recipes[::step][:ncorr]:
        try:
            sim = gen.build(rebound, rec)
            b = gen.save_bytes(rebound, sim)
            if len(b) > 40000:
                continue
            b2 = gen.save_bytes(rebound, gen.load_bytes(rebound, b))
            cases.append((rec, b, b2))
        except Exception as e:
            ctx.obligation("generator:recipe builds", False, "%r on %s" % (e, json.dumps(rec)[:300]))
    jobs = []
    chunk = 3
    for c0 in range(0, len(cases), chunk):
        body = ("From Coq Require Import NArith List.\nFrom RV Require Import C05.Model C05.Run.\nImport ListNotations.\n"
                "Open Scope N_scope.\nDefinition b0 : list N := %s.\n" % coq_list(b0))
        terms = []
        for j, (rec, b, b2) in enumerate(cases[c0:c0 + chunk]):
            body += "Definition s%d : list N := %s.\nDefinition r%d : list N := %s.\n" % (j, coq_list(b), j, coq_list(b2))
            terms.append("corr b0 s%d r%d" % (j, j))
        body += "Eval vm_compute in (bad_idx [%s]).\n" % "; ".join(terms)
        jobs.append(("c05_%d" % (c0 // chunk), body))
    bad_cases = []
    corr_ok = True
    for (name, ok, out), c0 in zip(vlib.coq_eval_many(jobs, timeout=600), range(0, len(cases), chunk)):
        bad = vlib.parse_coq_list_nat(out) if ok else None
        if bad is None:
            corr_ok = False
            ctx.obligation("correspondence:C05:" + name, False, out[-1500:])
        else:
            bad_cases += [c0 + k for k in bad]
    for rec, b, b2 in cases:
        ctx.case(key=("corr", rec.get("label", ""), len(b)), sample={"recipe": rec, "stream_bytes": len(b)} if len(ctx.samples) < 3 else None)
    ctx.traces = len(cases) if corr_ok else 0
    ctx.obligation("correspondence:C05 Coq decode/encode == library bytes, Coq writer(Coq reader(bytes)) == library save(load(bytes)) "
                   "(pointer members masked) on %d library streams" % len(cases),
                   corr_ok and not bad_cases and len(cases) >= min(10, ncorr),
                   "mismatching recipes: %s" % [json.dumps(cases[k][0])[:200] for k in bad_cases[:4]])

    # ------------------------------------------------------------------ Simulationarchive delta snapshots
    import c05_archive
    hists = c05_archive.histories(rebound, rng, thorough=ctx.thorough)
    arch_fails, dcases = [], []
    for h in hists:
        try:
            f, c = c05_archive.run_history(rebound, gen, h, want_streams=True)
        except Exception as e:
            f, c = [{"key": "archive:exception", "history": h["label"], "detail": repr(e)}], []
        arch_fails += f
        dcases += c
        ctx.case(key=("archive", h["label"]))
    # model vs library on the delta blobs: prefer snapshots whose delta contains a vanished (size 0) field
    def has_vanished(dl):
        pos = 0
        import struct as _st
        while pos + 16 <= len(dl):
            t, _, n = _st.unpack_from("<I4sQ", dl, pos)
            if t == 9999:
                return False
            if n == 0:
                return True
            pos += 16 + n
        return False
    dcases = [c for c in dcases if len(c[0]) < 30000]
    van = [c for c in dcases if has_vanished(c[1])]
    oth = [c for c in dcases if not has_vanished(c[1])]
    ndl = ctx.scale(24, 150)
    dsel = van[:ndl * 2 // 3] + oth[:: max(1, len(oth) // max(1, ndl // 3))][:ndl // 3]
    djobs = []
    for c0 in range(0, len(dsel), 3):
        body = ("From Coq Require Import NArith List.\nFrom RV Require Import C05.Model C05.Run.\nImport ListNotations.\n"
                "Open Scope N_scope.\nDefinition b0 : list N := %s.\n" % coq_list(b0))
        terms = []
        for j, (s0, dl, rest_b, live_b, tag) in enumerate(dsel[c0:c0 + 3]):
            body += "Definition s%d : list N := %s.\nDefinition d%d : list N := %s.\nDefinition r%d : list N := %s.\n" % (
                j, coq_list(s0), j, coq_list(dl), j, coq_list(rest_b))
            terms.append("delta_corr b0 s%d d%d r%d" % (j, j, j))
        body += "Eval vm_compute in (bad_idx [%s]).\n" % "; ".join(terms)
        djobs.append(("c05_delta_%d" % (c0 // 3), body))
    dbad, dok = [], True
    for (name, ok, out), c0 in zip(vlib.coq_eval_many(djobs, timeout=600), range(0, len(dsel), 3)):
        bad = vlib.parse_coq_list_nat(out) if ok else None
        if bad is None:
            dok = False
            ctx.obligation("correspondence:C05:" + name, False, out[-1500:])
        else:
            dbad += [c0 + k for k in bad]
    ctx.traces += len(dsel) if dok else 0
    ctx.obligation("correspondence:C05 Coq reader(snapshot 0) ; Coq reader(delta blob) ; Coq writer == library save(restored snapshot k) on %d "
                   "Simulationarchive snapshots (%d of them with vanished = size-0 array fields)" % (len(dsel), len([c for c in dsel if has_vanished(c[1])])),
                   dok and not dbad and len([c for c in dsel if has_vanished(c[1])]) >= 5,
                   "mismatching snapshots: %s" % [dsel[k][4] for k in dbad[:5]])
    ctx.extra["archive_histories"] = {"histories": len(hists), "snapshots": len(dcases), "with_vanished_fields": len(van)}
    # ------------------------------------------------------------------ edge-of-domain states (N = 0, 1, 2; degenerate values; limits; after errors)
    import c05_edges
    est = c05_edges.states(rebound)
    edge_fails, edge_streams, edge_ran = [], [], 0
    for lab, mk, ra, cs in est:
        try:
            ran, f, b = c05_edges.check_state(rebound, gen, lab, mk, ra, cs)
        except Exception as e:
            ran, f, b = True, [{"key": "edge:exception", "state": lab, "detail": repr(e)}], None
        edge_ran += bool(ran)
        edge_fails += f
        if b is not None and len(b) < 30000:
            edge_streams.append((lab, b))
        ctx.case(key=("edge", lab))
    ctx.obligation("oracle:edge-of-domain states ran (>= 90%% of %d)" % len(est), edge_ran * 10 >= len(est) * 9, "%d of %d" % (edge_ran, len(est)))
    # a sample of the edge streams through the Coq codec / reader / writer (always the N = 0 streams, NaN and integer-limit states)
    pick = [e for e in edge_streams if e[0].startswith("N=0/") or "nan" in e[0] or e[0].startswith("limit/") or "subnormal" in e[0] or "-0.0" in e[0]]
    pick = pick[:: max(1, len(pick) // ctx.scale(15, 60))]
    ejobs = []
    for c0 in range(0, len(pick), 3):
        body = ("From Coq Require Import NArith List.\nFrom RV Require Import C05.Model C05.Run.\nImport ListNotations.\n"
                "Open Scope N_scope.\nDefinition b0 : list N := %s.\n" % coq_list(b0))
        terms = []
        for j, (lab, b) in enumerate(pick[c0:c0 + 3]):
            rb = gen.save_bytes(rebound, gen.load_bytes(rebound, b))
            body += "Definition s%d : list N := %s.\nDefinition r%d : list N := %s.\n" % (j, coq_list(b), j, coq_list(rb))
            terms.append("corr b0 s%d r%d" % (j, j))
        body += "Eval vm_compute in (bad_idx [%s]).\n" % "; ".join(terms)
        ejobs.append(("c05_edge_%d" % (c0 // 3), body))
    ebad, eok = [], True
    for (name, ok, out), c0 in zip(vlib.coq_eval_many(ejobs, timeout=600), range(0, len(pick), 3)):
        bad = vlib.parse_coq_list_nat(out) if ok else None
        if bad is None:
            eok = False
            ctx.obligation("correspondence:C05:" + name, False, out[-1500:])
        else:
            ebad += [c0 + k for k in bad]
    ctx.traces += len(pick) if eok else 0
    ctx.obligation("correspondence:C05 Coq codec/reader/writer == library on %d edge-of-domain streams (N = 0, NaN, -0.0, subnormal, integer limits)" % len(pick),
                   eok and not ebad and len(pick) >= 8, "mismatching: %s" % [pick[k][0] for k in ebad[:6]])
    ctx.extra["edge_states"] = {"states": len(est), "ran": edge_ran}
    # ------------------------------------------------------------------ library-only oracles
    t0 = time.time()
    fails = []
    skipped_recipes = []
    for rec in recipes + sweep:
        try:
            f = gen.continuation_oracle(rebound, rec, ks=(1, 7, 50))
        except Exception as e:
            # a recipe whose plain, never-saved run raises the same error (e.g. a particle leaves the tree box within
            # the 58 continuation steps) says nothing about save/restore: skip it, count it
            try:
                plain = gen.build(rebound, rec)
                for k in (1, 7, 50):
                    gen.steps(plain, k)
                plain_err = None
            except Exception as e2:
                plain_err = repr(e2)
            if plain_err == repr(e):
                skipped_recipes.append((rec.get("id"), plain_err))
                f = []
            else:
                f = [{"recipe": rec, "stage": "exception", "detail": repr(e), "plain_run": plain_err, "key": "exception:continuation"}]
        ctx.case(key=("cont", rec.get("label", ""), json.dumps(rec, sort_keys=True)[:80]))
        fails += f
    nmut, mfails, skipped = gen.mutation_oracle(rebound, rng)
    ctx.evaluations += nmut
    for i in range(nmut):
        ctx.nontrivial.add(("mut", i))
    ctx.log("oracles: %d recipes + %d option-sweep recipes, %d members mutated, %.1fs" % (len(recipes), len(sweep), nmut, time.time() - t0))
    exempt = coq_exempt()
    kept = []
    for f in mfails:
        # a member that is merely not restored is a failure only if it is not in the audited exempt list;
        # behavioural divergences are never filtered
        if f.get("kind") == "lost" and c_member_name(f.get("member", "")) in exempt:
            continue
        kept.append(f)
    mfails = kept
    # "twin" = never-saved twin vs saved original (does saving perturb the original?): informative, not part of C05's text
    twins = sorted({f.get("key", "") for f in fails if str(f.get("key", "")).startswith("twin:")})
    ctx.extra["saving_changes_original_evolution"] = twins
    fails = [f for f in fails if not str(f.get("key", "")).startswith("twin:")]
    for f in fails:
        # one root cause, one key: with a tree (gravity tree / collision tree, linetree) the reader rebuilds the tree from
        # scratch while the original's tree was updated incrementally; reb_tree_update then reorders the particle array
        # differently, so every later persisted array differs
        rec = f.get("recipe") or {}
        if f.get("stage") == "continue" and f.get("detail") in ("restored", "copy") and \
                (rec.get("gravity") == "tree" or rec.get("collision") in ("tree", "linetree")):
            f["key"] = "continue:tree-rebuilt"
    for f in fails:
        # residual of the BS restart defect fixed in 78f405f: if N changed in the LAST step before the save point (merge,
        # open boundary), the original recreates its ODE at the next step and resets first_or_last_step to 1, whereas the
        # restored simulation allocates a fresh ODE and keeps the persisted 0
        rec = f.get("recipe") or {}
        if f.get("key") == "continue:bs:first_or_last_step" and (rec.get("collision_resolve") == "merge" or rec.get("boundary") == "open"
                                                                 or any(op.get("op") in ("add", "remove") for op in rec.get("after", []))):
            f["key"] = "continue:bs:N_changed_before_save"
    seen = set()
    for f in fails + mfails + arch_fails + edge_fails:
        key = f.get("key") or ("%s:%s" % (f.get("stage", "lost"), ",".join(f.get("fields", [])[:3]) or f.get("member", "")))
        if key in seen:
            continue
        seen.add(key)
        ctx.violation(key, f, True, "C05 oracle failure on the real library: %s" % key)
    ctx.extra["input_distribution"] = dist
    ctx.extra["recipes_skipped_because_plain_run_raises"] = skipped_recipes[:20]
    base_ids = {r.get("id") for r in recipes}
    nskip_base = len([1 for i, _ in skipped_recipes if i in base_ids])
    ctx.extra["option_sweep_skipped_invalid_combinations"] = len(skipped_recipes) - nskip_base
    ctx.obligation("oracle:continuation ran on >= 90% of the generator's recipes and on >= 40% of the option sweep "
                   "(the rest are combinations the library itself rejects)",
                   nskip_base * 10 <= n_base and (len(skipped_recipes) - nskip_base) * 10 <= 6 * max(1, len(sweep)), str(skipped_recipes[:5]))
    ctx.extra["mutation_oracle"] = {"members_checked": nmut, "skipped": skipped[:40]}
    ctx.rule = ("recipes from tools/c05_gen.py: deterministic sweep (every integrator x each option at a non-default value, gravity / "
                "collision / boundary modules, variational particles, MEGNO, test particles, save points after 0..13 steps incl. "
                "unsynchronised states) followed by random combinations; a case is distinct by its recipe")
    ctx.assumptions += [
        "callbacks are re-attached by the harness after load/copy (property hypothesis); REBOUNDx 'ap', MPI, OpenGL not covered",
        "whfast512 is compiled without AVX512 in this sandbox: its fields are persisted and compared, its step is not exercised",
        "the global composition 'reader(writer s) has the same persisted view as s' is proved per descriptor (C05_field_roundtrip) and "
        "its frame conditions are checked by computation (C05_table_ok); the composition itself is validated by the correspondence, not proved",
        "streams whose sizes disagree with the dtype size (foreign / corrupted files) are outside the model",
    ]


def replay(ctx, rep):
    warnings.simplefilter("ignore")
    libdir = ctx.lib()
    rebound, gen = import_lib(libdir)
    r = rep.get("replay", rep)
    if "recipe" in r:
        out = gen.continuation_oracle(rebound, r["recipe"], ks=(1, 7, 50))
        print(json.dumps(out, indent=1, default=str)[:4000])
        return 1 if out else 0
    print(json.dumps(r, indent=1, default=str)[:4000])
    return 0
