"""C05 — a saved simulation restores bit-for-bit and continues bit-for-bit.

1. regeneration: tools/translate_descriptors.py rebuilds coq/Gen/Descriptors.v (descriptor table, struct members,
   framing constants, diff member lists) from the CURRENT tree; the generated table is additionally compared
   with the table of the compiled library (reb_binary_field_descriptor_list read through ctypes);
2. proof obligations: coq/C05 (framing inverse for all field lists, per-descriptor write/read/write round trip for
   every dtype class, pointer fix-up invisible under the mask, table_ok / sizes_agree / persisted_complete of the
   regenerated table by computation);
3. correspondence: for states built through the rebound API, the bytes of reb_simulation_save_to_stream are
   decoded by the Coq reader, re-encoded by the Coq writer (must be byte-identical), applied to a fresh state and
   written again by the Coq writer: must equal (pointer members masked) the library's save(load(bytes));
4. library-only oracles (always run; they produce the concrete failing input): continuation oracle
   (original vs restored vs copy advanced 1,7,50 steps, all persisted fields bitwise), per-member mutation oracle.
"""
import json, os, re, sys, time, warnings
import vlib

DT_ENUM = {0: "DDouble", 1: "DInt", 2: "DUInt", 3: "DU32", 4: "DI64", 5: "DU64", 7: "DVec3", 8: "DParticle", 9: "DPointer",
           10: "DPointerAligned", 11: "DDp7", 12: "DOther", 13: "DEnd", 15: "DParticle4", 16: "DPointerFixed"}


def import_lib(libdir):
    if libdir not in sys.path:
        sys.path.insert(0, libdir)
    tools = os.path.dirname(os.path.abspath(__file__))
    if tools not in sys.path:
        sys.path.insert(0, tools)
    import rebound
    import c05_gen
    return rebound, c05_gen


def gen_table():
    s = open(os.path.join(vlib.COQ, "Gen", "Descriptors.v")).read()
    rows = [(int(a), b, c, d, e, int(f)) for a, b, c, d, e, f in
            re.findall(r'mkdesc (\d+) (\w+) "([^"]*)" "([^"]*)" "([^"]*)" (\d+)', s)]
    sim = s.split("Definition sim_members")[1].split("].")[0]
    members = {p: (int(off), k, int(sz)) for p, off, k, sz, _ in re.findall(r'mkmember "([^"]*)" (\d+) (\w+) (\d+) "([^"]*)"', sim)}
    return rows, members


def check_dtype_enum():
    src = open(os.path.join(vlib.REPO, "src", "rebound.h")).read()
    m = re.search(r"struct reb_binary_field_descriptor\s*\{.*?enum\s*\{(.*?)\}\s*dtype;", src, re.S)
    if not m:
        return False, "dtype enum not found"
    body = re.sub(r"//[^\n]*", "", m.group(1))
    got = {}
    for name, val in re.findall(r"(REB_\w+)\s*=\s*(\d+)", body):
        got[int(val)] = name
    want = {0: "REB_DOUBLE", 1: "REB_INT", 2: "REB_UINT", 3: "REB_UINT32", 4: "REB_INT64", 5: "REB_UINT64", 7: "REB_VEC3D",
            8: "REB_PARTICLE", 9: "REB_POINTER", 10: "REB_POINTER_ALIGNED", 11: "REB_DP7", 12: "REB_OTHER", 13: "REB_FIELD_END",
            14: "REB_FIELD_NOT_FOUND", 15: "REB_PARTICLE4", 16: "REB_POINTER_FIXED_SIZE"}
    return got == want, "enum reb_binary_field_dtype = %s" % got


def compare_tables(rebound, gen):
    """generated table (source text) vs the table compiled into the library."""
    rows, members = gen_table()
    lib = gen.descriptors(rebound)
    bad = []
    if len(rows) != len(lib):
        bad.append("row count %d vs %d" % (len(rows), len(lib)))
    for r, l in zip(rows, lib):
        fid, dt, name, member, count, esz = r
        exp_off = members[member][0] if member else 0
        exp_offn = members[count][0] if count else 0
        if (fid, dt, name, exp_off, exp_offn, esz) != (l["id"], DT_ENUM.get(l["dtype"], "?"), l["name"], l["offset"], l["offset_N"], l["element_size"]):
            bad.append("row %r vs library %r" % (r, l))
    return bad


def coq_exempt():
    """the hand-audited exempt list of coq/C05/Exempt.v (single source of truth for 'legitimately not persisted')"""
    s = vlib.strip_comments(open(os.path.join(vlib.COQ, "C05", "Exempt.v")).read())
    body = s.split("Definition exempt")[1].split("].")[0]
    return {m: c for m, c in re.findall(r'\("([^"]+)",\s*(\w+)\)', body)}


def c_member_name(pypath):
    """ctypes path (underscore-prefixed private names, Vec3d leaves) -> C member path"""
    parts = [q.lstrip("_") for q in pypath.split("@")[0].split(".")]
    if parts and parts[-1] in ("x", "y", "z") and len(parts) > 1 and parts[-2] in ("com_pos", "com_vel", "boxsize"):
        parts = parts[:-1]
    return ".".join(parts)


def coq_list(b):
    return "[" + ";".join(str(x) for x in b) + "]"


def run(ctx):
    warnings.simplefilter("ignore")
    libdir = ctx.lib()
    rebound, gen = import_lib(libdir)
    rng = ctx.rng
    ctx.regen("translate_descriptors.py")
    proved = ctx.prove("C05", extra_targets=["C05/Run.vo"])
    ok_enum, det = check_dtype_enum()
    ctx.obligation("regenerate:dtype enum values as assumed by the harness", ok_enum, det)
    try:
        bad = compare_tables(rebound, gen)
    except Exception as e:
        bad = ["exception %r" % (e,)]
    ctx.obligation("correspondence:generated descriptor table == reb_binary_field_descriptor_list of the compiled library "
                   "(id, dtype, name, offset, offset_N, element_size)", not bad, "; ".join(bad[:5]))

    # ------------------------------------------------------------------ states
    nrec = ctx.scale(500, 3000)
    recipes = gen.recipes(rng, nrec, thorough=ctx.thorough)
    ncorr = ctx.scale(84, 400)
    b0 = gen.save_bytes(rebound, rebound.Simulation())
    cases = []
    dist = {}
    for i, rec in enumerate(recipes):
        lab = rec.get("label", rec.get("integrator", "?"))
        dist[str(rec.get("integrator", lab))] = dist.get(str(rec.get("integrator", lab)), 0) + 1
    # correspondence cases: spread over the recipe list (which is ordered round-robin over integrators)
    step = max(1, len(recipes) // ncorr)
    for rec in recipes[::step][:ncorr]:
        try:
            sim = gen.build(rebound, rec)
            b = gen.save_bytes(rebound, sim)
            if len(b) > 40000:
                continue
            b2 = gen.save_bytes(rebound, gen.load_bytes(rebound, b))
            cases.append((rec, b, b2))
        except Exception as e:
            ctx.obligation("generator:recipe builds", False, "%r on %s" % (e, json.dumps(rec)[:300]))
    jobs = []
    chunk = 3
    for c0 in range(0, len(cases), chunk):
        body = ("From Coq Require Import NArith List.\nFrom RV Require Import C05.Model C05.Run.\nImport ListNotations.\n"
                "Open Scope N_scope.\nDefinition b0 : list N := %s.\n" % coq_list(b0))
        terms = []
        for j, (rec, b, b2) in enumerate(cases[c0:c0 + chunk]):
            body += "Definition s%d : list N := %s.\nDefinition r%d : list N := %s.\n" % (j, coq_list(b), j, coq_list(b2))
            terms.append("corr b0 s%d r%d" % (j, j))
        body += "Eval vm_compute in (bad_idx [%s]).\n" % "; ".join(terms)
        jobs.append(("c05_%d" % (c0 // chunk), body))
    bad_cases = []
    corr_ok = True
    for (name, ok, out), c0 in zip(vlib.coq_eval_many(jobs, timeout=600), range(0, len(cases), chunk)):
        bad = vlib.parse_coq_list_nat(out) if ok else None
        if bad is None:
            corr_ok = False
            ctx.obligation("correspondence:C05:" + name, False, out[-1500:])
        else:
            bad_cases += [c0 + k for k in bad]
    for rec, b, b2 in cases:
        ctx.case(key=("corr", rec.get("label", ""), len(b)), sample={"recipe": rec, "stream_bytes": len(b)} if len(ctx.samples) < 3 else None)
    ctx.traces = len(cases) if corr_ok else 0
    ctx.obligation("correspondence:C05 Coq decode/encode == library bytes, Coq writer(Coq reader(bytes)) == library save(load(bytes)) "
                   "(pointer members masked) on %d library streams" % len(cases),
                   corr_ok and not bad_cases and len(cases) >= min(10, ncorr),
                   "mismatching recipes: %s" % [json.dumps(cases[k][0])[:200] for k in bad_cases[:4]])

    # ------------------------------------------------------------------ library-only oracles
    t0 = time.time()
    fails = []
    skipped_recipes = []
    for rec in recipes:
        try:
            f = gen.continuation_oracle(rebound, rec, ks=(1, 7, 50))
        except Exception as e:
            # a recipe whose plain, never-saved run raises the same error (e.g. a particle leaves the tree box within
            # the 58 continuation steps) says nothing about save/restore: skip it, count it
            try:
                plain = gen.build(rebound, rec)
                for k in (1, 7, 50):
                    gen.steps(plain, k)
                plain_err = None
            except Exception as e2:
                plain_err = repr(e2)
            if plain_err == repr(e):
                skipped_recipes.append((rec.get("id"), plain_err))
                f = []
            else:
                f = [{"recipe": rec, "stage": "exception", "detail": repr(e), "plain_run": plain_err, "key": "exception:continuation"}]
        ctx.case(key=("cont", rec.get("label", ""), json.dumps(rec, sort_keys=True)[:80]))
        fails += f
    nmut, mfails, skipped = gen.mutation_oracle(rebound, rng)
    ctx.evaluations += nmut
    for i in range(nmut):
        ctx.nontrivial.add(("mut", i))
    ctx.log("oracles: %d recipes, %d members mutated, %.1fs" % (len(recipes), nmut, time.time() - t0))
    exempt = coq_exempt()
    kept = []
    for f in mfails:
        # a member that is merely not restored is a failure only if it is not in the audited exempt list;
        # behavioural divergences are never filtered
        if f.get("kind") == "lost" and c_member_name(f.get("member", "")) in exempt:
            continue
        kept.append(f)
    mfails = kept
    # "twin" = never-saved twin vs saved original (does saving perturb the original?): informative, not part of C05's text
    twins = sorted({f.get("key", "") for f in fails if str(f.get("key", "")).startswith("twin:")})
    ctx.extra["saving_changes_original_evolution"] = twins
    fails = [f for f in fails if not str(f.get("key", "")).startswith("twin:")]
    for f in fails:
        # one root cause, one key: with a tree (gravity tree / collision tree, linetree) the reader rebuilds the tree from
        # scratch while the original's tree was updated incrementally; reb_tree_update then reorders the particle array
        # differently, so every later persisted array differs
        rec = f.get("recipe") or {}
        if f.get("stage") == "continue" and f.get("detail") in ("restored", "copy") and \
                (rec.get("gravity") == "tree" or rec.get("collision") in ("tree", "linetree")):
            f["key"] = "continue:tree-rebuilt"
    seen = set()
    for f in fails + mfails:
        key = f.get("key") or ("%s:%s" % (f.get("stage", "lost"), ",".join(f.get("fields", [])[:3]) or f.get("member", "")))
        if key in seen:
            continue
        seen.add(key)
        ctx.violation(key, f, True, "C05 oracle failure on the real library: %s" % key)
    ctx.extra["input_distribution"] = dist
    ctx.extra["recipes_skipped_because_plain_run_raises"] = skipped_recipes[:20]
    ctx.obligation("oracle:continuation ran on >= 90% of the recipes", len(skipped_recipes) * 10 <= len(recipes), str(skipped_recipes[:5]))
    ctx.extra["mutation_oracle"] = {"members_checked": nmut, "skipped": skipped[:40]}
    ctx.rule = ("recipes from tools/c05_gen.py: deterministic sweep (every integrator x each option at a non-default value, gravity / "
                "collision / boundary modules, variational particles, MEGNO, test particles, save points after 0..13 steps incl. "
                "unsynchronised states) followed by random combinations; a case is distinct by its recipe")
    ctx.assumptions += [
        "callbacks are re-attached by the harness after load/copy (property hypothesis); REBOUNDx 'ap', MPI, OpenGL not covered",
        "whfast512 is compiled without AVX512 in this sandbox: its fields are persisted and compared, its step is not exercised",
        "the global composition 'reader(writer s) has the same persisted view as s' is proved per descriptor (C05_field_roundtrip) and "
        "its frame conditions are checked by computation (C05_table_ok); the composition itself is validated by the correspondence, not proved",
        "streams whose sizes disagree with the dtype size (foreign / corrupted files) are outside the model",
    ]


def replay(ctx, rep):
    warnings.simplefilter("ignore")
    libdir = ctx.lib()
    rebound, gen = import_lib(libdir)
    r = rep.get("replay", rep)
    if "recipe" in r:
        out = gen.continuation_oracle(rebound, r["recipe"], ks=(1, 7, 50))
        print(json.dumps(out, indent=1, default=str)[:4000])
        return 1 if out else 0
    print(json.dumps(r, indent=1, default=str)[:4000])
    return 0
