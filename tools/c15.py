"""C15 — boundary conditions and the spatial tree keep every particle accounted for.

1. proof obligations: coq/C15 (boundary wrap / shear / open removal over R and lists; functional PR-octree:
   insertion preserves well-formedness and adds exactly the new particle, every particle once, gravity data = sums,
   root-box lemma + refuted closed upper border; soundness of the executable dump checker wf_b).
2. correspondence (model vs library built from the current tree):
   * boundary model at binary64 vs reb_boundary_check (periodic, shear, open removal order) bit for bit, inputs =
     unwrapped positions of a twin simulation without boundaries;
   * dumps of the library's tree (ctypes walk of tree_root) vs the exact Coq tree model built by inserting the same
     particles into an empty tree (shape, counts, leaf indices) + the proved-sound checker wf_b evaluated in Coq on
     the dump; the Python transcription of the checker is cross-checked against Coq on real and corrupted dumps;
   * gravity data model at binary64 vs the dumped m, mx, my, mz of every cell bit for bit.
3. library-only searcher (always run, child processes): long histories with all boundary types, root layouts,
   gravity/collision trees, removals, merges, re-insertions, several boxes per step: checker on every dump, model
   shape comparison (binary64 replay), conservation by particle id, in-box, whole-box-length displacement against a
   twin simulation, shear vy shift, open-boundary oracle, tree gravity (opening angle 0) = direct sum, tree
   collision search = brute force."""
import ctypes, json, math, os, subprocess, sys, copy
from concurrent.futures import ThreadPoolExecutor
from fractions import Fraction as F
import vlib
import c15_lib as L

DRIVER = os.path.join(os.path.dirname(os.path.abspath(__file__)), "c15_driver.py")


def run_driver(libdir, spec, timeout=300):
    try:
        r = subprocess.run([vlib.PY, DRIVER], input=json.dumps(spec), env=vlib.pyenv(libdir), capture_output=True, text=True, timeout=timeout)
    except subprocess.TimeoutExpired:
        return {"fail": {"key": "hang", "what": "history did not finish within %ds (endless loop in the library?)" % timeout}, "dumps": [], "bcases": [], "stats": {}}
    if "C15RESULT " not in r.stdout:
        return {"fail": {"key": "crash", "what": "driver died with status %d: %s" % (r.returncode, (r.stderr or r.stdout)[-400:])}, "dumps": [], "bcases": [], "stats": {}}
    return json.loads(r.stdout.split("C15RESULT ", 1)[1])


# ----------------------------------------------------------------------------------- spec generation
FRIENDLY_RS = [1.0, 2.0, 0.5, 3.0, 0.75, 10.0, 100.0, 1.5, 0.125, 6.0]
ROUGH_RS = [0.3, 0.7, 1.1, 10.1, 3.3, 0.007, 123.456]
LAYOUTS = [(1, 1, 1), (2, 1, 1), (1, 2, 1), (2, 2, 1), (3, 2, 1), (2, 2, 2), (3, 1, 1), (1, 1, 2)]


def gen_tree_spec(rng, k):
    friendly = rng.random() < 0.65
    rs = rng.choice(FRIENDLY_RS if friendly else ROUGH_RS)
    n = list(LAYOUTS[k % len(LAYOUTS)]) if rng.random() < 0.7 else list(rng.choice(LAYOUTS))
    boundary = ["periodic", "periodic", "shear", "open", "periodic", "open", "shear", "none"][k % 8]
    mode = ["grav", "coll_record", "both_merge", "grav", "coll_merge", "coll_record", "grav", "both_record"][(k // 2) % 8]
    spec = {"kind": "tree", "rs": rs, "n": n, "boundary": boundary, "seed": rng.randrange(1 << 30),
            "N": rng.choice([5, 12, 20, 30, 40, 55]), "steps": rng.choice([15, 25, 35]),
            "dt": 0.05, "p_remove": rng.choice([0.0, 0.2, 0.4]), "p_add": rng.choice([0.0, 0.2, 0.4]),
            "explicit_update": rng.random() < 0.6, "maxdumps": 2}
    # speed: up to several boxes per step
    boxes_per_step = rng.choice([0.05, 0.3, 1.0, 3.0])
    spec["vel"] = boxes_per_step * rs * max(n) / spec["dt"] / 2.0
    if boundary in ("open", "none"):
        spec["vel"] = min(spec["vel"], 0.2 * rs / spec["dt"])
    spec["gravity"] = "tree" if mode in ("grav", "both_merge", "both_record") else "none"
    spec["collision"] = "tree" if mode != "grav" else "none"
    if spec["collision"] == "tree":
        spec["collision_resolve"] = "merge" if mode.endswith("merge") else "record"
        spec["radius"] = rs * rng.choice([0.02, 0.06, 0.12])
        spec["vel"] = min(spec["vel"], 2.0 * rs / spec["dt"])
    if spec["gravity"] == "tree":
        spec["softening"] = 0.05 * rs
        spec["theta2"] = rng.choice([0.0, 0.25])
        spec["mscale"] = 1e-3 * rs ** 3
    if boundary == "shear":
        spec["omega"] = rng.choice([1.0, 0.37, 2.5])
    if boundary == "open" and rng.random() < 0.5:
        spec["gravity"] = "none"     # exact removal oracle needs force-free motion
        spec.pop("theta2", None)
        if spec["collision"] != "tree":
            spec["collision"] = "tree"; spec["collision_resolve"] = "record"; spec["radius"] = 0.0
    return spec


def gen_boundary_spec(rng, k):
    rs = rng.choice(FRIENDLY_RS + ROUGH_RS)
    n = list(rng.choice(LAYOUTS))
    boundary = ["periodic", "shear", "open"][k % 3]
    spec = {"kind": "boundary", "rs": rs, "n": n, "boundary": boundary, "seed": rng.randrange(1 << 30), "N": rng.choice([1, 3, 10, 25]),
            "steps": 8, "dt": 0.1, "maxcases": 3}
    spec["vel"] = rng.choice([0.2, 1.0, 3.0, 8.0]) * rs * max(n) / spec["dt"] / 2.0
    if boundary == "open":
        spec["vel"] = rng.choice([0.05, 0.2, 0.5]) * rs / spec["dt"]
        spec["N"] = rng.choice([2, 6, 20, 40])
        if rng.random() < 0.4:
            spec["N_active"] = rng.randrange(0, spec["N"] + 1)
    if boundary == "shear":
        spec["omega"] = rng.choice([1.0, 0.37, 2.5])
    return spec


def gen_restore_spec(rng, k):
    """every tree-using configuration x restore method x boundary x 1..3 root boxes"""
    modes = [("tree", "none"), ("none", "tree"), ("none", "linetree"), ("tree", "tree"), ("tree", "linetree"), ("basic", "linetree"), ("basic", "tree")]
    g, c = modes[k % len(modes)]
    method = ["copy", "file", "archive", "pickle"][(k // len(modes)) % 4]
    boundary = ["periodic", "open", "shear"][(k // 3) % 3] if k % 5 else rng.choice(["periodic", "open", "shear"])
    n = list(rng.choice([(1, 1, 1), (2, 1, 1), (1, 2, 1), (3, 1, 1), (2, 1, 1)]))
    rs = rng.choice(FRIENDLY_RS + ROUGH_RS)
    spec = {"kind": "restore", "rs": rs, "n": n, "boundary": boundary, "gravity": g, "collision": c, "method": method, "seed": rng.randrange(1 << 30),
            "N": rng.choice([3, 10, 25, 40]), "steps_before": rng.choice([0, 1, 4]), "steps_after": rng.choice([2, 5]), "dt": 0.05}
    spec["vel"] = rng.choice([0.05, 0.5, 1.5]) * rs / spec["dt"]
    if boundary == "open":
        spec["vel"] = min(spec["vel"], 0.1 * rs / spec["dt"])
    if c != "none":
        spec["radius"] = rs * rng.choice([0.03, 0.08])
    if g != "none":
        spec["softening"] = 0.05 * rs; spec["mscale"] = 1e-3 * rs ** 3
    if boundary == "shear":
        spec["omega"] = rng.choice([1.0, 0.37])
    return spec


def gen_ops_spec(rng, k):
    modes = [("tree", "none"), ("none", "tree"), ("none", "linetree"), ("tree", "tree"), ("basic", "tree"), ("tree", "linetree")]
    g, c = modes[k % len(modes)]
    boundary = ["periodic", "shear", "periodic", "open"][(k // 2) % 4]
    n = list(rng.choice([(1, 1, 1), (2, 1, 1), (1, 2, 1), (3, 1, 1), (2, 2, 1)]))
    rs = rng.choice(FRIENDLY_RS + ROUGH_RS)
    # move_to_hel is exercised by dedicated corner histories only: it puts the primary EXACTLY on the origin (a corner of every
    # cell on its path) while all leaves are stale, which deterministically triggers the open finding
    # tree:reinsert_on_cell_corner_unbounded_recursion (and, for root sizes with rounded centres, tree:cell_centre_rounding)
    ops = ["move_to_com", "move_to_com", "rotate", "iadd", "isub", "imul", "multiply", "edit"]
    spec = {"kind": "ops", "rs": rs, "n": n, "boundary": boundary, "gravity": g, "collision": c, "seed": rng.randrange(1 << 30),
            "N": rng.choice([3, 7, 15, 30]), "nops": rng.choice([3, 6]), "dt": 0.02, "ops": ops}
    spec["vel"] = rng.choice([0.0, 0.3, 2.0]) * rs / spec["dt"] * 0.1
    if k % 7 == 3:
        spec["units"] = True; spec["ops"] = ops + ["units", "units"]
    if c != "none":
        spec["radius"] = rs * 0.02
    if g != "none":
        spec["softening"] = 0.05 * rs; spec["mscale"] = 1e-3 * rs ** 3
    if boundary == "shear":
        spec["omega"] = rng.choice([1.0, 0.37])
    return spec


def gen_edges_spec(rng, k):
    modes = [("tree", "none"), ("none", "tree"), ("tree", "tree"), ("none", "linetree"), ("basic", "tree")]
    g, c = modes[k % len(modes)]
    boundary = ["periodic", "open", "shear", "none"][(k // 2) % 4]
    n = [(1, 1, 1), (2, 1, 1), (1, 2, 1), (2, 2, 2), (3, 2, 1), (8, 8, 8), (1, 1, 64), (16, 1, 1)][k % 8]
    spec = {"kind": "edges", "rs": rng.choice([1.0, 2.0, 0.5, 0.125, 4.0, 2.0 ** 200, 2.0 ** -200]), "n": list(n), "boundary": boundary, "gravity": g, "collision": c,
            "seed": rng.randrange(1 << 30), "dt": 0.01, "npts": rng.choice([8, 20, 40]), "moving": k % 3 != 0, "vel": rng.choice([0.1, 1.0, 7.0]),
            # the closed upper border only without motion across it: moving lattices that contain both faces x=-L/2 and x=+L/2 produce pairs of
            # particles one ulp apart after the periodic wrap = known finding tree:cell_centre_rounding (dedicated corner history)
            "upper_border": k % 3 == 0}
    if boundary == "none":
        spec["vel"] = min(spec["vel"], 1.0)
    if c != "none":
        spec["radius"] = 1e-4 * spec["rs"]
    if g != "none":
        spec["softening"] = 0.05 * spec["rs"]
    if boundary == "shear":
        spec["omega"] = 1.0
    return spec


def gen_near_spec(rng, k):
    seps = ["1e-17", "1e-20", "2^-80", "ulp", "subnormal"]
    modes = [("tree", "none"), ("none", "tree"), ("none", "linetree"), ("tree", "tree")]
    g, c = modes[(k // len(seps)) % len(modes)]
    spec = {"kind": "near", "rs": [1.0, 4.0, 0.5, 2.0 ** 10][(k // 3) % 4], "n": list([(1, 1, 1), (2, 1, 1), (2, 2, 2)][k % 3]), "boundary": ["periodic", "open", "shear"][(k // 2) % 3],
            "gravity": g, "collision": c, "seed": rng.randrange(1 << 30), "dt": 2.0 ** -7, "sep": seps[k % len(seps)],
            "mask": [[1, 0, 0], [1, 1, 0], [1, 1, 1]][(k // 5) % 3]}
    if g != "none":
        spec["softening"] = 0.05 * spec["rs"]
    if spec["boundary"] == "shear":
        spec["omega"] = 1.0
    return spec


def gen_hvf_spec(rng, k):
    ops = ["boundary_switch", "tree_off_on", "remove_readd", "copy", "restore", "reconfigure_same", "error_once", "tree_off_add_on", "tree_off_remove_on"]
    modes = [("tree", "none"), ("none", "tree"), ("tree", "tree"), ("none", "linetree")]
    g, c = modes[(k // len(ops)) % len(modes)]
    rs = rng.choice(FRIENDLY_RS)
    spec = {"kind": "hvf", "op": ops[k % len(ops)], "rs": rs, "n": list(rng.choice([(1, 1, 1), (2, 1, 1), (2, 2, 1)])), "boundary": ["periodic", "shear", "open"][(k // 4) % 3],
            "gravity": g, "collision": c, "seed": rng.randrange(1 << 30), "N": rng.choice([4, 12, 25]), "dt": 0.01, "vel": rng.choice([0.5, 5.0]) * rs}
    if c != "none":
        spec["radius"] = 0.01 * rs
    if g != "none":
        spec["softening"] = 0.05 * rs
    if spec["boundary"] == "shear":
        spec["omega"] = 1.0
    if spec["boundary"] == "open":
        spec["vel"] = 0.3 * rs
    return spec


def corner_specs():
    out = []
    # (i) particle exactly on the upper box border, more than one root box: FIXED in /repo da62396 for exact root-cell
    #     geometry (regression histories; a failure is a VIOLATION)
    for n, pts in [([2, 1, 1], [(1.0, 0.1, 0.2), (0.3, 0.3, 0.3), (-0.2, 0.1, 0.1)]),
                   ([1, 3, 1], [(0.1, 1.5, 0.2), (0.3, 0.3, 0.3), (-0.2, 0.1, 0.1)])]:
        out.append({"kind": "corner", "key": "tree:upper_box_border_multi_root", "rs": 1.0, "n": n, "boundary": "periodic", "gravity": "tree",
                    "dt": 0.01, "steps": 2, "pts": pts,
                    "what": "a particle exactly at +boxsize/2 (inside the box for reb_boundary_particle_is_in_box) with N_root>1 is put in root box 0, "
                            "found outside its cell at the next tree update and its re-insertion descends into the leaf being vacated"})
    # (ii) particle exactly at a cell centre whose child centre is rounded (root size with a full mantissa)
    out.append({"kind": "corner", "key": "tree:cell_centre_rounding", "rs": 10.1, "n": [1, 2, 1], "boundary": "periodic", "gravity": "tree",
                "dt": 0.01, "steps": 2, "pts": [(0.0, -5.05, 0.0), (1.01, -4.04, 1.01)],
                "what": "a particle exactly at the centre of a (root) cell whose child centre c+w/4 is rounded is placed by `p.y < c.y` in a child that "
                        "fabs(p.y-c')>w'/2 declares it outside of; the re-insertion descends into the leaf being vacated"})
    # fixed regression (/repo a7d12d9): removing the last particle with a tree left its leaf behind (N==1 shortcut)
    out.append({"kind": "corner", "key": "tree_stale_leaf_after_last_particle_removed", "rs": 10.0, "n": [2, 1, 1], "boundary": "none", "gravity": "tree",
                "dt": 0.01, "steps": 0, "pts": [],
                "ops": [["add", 1.0, -2.0, 0.0, 0.0], ["step"], ["remove", 0], ["add", 1.0, 2.0, 0.0, 0.0], ["add", 0.0, 4.5, 0.0, 0.0], ["step"]],
                "what": "last particle removed while a tree exists, then two particles added: every particle must be in exactly one leaf"})
    for nrem, rest in [(2, 3), (3, 1)]:      # variants: remove ALL particles one by one, re-populate
        ops = [["add", 1.0, -2.0 + 0.5 * i, 0.3 * i, 0.1 * i] for i in range(nrem)] + [["step"]] + [["remove", i] for i in range(nrem)] + \
              [["add", 1.0, 1.0 + 0.7 * i, -0.2 * i, 0.05 * i] for i in range(rest)] + [["step"], ["step"]]
        out.append({"kind": "corner", "key": "tree_stale_leaf_after_last_particle_removed", "rs": 10.0, "n": [2, 1, 1], "boundary": "none", "gravity": "tree",
                    "dt": 0.01, "steps": 0, "pts": [], "ops": ops,
                    "what": "all %d particles removed one by one while a tree exists, then %d added" % (nrem, rest)})
    # (iii) the border particle with a root size whose cell centres are rounded: same mechanism as (ii), same finding
    out.append({"kind": "corner", "key": "tree:cell_centre_rounding", "rs": 0.3, "n": [2, 1, 1], "boundary": "periodic", "gravity": "tree",
                "dt": 0.01, "steps": 2, "step": False, "pts": [(0.3, 0.039, 0.021), (-0.06, 0.03, 0.03), (0.09, -0.09, 0.06)],
                "what": "a particle exactly at +boxsize/2 with a root size whose (root) cell centre is rounded: routed to the last root box (da62396) but "
                        "fabs(x-c)>w/2 holds by one ulp; the re-insertion descends into the leaf being vacated"})
    # (iv) hybrid integrators search for collisions inside their encounter steps: with collision='tree' the tree update runs on
    #      the encounter particle array (C15_tree_update_order_hybrid_refuted); before /repo 794b7d9 particles were lost at step 1 and TRACE looped forever; since then MERCURIUS still drops a particle after ~120 steps
    out.append({"kind": "corner", "key": "tree:hybrid_integrator_tree_collision", "rs": 20.0, "n": [1, 1, 1], "boundary": "periodic", "collision": "tree",
                "integrator": "mercurius", "dt": 0.05, "steps": 0, "pts": [],
                "ops": [["resolve0"], ["add", 1.0, 0.0, 0.0, 0.0], ["orbit", 1e-3, 1.0, 0.0, 0.01], ["orbit", 1e-3, 1.02, 0.02, 0.01],
                        ["orbit", 1e-3, 2.0, 1.0, 0.01], ["orbit", 1e-3, 3.0, 2.0, 0.01]] + [["step"]] * 130,
                "what": "MERCURIUS with collision='tree' (periodic box 20, star + 4 planets, two of them in a close encounter): particles are silently lost"})
    # (v) move_to_hel with a tree: the primary lands exactly on the origin; re-inserted into a leaf whose (stale) resident now lies
    #     beyond that corner, the two are never separated: unbounded recursion (SIGSEGV)
    out.append({"kind": "corner", "key": "tree:reinsert_on_cell_corner_unbounded_recursion", "rs": 1.0, "n": [1, 1, 1], "boundary": "periodic", "gravity": "tree",
                "dt": 0.01, "steps": 0, "pts": [],
                "ops": [["add", 1.0, 0.3, 0.3, 0.3], ["add", 1e-3, 0.1, 0.1, 0.1], ["add", 1e-3, -0.3, 0.2, -0.1], ["step"], ["move_to_hel"], ["step"]],
                "what": "sim.move_to_hel() with tree gravity, then step: the primary at exactly (0,0,0) is re-inserted into the leaf of a particle that has not been "
                        "re-sorted yet and now lies below that corner on every axis"})
    out.append({"kind": "corner", "key": "tree:reinsert_on_cell_corner_unbounded_recursion", "rs": 1.0, "n": [1, 1, 1], "boundary": "periodic", "gravity": "tree",
                "dt": 0.01, "steps": 0, "pts": [],
                "ops": [["add", 1e-3, -0.25, 0.5, 0.125], ["add", 1e-3, 0.3, 0.1, -0.2], ["add", 1e-3, -0.1, -0.3, 0.4], ["step"], ["remove", 0],
                        ["add", 1e-3, -0.25, 0.5, 0.125], ["step"]],
                "what": "a particle on the upper box border is removed (flagged y=NaN, still in its leaf) and a particle is added at the same place before the next "
                        "tree update: the NaN resident and the new particle choose the same octant at every level"})
    # move_to_hel where it is fine (must pass): the other particles end up on different sides of the origin
    out.append({"kind": "corner", "key": "tree:corner_control", "rs": 1.0, "n": [1, 1, 1], "boundary": "periodic", "gravity": "tree", "dt": 0.01, "steps": 0, "pts": [],
                "ops": [["add", 1.0, 0.1, 0.1, 0.1], ["add", 1e-3, 0.3, -0.2, 0.25], ["add", 1e-3, -0.3, 0.2, -0.1], ["add", 1e-3, 0.45, 0.4, -0.4], ["step"], ["move_to_hel"], ["step"], ["move_to_com"], ["step"]],
                "what": "move_to_hel / move_to_com with tree gravity, periodic box"})
    # (vi) two particles moved onto the same coordinates, then the tree update: the re-insertion is refused (error message), the
    #      particle is dropped, N and the tree stay consistent (fixed in /repo 950a4b2); pre/post record for the Coq update models
    for rs_, n_ in [(1.0, [1, 1, 1]), (2.0, [2, 1, 1])]:
        out.append({"kind": "corner", "key": "tree:refused_add_changes_N", "rs": rs_, "n": n_, "boundary": "periodic", "gravity": "tree", "dt": 0.01, "steps": 0, "pts": [],
                    "ops": [["add", 1e-3, 0.1 * rs_, 0.2 * rs_, 0.05 * rs_], ["add", 1e-3, -0.3 * rs_, 0.1 * rs_, 0.2 * rs_], ["add", 1e-3, 0.15 * rs_, 0.22 * rs_, 0.07 * rs_],
                            ["add", 1e-3, 0.35 * rs_, -0.4 * rs_, -0.3 * rs_], ["step"], ["coincide", 0, 2], ["update_capture", "expect_drop"], ["step"], ["step"]],
                    "what": "two particles moved onto identical coordinates, then reb_simulation_update_tree"})
    # (vii) two particles that start on opposite faces of a periodic box (same y, z, velocity) are one ulp apart after the wrap
    out.append({"kind": "corner", "key": "tree:cell_centre_rounding", "rs": 1.0, "n": [1, 1, 1], "boundary": "periodic", "gravity": "tree", "dt": 0.01, "steps": 1,
                "pts": [(0.5, 0.125, 0.25, 0.3), (-0.5, 0.125, 0.25, 0.3), (0.1, -0.2, 0.3, 0.3)],
                "what": "periodic images x=-L/2 and x=+L/2 with equal y,z,v: one ulp apart after the wrap, cells as small as an ulp"})
    # controls: the same situations where the code is fine (must pass)
    out.append({"kind": "corner", "key": "tree:corner_control", "rs": 1.0, "n": [1, 1, 1], "boundary": "periodic", "gravity": "tree", "dt": 0.01, "steps": 2,
                "pts": [(0.5, 0.1, 0.2), (0.3, 0.3, 0.3), (-0.2, 0.1, 0.1), (0.0, 0.0, 0.0), (0.25, 0.25, 0.25), (-0.5, -0.5, -0.5)],
                "what": "particles on the box border / on cell centres, one root box, dyadic root size"})
    out.append({"kind": "corner", "key": "tree:corner_control", "rs": 2.0, "n": [3, 2, 1], "boundary": "periodic", "gravity": "tree", "dt": 0.01, "steps": 2,
                "pts": [(-3.0, -2.0, -1.0), (-1.0, 0.0, 0.0), (1.0, 0.0, 1.0), (2.0, 1.0, 0.5), (0.5, 0.5, 0.5), (2.5, -1.5, -0.5), (-3.0, 1.99, 0.99)],
                "what": "particles on lower box borders, root-box borders and cell centres, 3x2x1 root boxes, dyadic root size"})
    return out


# ----------------------------------------------------------------------------------- dumps -> Coq
def unstrip(forest):
    def u(c):
        if c is None:
            return None
        g = [float.fromhex(v) for v in c["g"]]; m = [float.fromhex(v) for v in c["m"]]
        return {"x": g[0], "y": g[1], "z": g[2], "w": g[3], "m": m[0], "mx": m[1], "my": m[2], "mz": m[3], "pt": c["pt"],
                "oct": [u(d) for d in c["oct"]]}
    return [u(c) for c in forest]


def exact_ok(box, forest):
    rs = F(box.rs)
    def rec(c):
        for o, d in enumerate(c["oct"]):
            if d is None:
                continue
            if F(d["w"]) != F(c["w"]) / 2:
                return False
            for a, key in enumerate("xyz"):
                sg = 1 if (o >> a) % 2 == 0 else -1
                if F(d[key]) != F(c[key]) + sg * F(c["w"]) / 4:
                    return False
            if not rec(d):
                return False
        return True
    for ri, c in enumerate(forest):
        ijk = (ri % box.n[0], (ri // box.n[0]) % box.n[1], ri // (box.n[0] * box.n[1]))
        fc = box.root_centre_of_index(ri)
        for a in range(3):
            if F(fc[a]) != -rs * box.n[a] / 2 + rs * (F(1, 2) + ijk[a]):
                return False
        if c is None:
            continue
        if F(c["w"]) != rs or not rec(c):
            return False
    return True


def zlit(v):
    return "(%d)" % v if v < 0 else "%d" % v


def dcell_term(c, ue):
    if c is None:
        return "None"
    return "(Some %s)" % dcell_raw(c, ue)


def dcell_raw(c, ue):
    return "(D %s %s %s %s %s [%s])" % (zlit(L.to_units(c["x"], ue)), zlit(L.to_units(c["y"], ue)), zlit(L.to_units(c["z"], ue)),
                                        zlit(L.to_units(c["w"], ue)), zlit(c["pt"]), "; ".join(dcell_term(d, ue) for d in c["oct"]))


def tcase_term(box, part, N, forest, exp_wf, cmp_shape):
    sc = L.scale_for(box, part)
    if sc is None:
        return None
    ue, u, Lv = sc
    try:
        pos = "; ".join("(%s, %s, %s)" % tuple(zlit(L.to_units(p[a], ue)) for a in range(3)) for p in part)
        roots = []
        for ri, c in enumerate(forest):
            if c is None:
                roots.append("None")
            else:
                fc = box.root_centre_of_index(ri)
                roots.append("(Some ((%s, %s, %s), %s))" % (zlit(L.to_units(fc[0], ue)), zlit(L.to_units(fc[1], ue)), zlit(L.to_units(fc[2], ue)), dcell_raw(c, ue)))
    except (AssertionError, OverflowError, ValueError):
        return None
    return "(mkT %d %d%%nat %d %d %d %d%%nat [%s] [%s] %s %s)" % (u, Lv, box.n[0], box.n[1], box.n[2], N, pos, "; ".join(roots),
                                                                  "true" if exp_wf else "false", "true" if cmp_shape else "false")


def all_cells(forest):
    out = []
    def rec(c, parent, o):
        if c is None:
            return
        out.append((c, parent, o))
        for k, d in enumerate(c["oct"]):
            rec(d, c, k)
    for c in forest:
        rec(c, None, 0)
    return out


def corrupt(rng, forest, part):
    """returns (forest', part', label) — a damaged copy of a dump (for the checker cross-check)."""
    f = copy.deepcopy(forest); p = list(part)
    cells = all_cells(f)
    leaves = [c for c in cells if c[0]["pt"] >= 0]
    nodes = [c for c in cells if c[0]["pt"] < 0]
    kind = rng.choice(["dup_leaf", "count", "swap_pos", "swap_oct", "drop_leaf", "leaf_as_node"])
    if kind == "dup_leaf" and len(leaves) >= 2:
        a, b = rng.sample(leaves, 2); a[0]["pt"] = b[0]["pt"]
    elif kind == "count" and nodes:
        rng.choice(nodes)[0]["pt"] += rng.choice([-1, 1])
    elif kind == "swap_pos" and len(p) >= 2:
        i, j = rng.sample(range(len(p)), 2); p[i], p[j] = p[j], p[i]
    elif kind == "swap_oct" and nodes:
        c = rng.choice(nodes)[0]; i, j = rng.sample(range(8), 2); c["oct"][i], c["oct"][j] = c["oct"][j], c["oct"][i]
    elif kind == "drop_leaf" and leaves:
        c, parent, o = rng.choice(leaves)
        if parent is not None:
            parent["oct"][o] = None
        else:
            kind = "none"
    elif kind == "leaf_as_node" and leaves:
        rng.choice(leaves)[0]["pt"] = -1
    else:
        kind = "none"
    return f, p, kind


def ucase_term(u_):
    """pre/post record of the driver -> Coq ucase term (None if the geometry is not exact / not representable)."""
    box = L.Box(float.fromhex(u_["rs"]), *u_["n"])
    def geo(c):
        if c is None:
            return None
        g = [float.fromhex(v) for v in c["g"]]
        return {"x": g[0], "y": g[1], "z": g[2], "w": g[3], "pt": c["pt"], "addr": c.get("addr"), "oct": [geo(d) for d in c["oct"]],
                "m": 0., "mx": 0., "my": 0., "mz": 0.}
    pre = [geo(c) for c in u_["forest"]]
    post = [geo(c) for c in u_["post_forest"]]
    if not exact_ok(box, post):
        return None
    # pre-state geometry: children exact relative to their parents (roots may be anywhere: stale roots keep their geometry)
    allpos = []
    for q in u_["parts"]:
        allpos.append((float.fromhex(q["x"]), 0.0 if q["y"] == "nan" else float.fromhex(q["y"]), float.fromhex(q["z"])))
    postpos = [tuple(float.fromhex(v) for v in q) for q in u_["post_pos"]]
    sc = L.scale_for(box, allpos + postpos)
    if sc is None:
        return None
    ue, uu, Lv = sc
    try:
        ids = {}
        cells = []
        def number(c):
            if c is None:
                return
            ids[c["addr"]] = len(cells); cells.append(c)
            for d in c["oct"]:
                number(d)
        for c in pre:
            number(c)
        def cterm(c):
            kids = "; ".join("None" if d is None else "(Some %d%%nat)" % ids[d["addr"]] for d in c["oct"])
            return "(Some (mkC (%s, %s, %s) %s [%s]))" % (zlit(L.to_units(c["x"], ue)), zlit(L.to_units(c["y"], ue)), zlit(L.to_units(c["z"], ue)), zlit(c["pt"]), kids)
        # geometry of the pre-state must be the exact child geometry too (levels are implied by depth in the model)
        if not exact_ok(box, pre):
            return None
        roots = "; ".join("None" if c is None else "(Some %d%%nat)" % ids[c["addr"]] for c in pre)
        parts = []
        for q, pp in zip(u_["parts"], allpos):
            if q["c"] not in ids:
                return None
            parts.append("(mkP (%s, %s, %s) %s %d%%nat)" % (zlit(L.to_units(pp[0], ue)), zlit(L.to_units(pp[1], ue)), zlit(L.to_units(pp[2], ue)),
                                                         "true" if q["y"] == "nan" else "false", ids[q["c"]]))
        # path model: cells identified by their path (root slot :: octants)
        paths = {}
        def number_paths(c, pth):
            if c is None:
                return
            paths[c["addr"]] = pth
            for o, d in enumerate(c["oct"]):
                number_paths(d, pth + [o])
        for ri, c in enumerate(pre):
            number_paths(c, [ri])
        pparts = []
        for q, pp in zip(u_["parts"], allpos):
            pparts.append("(((%s, %s, %s), %s), [%s])" % (zlit(L.to_units(pp[0], ue)), zlit(L.to_units(pp[1], ue)), zlit(L.to_units(pp[2], ue)),
                                                          "true" if q["y"] == "nan" else "false", "; ".join("%d%%nat" % o for o in paths[q["c"]])))
        proots = "; ".join("None" if c is None else "(Some %s)" % shape_term(c) for c in pre)
        expf = "; ".join("None" if c is None else "(Some %s)" % shape_term(c) for c in post)
        expp = "; ".join("(%s, %s, %s)" % tuple(zlit(L.to_units(v, ue)) for v in pp) for pp in postpos)
    except (AssertionError, OverflowError, ValueError, KeyError):
        return None
    pterm = "(mkPC %d %d%%nat %d %d %d [%s] [%s] %d%%nat [%s] [%s])" % (uu, Lv, box.n[0], box.n[1], box.n[2], proots, "; ".join(pparts), u_["N"], expf, expp)
    return "(mkU %d %d%%nat %d %d %d %s [%s] [%s] [%s] %d%%nat [%s] [%s])" % (
        uu, Lv, box.n[0], box.n[1], box.n[2], "true" if u_["boxed"] else "false", "; ".join(cterm(c) for c in cells), roots, "; ".join(parts),
        u_["N"], expf, expp), pterm


def shape_term(c):
    if c["pt"] >= 0:
        return "(Leaf %d%%nat)" % c["pt"]
    return "(Node %d [%s])" % (-c["pt"], "; ".join("None" if d is None else "(Some %s)" % shape_term(d) for d in c["oct"]))


HEAD = ("From Coq Require Import List ZArith PrimFloat Bool.\nFrom RV Require Import Common.Num Common.FloatNum C15.Boundary C15.Tree C15.Run C15.Update C15.Run2.\n"
        "Import ListNotations.\n")


def check_layout(ctx):
    src = open(os.path.join(vlib.REPO, "src", "tree.h")).read()
    try:
        fields = L.parse_treecell_fields(src)
        names = [f[1] for f in fields]
        ok = names == L.EXPECTED_FIELDS and [f[0] for f in fields] == ["double"] * 8 + ["struct reb_treecell *", "int", "int"] and fields[8][2] == "[8]"
        detail = "tree.h members: %s" % fields
    except RuntimeError as e:
        ok = False; detail = str(e)
    ok = ok and ctypes.sizeof(L.TreeCell) == 8 * 8 + 8 * 8 + 8
    ctx.obligation("regenerate:struct reb_treecell layout of tree.h == ctypes mirror used for the dump", ok, detail)
    return ok


def run(ctx):
    libdir = ctx.lib()
    rng = ctx.rng
    check_layout(ctx)
    ctx.regen("translate_usestree.py")
    ctx.regen("translate_treeorder.py")
    proved = ctx.prove("C15", extra_targets=["C15/Run.vo", "C15/Run2.vo", "C15/PathRun.vo"])

    ntree = ctx.scale(112, 900)
    nbound = ctx.scale(60, 500)
    nrest = ctx.scale(84, 560)
    specs = [gen_tree_spec(rng, k) for k in range(ntree)] + [gen_boundary_spec(rng, k) for k in range(nbound)] + \
            [gen_restore_spec(rng, k) for k in range(nrest)] + [gen_ops_spec(rng, k) for k in range(ctx.scale(72, 480))] + \
            [gen_edges_spec(rng, k) for k in range(ctx.scale(40, 320))] + [gen_near_spec(rng, k) for k in range(ctx.scale(40, 240))] + \
            [gen_hvf_spec(rng, k) for k in range(ctx.scale(54, 360))] + corner_specs()
    if ctx.thorough:
        for s in specs:
            if s["kind"] == "tree":
                s["steps"] *= 3
    with ThreadPoolExecutor(max_workers=vlib.JOBS) as ex:
        results = list(ex.map(lambda s: run_driver(libdir, s), specs))
    ctx.log("ran %d histories" % len(specs))
    import glob, shutil
    for dtmp in glob.glob("/tmp/c15r_*"):          # temp dirs of restore histories whose driver process died
        shutil.rmtree(dtmp, ignore_errors=True)

    totals = {}
    dist = {}
    ucases = []       # (label, term)
    pcases = []
    n_upd_reinsert = n_upd_removed = 0
    tcases = []       # (label, term)
    gcases = []
    bcases = []
    viol = {}
    skipped_inexact = 0
    n_real = n_corrupt = n_corrupt_false = 0
    for spec, res in zip(specs, results):
        for k, v in res.get("stats", {}).items():
            totals[k] = (max(totals.get(k, 0), v) if k == "maxdepth" else totals.get(k, 0) + v)
        key = "%s|%s|roots=%s|grav=%s|coll=%s" % (spec["kind"] + ("/" + spec["method"] if "method" in spec else ""), spec["boundary"], "x".join(map(str, spec["n"])), spec.get("gravity", "none"),
                                                 spec.get("collision", "none") + ("/" + spec["collision_resolve"] if "collision_resolve" in spec else ""))
        dist[key] = dist.get(key, 0) + 1
        nsteps = res.get("stats", {}).get("steps", 0)
        ctx.evaluations += max(1, nsteps)
        ctx.nontrivial.add((key, spec.get("rs"), spec.get("N"), spec.get("vel")))
        if len(ctx.samples) < 4 and spec["kind"] != "corner":
            ctx.samples.append({k: spec[k] for k in spec if k != "what"})
        if res["fail"]:
            fk = res["fail"]["key"]
            if spec["kind"] == "corner" and fk in ("crash", "hang", "tree:error", "tree:wf"):
                fk = spec["key"]
            if spec["kind"] == "hvf" and fk in ("crash", "hang") and spec["op"] in ("tree_off_add_on", "tree_off_remove_on", "tree_off_on"):
                fk = "tree:stale_tree_after_mode_switch"
            if fk not in viol:
                viol[fk] = (spec, res["fail"])
        # ---- Coq cases
        for d in res.get("dumps", []):
            box = L.Box(float.fromhex(d["rs"]), *d["n"])
            part = [tuple(float.fromhex(v) for v in p) for p in d["pos"]]
            forest = unstrip(d["forest"])
            if exact_ok(box, forest):
                exp = L.wfb_py(box, part, d["N"], forest) == []
                t = tcase_term(box, part, d["N"], forest, exp, not d["tie"])
                if t is not None and len(tcases) < ctx.scale(110, 800):
                    tcases.append(("real", t)); n_real += 1
                    if rng.random() < 0.5:
                        f2, p2, kind = corrupt(rng, forest, part)
                        if kind != "none":
                            exp2 = L.wfb_py(box, p2, d["N"], f2) == []
                            t2 = tcase_term(box, p2, d["N"], f2, exp2, False)
                            if t2 is not None:
                                tcases.append(("corrupt:" + kind, t2)); n_corrupt += 1; n_corrupt_false += (0 if exp2 else 1)
            else:
                skipped_inexact += 1
            if d["grav"] and len(gcases) < ctx.scale(60, 500):
                parts = "[" + "; ".join("(%s, %s, %s, %s)" % (vlib.fhex(p[3]), vlib.fhex(p[0]), vlib.fhex(p[1]), vlib.fhex(p[2])) for p in part) + "]"
                for c in [c for c in forest if c is not None][:2]:
                    exp = []
                    L.gravity_dump_preorder(c, exp)
                    gcases.append("(gravF %s %s, %s)" % (parts, shape_term(c), vlib.flist([v for g in exp for v in g])))
        for u_ in res.get("upd", []):
            if len(ucases) < ctx.scale(60, 400) or spec["kind"] == "corner":
                t = ucase_term(u_)
                if t is not None:
                    t, pt_ = t
                    pcases.append(pt_)
                    nflag = sum(1 for q in u_["parts"] if q["y"] == "nan")
                    moved = sum(1 for a, b in zip(u_["parts"], u_["post_pos"]) if (a["x"], a["y"], a["z"]) != tuple(b))
                    ucases.append(("flagged=%d moved_slots=%d N=%d" % (nflag, moved, u_["N"]), t))
                    n_upd_removed += nflag; n_upd_reinsert += moved
        for b in res.get("bcases", []):
            fx = lambda h: vlib.fhex(float.fromhex(h))
            bx, by, bz = [fx(v) for v in b["box"]]
            out = "[" + "; ".join(fx(v) for v in b["out"]) + "]"
            if b["kind"] == "periodic":
                inn = "[" + "; ".join("(%s, %s, %s)" % tuple(fx(v) for v in p) for p in b["in"]) + "]"
                bcases.append("(periodicF 64 %s %s %s %s, %s)" % (bx, by, bz, inn, out))
            elif b["kind"] == "shear":
                inn = "[" + "; ".join("(%s, %s, %s, %s)" % tuple(fx(v) for v in p) for p in b["in"]) + "]"
                bcases.append("(shearF 64 %s %s %s %s %s %s %s, %s)" % (bx, by, bz, fx(b["op1"]), fx(b["om1"]), fx(b["omega"]), inn, out))
            else:
                inn = "[" + "; ".join("(%s, (%s, %s, %s))" % tuple(fx(v) for v in p) for p in b["in"]) + "]"
                bcases.append("(openF %s %s %s %s, %s)" % (bx, by, bz, inn, out))

    # ---- evaluate the Coq side
    jobs = []
    chunk = 12
    for c0 in range(0, len(tcases), chunk):
        body = HEAD + "Open Scope Z_scope.\nDefinition cases : list tcase := [\n" + ";\n".join(t for _, t in tcases[c0:c0 + chunk]) + "].\nEval vm_compute in (bad_t cases).\n"
        jobs.append(("c15_tree_%d" % (c0 // chunk), body, "tree", c0))
    uchunk = 8
    for c0 in range(0, len(ucases), uchunk):
        body = HEAD + "Open Scope Z_scope.\nDefinition cases : list ucase := [\n" + ";\n".join(t for _, t in ucases[c0:c0 + uchunk]) + "].\nEval vm_compute in (bad_u cases).\n"
        jobs.append(("c15_upd_%d" % (c0 // uchunk), body, "upd", c0))
    for c0 in range(0, len(pcases), uchunk):
        body = HEAD + "From RV Require Import C15.PathModel C15.PathRun.\nOpen Scope Z_scope.\nDefinition cases : list pcase := [\n" + ";\n".join(pcases[c0:c0 + uchunk]) + "].\nEval vm_compute in (bad_p cases).\n"
        jobs.append(("c15_pth_%d" % (c0 // uchunk), body, "pth", c0))
    fchunk = 40
    for name, lst in (("grav", gcases), ("bnd", bcases)):
        for c0 in range(0, len(lst), fchunk):
            body = HEAD + "Open Scope float_scope.\nDefinition cases : list (list float * list float) := [\n" + ";\n".join(lst[c0:c0 + fchunk]) + "].\nEval vm_compute in (bad_cases cases).\n"
            jobs.append(("c15_%s_%d" % (name, c0 // fchunk), body, name, c0))
    outs = vlib.coq_eval_many([(j[0], j[1]) for j in jobs], timeout=600)
    bad = {"tree": [], "grav": [], "bnd": [], "upd": [], "pth": []}
    corr_ok = True
    for (name, ok, out), j in zip(outs, jobs):
        b = vlib.parse_coq_list_nat(out) if ok else None
        if b is None:
            corr_ok = False
            ctx.obligation("correspondence:C15:" + name, False, out[-1500:])
        else:
            bad[j[2]] += [j[3] + i for i in b]
    ctx.obligation("correspondence:C15 tree dumps: Coq wf_b == Python transcription (%d real dumps all accepted, %d corrupted dumps of which %d rejected) "
                   "and exact Coq model tree (insert 0..N-1) == library tree" % (n_real, n_corrupt, n_corrupt_false),
                   corr_ok and not bad["tree"] and n_real > 0, "mismatching cases: %s" % [(i, tcases[i][0]) for i in bad["tree"][:10]])
    ctx.obligation("correspondence:C15 heap model of the in-place update (swap-removal + back pointer, re-insertion during the walk, derefinement) == "
                   "reb_simulation_update_tree on %d pre/post dumps: same tree (shape, counts, leaf indices), same particle order, same N "
                   "(%d flagged particles removed, %d array slots changed by removal/re-insertion)" % (len(ucases), n_upd_removed, n_upd_reinsert),
                   corr_ok and not bad["upd"] and len(ucases) > 0, "mismatching cases: %s" % [(i, ucases[i][0]) for i in bad["upd"][:10]])
    ctx.obligation("correspondence:C15 PATH model of the in-place update (cells = paths, back pointers = paths; the model the update theorems are about) == "
                   "reb_simulation_update_tree on the same %d pre/post dumps" % len(pcases),
                   corr_ok and not bad["pth"] and len(pcases) > 0, "mismatching cases: %s" % bad["pth"][:10])
    ctx.obligation("correspondence:C15 gravity data model(binary64) == dumped m,mx,my,mz of every cell bit-for-bit on %d root cells" % len(gcases),
                   corr_ok and not bad["grav"] and len(gcases) > 0, "mismatching cases: %s" % bad["grav"][:10])
    ctx.obligation("correspondence:C15 boundary model(binary64) == reb_boundary_check bit-for-bit on %d steps (periodic/shear/open removal order)" % len(bcases),
                   corr_ok and not bad["bnd"] and len(bcases) > 0, "mismatching cases: %s" % bad["bnd"][:10])
    ctx.traces = (len(tcases) + len(gcases) + len(bcases) + len(ucases)) if corr_ok else 0

    # ---- violations found by the searcher
    for fk, (spec, fail) in sorted(viol.items()):
        ctx.violation(fk, {"spec": spec, "failure": fail, "how": "echo '<spec json>' | PYTHONPATH=<libdir> /venv/bin/python tools/c15_driver.py"}, True,
                      fail["what"][:400])
    ctx.extra["input_distribution"] = dict(sorted(dist.items())[:80])
    ctx.extra["searcher_totals"] = totals
    ctx.extra["coq_cases"] = {"tree_dumps_real": n_real, "tree_dumps_corrupted": n_corrupt, "corrupted_rejected": n_corrupt_false,
                              "dumps_skipped_inexact_geometry": skipped_inexact, "gravity_root_cells": len(gcases), "boundary_steps": len(bcases),
                              "update_pre_post_cases": len(ucases), "update_flagged_removed": n_upd_removed, "update_slots_changed": n_upd_reinsert}
    ctx.rule = ("one case = one history (boundary type x root layout x gravity/collision tree mode x root size x N x speed); every step of a "
                "history is an evaluation; distinct by (kind, boundary, layout, modes, root size, N, speed); non-trivial: particles cross cells and "
                "root boxes (searcher_totals.root_crossings), are removed/added/merged, wrap several boxes per step (multiwraps)")
    ctx.assumptions += [
        "theorems about the wrap loops are over Coq reals; the binary64 instance of the same term is compared bit for bit with reb_boundary_check",
        "the tree theorems are about the exact (integer-unit) functional model: binary64 cell geometry equals it only when c +- w/4 is not rounded "
        "(root sizes with few significant bits; checked per dump with rationals before a dump is given to Coq); for other root sizes only the "
        "binary64 Python replay of the same algorithm is compared with the library",
        "the in-place update (swap-removal, re-insertion during the walk, derefinement) is modelled as a heap model (coq/C15/Update.v) compared with "
        "reb_simulation_update_tree on pre/post dumps; proved: stable state => the walk changes nothing (heap model); flagged-only removals => "
        "tree of the survivors, re-indexed (functional identity-based model; its agreement with the heap model is validated, not proved); the "
        "general case with re-insertion during the walk is validated only (heap model == library, checker on every dump, canonical-tree comparison, "
        "which rests on C15_wf_is_fresh_build for tie-free dumps)",
        "identical coordinates are excluded (the library reports an error and leaves the particle outside the tree)",
        "known open defect (known_findings.json): a particle exactly on a cell border (centre plane, or the box border) of a cell whose centre is "
        "rounded in binary64: the re-insertion descends into the leaf being vacated (particle lost from the tree / crash); the upper box border "
        "with several root boxes is fixed in /repo da62396 for exact root-cell geometry",
        "MPI, OpenMP, QUADRUPOLE builds not covered",
    ]


def replay(ctx, rep):
    libdir = ctx.lib()
    spec = rep["replay"]["spec"]
    res = run_driver(libdir, spec)
    print(json.dumps({"spec": spec, "result_failure": res["fail"], "stats": res.get("stats")}, indent=1))
    return 1 if res["fail"] else 0
