"""C14 — particle bookkeeping stays consistent under any add/remove/hash history.

1. proof obligations: coq/C14 (refinement of the transcribed particle.c routines to a list specification for
   all operation sequences, lookup correctness for any staleness of the lookup table, rejection of invalid
   requests, absence of out-of-bounds accesses, the N_active rule incl. its refuted consistency clause);
2. correspondence: random operation sequences executed (a) through ctypes on the C API and (b) through the
   Python container; per-operation rows (return code, found index, N, N_active, N_var) and the final particle
   list are compared INSIDE Coq with the model evaluated by vm_compute on the same operations; string hashes
   are computed by the Murmur model on the Coq side and by reb_hash on the library side;
3. searcher (library only, always run): the same generator against an independent list specification written
   in Python, with shrinking; thorough tier: the same sequences on an ASan+UBSan build.

This file is also the child-process driver:  python c14.py --drive c|py   (sequences on stdin, JSON out).
"""
import ctypes, json, math, os, re, subprocess, sys

NAMES = ["star", "planet1", "a", "", "Jupiter", "x y", "abcd", "abcde", "zz"]
INTS = [0, 0, 0, 1, 2, 3, 7, 4294967295]
BOX = 100.0


# ----------------------------------------------------------------------------- pure-Python murmur (oracle side)
def py_murmur(data, seed=1983):
    M = 0xFFFFFFFF
    rot = lambda x, r: ((x << r) | (x >> (32 - r))) & M
    h = seed
    nb = len(data) // 4
    for i in range(nb):
        k = int.from_bytes(data[4 * i:4 * i + 4], "little")
        k = (k * 0xcc9e2d51) & M; k = rot(k, 15); k = (k * 0x1b873593) & M
        h ^= k; h = (rot(h, 13) * 5 + 0xe6546b64) & M
    tail = data[4 * nb:]
    if tail:
        k = int.from_bytes(tail, "little")
        k = (k * 0xcc9e2d51) & M; k = rot(k, 15); k = (k * 0x1b873593) & M
        h ^= k
    h ^= len(data)
    h ^= h >> 16; h = (h * 0x85ebca6b) & M; h ^= h >> 13; h = (h * 0xc2b2ae35) & M; h ^= h >> 16
    return h


def hval(hs):
    """hash spec ['n', name] | ['i', int] -> number (oracle side)"""
    return py_murmur(hs[1].encode("ascii")) if hs[0] == "n" else hs[1]


# ----------------------------------------------------------------------------- generator
def gen_hash(rng):
    return ["n", rng.choice(NAMES)] if rng.random() < 0.45 else ["i", rng.choice(INTS)]


def gen_seq(rng, profile, length, dups=True):
    """profile: small | growth | tree | boundary"""
    ops = []
    n = 0          # estimate of N (exact except after refused removals)
    nvar = 0
    pid = 1
    used = set()
    tree = profile in ("tree", "tinytree")
    prefill = 0
    if profile == "growth":
        prefill = rng.randint(118, 132)
    elif profile == "boundary":
        prefill = rng.choice([127, 128, 129, 255, 256, 257]) if length > 260 else rng.choice([126, 127, 128])

    def fresh_hash():
        h = gen_hash(rng)
        if not dups and hval(h) != 0:
            for _ in range(50):
                if hval(h) not in used:
                    break
                h = ["i", rng.randint(1, 1 << 20)]
        used.add(hval(h))
        return h
    while len(ops) < length:
        u = rng.random()
        if len(ops) < prefill:
            u = 0.0 if rng.random() < 0.93 else u
        padd = {"small": 0.30, "growth": 0.45, "tree": 0.35, "boundary": 0.42, "tiny": 0.22, "tinytree": 0.24}[profile]
        if u < padd:
            if pid > 1 and rng.random() < 0.08:
                ops.append(["add", fresh_hash(), rng.randrange(1, pid)]); n += 1      # coincides with an earlier particle
            else:
                ops.append(["add", fresh_hash(), pid]); pid += 1; n += 1
        elif u < padd + 0.20:
            r = rng.random()
            if r < 0.72 and n > 0:
                i = rng.randrange(n)
            else:
                i = rng.choice([n, n + 1, -1, -n - 1, n + 5, 1000000, -2147483648, 2147483647, 0])
            keep = 1 if rng.random() < 0.5 else 0
            ops.append(["rmi", i, keep])
            if 0 <= i < n and not nvar and not tree:
                n -= 1
        elif u < padd + 0.33:
            keep = 1 if rng.random() < 0.5 else 0
            ops.append(["rmh", gen_hash(rng), keep])
            n = max(0, n - 1) if rng.random() < 0.5 and not tree and not nvar else n
        elif u < padd + 0.43:
            i = rng.randrange(n) if n > 0 and rng.random() < 0.9 else n + rng.choice([0, 1, 4])
            ops.append(["seth", i, fresh_hash()])
        elif u < padd + 0.60:
            ops.append(["look", gen_hash(rng)])
        elif u < padd + 0.62:
            ops.append(["rmall"]); n = 0; nvar = 0
        elif u < padd + 0.68:
            z = rng.choice([-1, n, n, max(0, n - 1), rng.randint(0, max(0, n)), 0, -2, -7])
            ops.append(["nact", z])
        else:
            if nvar:
                nvar = 0 if rng.random() < 0.7 else rng.choice([1, 2])
            else:
                nvar = rng.choice([1, 2]) if rng.random() < 0.25 else 0
            ops.append(["nvar", nvar])
    return {"tree": tree, "ops": ops, "profile": profile}


# ----------------------------------------------------------------------------- independent list specification
class Spec:
    """The simulation as a plain list. Each entry: [hash, pid, y_is_nan]."""
    def __init__(self, tree):
        # tree: tree_root != NULL ; cfg: a tree code is selected (every add puts the particle into the tree, allocating the root)
        self.ps = []; self.nact = -1; self.nvar = 0; self.tree = tree; self.cfg = tree

    def refused(self, keep):
        return self.nvar != 0 or bool(keep and self.tree)

    def removed(self, i, keep):
        ps = [list(p) for p in self.ps]
        n = len(ps)
        dec = self.nact - 1 if i < self.nact else self.nact
        if n == 1 and not self.tree:
            return [], dec
        if keep:
            return ps[:i] + ps[i + 1:], dec
        if self.tree:
            ps[i][2] = True
            return ps, self.nact
        # the last particle fills the hole; N_active is left alone unless it would exceed the new N (then clamped)
        last = ps.pop()
        if i < n - 1:
            ps[i] = last
        return ps, (n - 1 if self.nact > n - 1 else self.nact)

    def step(self, op, code, idx, obs):
        """obs = (N, N_active, N_var, particle list) seen on the library after the operation.
        Returns None or a description of the disagreement; advances the specification."""
        N, nact, nvar, plist = obs
        k = op[0]
        exp_code = None
        if k == "add":
            if self.cfg and any(q[1] == op[2] and not q[2] for q in self.ps):
                exp_code = (0, 0)           # identical coordinates: refused by the tree, nothing added
            else:
                self.ps.append([hval(op[1]), op[2], False]); exp_code = (9, 0)
            self.tree = self.tree or self.cfg
        elif k == "rmi":
            i, keep = op[1], op[2]
            if 0 <= i < len(self.ps) and not self.refused(keep):
                self.ps, self.nact = self.removed(i, keep); exp_code = (1, 0)
            else:
                exp_code = (0, 0)
        elif k == "rmh":
            h, keep = hval(op[1]), op[2]
            cands = [i for i, p in enumerate(self.ps) if p[0] == h]
            if not cands or self.refused(keep):
                exp_code = (0, 0)
            else:
                exp_code = (1, 0)
                outs = [self.removed(i, keep) for i in cands]
                pick = [o for o in outs if o[0] == plist]
                self.ps, self.nact = pick[0] if pick else outs[0]
        elif k == "seth":
            i = op[1]
            if 0 <= i < len(self.ps):
                self.ps[i][0] = hval(op[2]); exp_code = (9, 0)
            else:
                exp_code = (0, 0)
        elif k == "look":
            h = hval(op[1])
            cands = [i for i, p in enumerate(self.ps) if p[0] == h]
            if not cands:
                exp_code = (2, 0)
            elif code == 3 and idx in cands:
                exp_code = (3, idx)
            else:
                exp_code = (3, cands)
        elif k == "rmall":
            self.ps = []; self.nact = -1; self.nvar = 0; self.tree = False; exp_code = (9, 0)      # reb_tree_delete
        elif k == "nact":
            self.nact = op[1]; exp_code = (9, 0)
        elif k == "nvar":
            self.nvar = op[1]; exp_code = (9, 0)
        if exp_code != (code, idx):
            return "return value: library (%s,%s), specification %s" % (code, idx, exp_code)
        if N != len(self.ps):
            return "N: library %d, specification %d" % (N, len(self.ps))
        if plist != self.ps:
            d = [j for j in range(N) if plist[j] != self.ps[j]][:3]
            return "particles differ at %s: library %s, specification %s" % (d, [plist[j] for j in d], [self.ps[j] for j in d])
        if nact != self.nact:
            return "N_active: library %d, specification (rule of the code) %d" % (nact, self.nact)
        if nvar != self.nvar:
            return "N_var: library %d, specification %d" % (nvar, self.nvar)
        return None


# ----------------------------------------------------------------------------- child-process driver
def _driver(mode):
    import warnings
    warnings.simplefilter("ignore")
    import rebound, random
    from rebound import clibrebound as clib
    want = os.environ.get("C14_LIBDIR")
    if want and not os.path.realpath(clib._name).startswith(os.path.realpath(want) + os.sep):
        sys.stderr.write("driver loaded %s, not the library under test in %s\n" % (clib._name, want))
        sys.exit(97)
    Particle = rebound.Particle
    psz = ctypes.sizeof(Particle)
    clib.reb_simulation_remove_particle.restype = ctypes.c_int
    clib.reb_simulation_remove_particle_by_hash.restype = ctypes.c_int
    clib.reb_hash.restype = ctypes.c_uint32
    clib.reb_simulation_add.restype = None
    seqs = json.load(sys.stdin)
    out = []
    for sq in seqs:
        rr = random.Random(sq.get("seed", 0))
        sim = rebound.Simulation()
        if sq["tree"]:
            sim.configure_box(BOX)
            sim.gravity = "tree"
            sim.integrator = "leapfrog"; sim.dt = 1e-9
            sim.step()
            assert bool(sim._tree_root)

        def observe():
            N = sim.N
            pl = []
            if N > 0:
                arr = (Particle * N).from_address(ctypes.addressof(sim._particles.contents))
                for i in range(N):
                    p = arr[i]
                    m = p.m
                    ok = (m == int(m)) and p.x == m * 1e-4 and 0 <= m < 1e9
                    pl.append([p._hash, int(m) if ok else -1, bool(p.y != p.y)])
            return (N, sim.N_active, sim.N_var, pl)

        def drain():
            try:
                sim.process_messages()
            except RuntimeError:
                return True
            return False

        def h_c(hs):
            return clib.reb_hash(ctypes.c_char_p(hs[1].encode("ascii"))) if hs[0] == "n" else hs[1]

        def h_py(hs):       # key for the Python API
            return hs[1] if hs[0] == "n" else hs[1]

        spec = Spec(sq["tree"])
        rows = []; oracle = None; nact_bad = None; pyidx = []; extra = None
        cbev = []; cbcur = []; cbstate = {"on": True}
        if mode == "c":
            CB = ctypes.CFUNCTYPE(None, ctypes.POINTER(Particle))

            def _cb(pp, cbcur=cbcur, cbstate=cbstate):
                if cbstate["on"]:
                    q = pp.contents
                    cbcur.append([int(q.m) if q.m == int(q.m) else -1, bool(q.y != q.y)])
            sim._c14_cb = CB(_cb)
            sim._free_particle_ap = sim._c14_cb
        for k, op in enumerate(sq["ops"]):
            code, idx = 9, 0
            t = op[0]
            if t == "nact" and op[1] > sim.N:
                op = ["nact", sim.N]        # the user's own writes of N_active are kept consistent (hypothesis run_ok)
            nprev, nactprev = sim.N, sim.N_active
            try:
                if mode == "c":
                    if t == "add":
                        p = Particle(); p.m = float(op[2]); p.x = float(op[2]) * 1e-4; p._hash = h_c(op[1])
                        clib.reb_simulation_add(ctypes.byref(sim), p)
                        if drain():
                            code = 0        # reb_simulation_add is void: a refusal is visible as an error message
                    elif t == "rmi":
                        code = clib.reb_simulation_remove_particle(ctypes.byref(sim), ctypes.c_int(op[1]), ctypes.c_int(op[2]))
                    elif t == "rmh":
                        code = clib.reb_simulation_remove_particle_by_hash(ctypes.byref(sim), ctypes.c_uint32(h_c(op[1])), ctypes.c_int(op[2]))
                    elif t == "seth":
                        if 0 <= op[1] < sim.N:
                            sim._particles[op[1]]._hash = h_c(op[2])
                        else:
                            code = 0        # not expressible through the C API without leaving the array
                    elif t == "look":
                        clib.reb_simulation_particle_by_hash.restype = ctypes.c_void_p
                        a = clib.reb_simulation_particle_by_hash(ctypes.byref(sim), ctypes.c_uint32(h_c(op[1])))
                        if a:
                            off = a - ctypes.addressof(sim._particles.contents)
                            code, idx = (3, off // psz) if off % psz == 0 else (7, off)
                        else:
                            code = 2
                    elif t == "rmall":
                        clib.reb_simulation_remove_all_particles(ctypes.byref(sim))
                    elif t == "nact":
                        sim.N_active = op[1]
                    elif t == "nvar":
                        sim.N_var = op[1]
                    drain()
                else:
                    if t == "add":
                        try:
                            sim.add(m=float(op[2]), x=float(op[2]) * 1e-4, hash=h_py(op[1]))
                        except RuntimeError:
                            code = 0
                    elif t == "rmi":
                        try:
                            sim.remove(index=op[1], keep_sorted=bool(op[2])); code = 1
                        except RuntimeError:
                            code = 0
                    elif t == "rmh":
                        try:
                            sim.remove(hash=h_py(op[1]), keep_sorted=bool(op[2])); code = 1
                        except RuntimeError:
                            code = 0
                    elif t == "seth":
                        key = op[1] - sim.N if (rr.random() < 0.5 and 0 <= op[1] < sim.N) else op[1]
                        try:
                            sim.particles[key].hash = h_py(op[2])
                        except AttributeError:
                            code = 0
                    elif t == "look":
                        key = op[1][1] if op[1][0] == "n" else ctypes.c_uint32(op[1][1])
                        try:
                            p = sim.particles[key]; code, idx = 3, p.index
                        except rebound.ParticleNotFound:
                            code = 2
                    elif t == "rmall":
                        del sim.particles
                    elif t == "nact":
                        sim.N_active = op[1]
                    elif t == "nvar":
                        sim.N_var = op[1]
            except Exception as e:      # unexpected exception class
                code, idx = 7, 0
                extra = extra or "op %d %s raised %s: %s" % (k, op, type(e).__name__, e)
            ob = observe()
            rows.append([code, idx, ob[0], ob[1], ob[2]])
            cbev.append(list(cbcur)); del cbcur[:]
            if oracle is None and mode == "c":
                # free_particle_ap: exactly once per successful removal, and on the particle that is being removed
                ev = cbev[-1]
                if t in ("rmi", "rmh") and code == 1:
                    cand = ([spec.ps[op[1]][1]] if t == "rmi" and 0 <= op[1] < len(spec.ps)
                            else [q[1] for q in spec.ps if q[0] == hval(op[1])] if t == "rmh" else [])
                    if len(ev) != 1 or ev[0][0] not in cand:
                        oracle = {"op": k, "msg": "callback: free_particle_ap events %s, expected exactly one for particle id in %s" % (ev, cand), "opv": op}
                elif t == "rmall":
                    if [e[0] for e in ev] != [q[1] for q in spec.ps]:
                        oracle = {"op": k, "msg": "callback: remove-all called free_particle_ap for %s, expected once per particle in order %s"
                                  % ([e[0] for e in ev], [q[1] for q in spec.ps]), "opv": op}
                elif ev:
                    oracle = {"op": k, "msg": "callback: free_particle_ap called %d times by an operation that removed nothing" % len(ev), "opv": op}
            if oracle is None:
                msg = spec.step(op, code, idx, ob)
                if msg:
                    oracle = {"op": k, "msg": msg, "opv": op}
            if nact_bad is None and t != "nact" and ob[1] != -1 and not (0 <= ob[1] <= ob[0]) \
               and (nactprev == -1 or 0 <= nactprev <= nprev):
                nact_bad = {"op": k, "opv": op, "N": ob[0], "N_active": ob[1]}
            # container consistency (Python mode): len, iteration, negative index, slices, del item is a no-op
            if mode == "py" and oracle is None and rr.random() < 0.25:
                N, _, _, pl = ob
                ms = [q[1] for q in pl]
                c = None
                if len(sim.particles) != N:
                    c = "len(sim.particles)=%d, N=%d" % (len(sim.particles), N)
                elif [int(p.m) for p in sim.particles] != ms:
                    c = "iteration over sim.particles differs from the particle array"
                else:
                    a, b, st = rr.randint(-N - 2, N + 2), rr.randint(-N - 2, N + 2), rr.choice([1, 1, 2, -1, -2, 3])
                    if [int(p.m) for p in sim.particles[a:b:st]] != ms[a:b:st]:
                        c = "slice [%d:%d:%d] differs" % (a, b, st)
                    key = rr.randint(-N - 3, N + 3)
                    try:
                        got = sim.particles[key].index
                    except AttributeError:
                        got = -1
                    pyidx.append([N, key, got])
                    if N > 0:
                        del sim.particles[rr.randrange(N)]
                        if observe() != ob:
                            c = "del sim.particles[i] changed the simulation"
                if c:
                    oracle = {"op": k, "msg": "container: " + c, "opv": op}
        final = observe()[3]
        sim.N_var = 0
        cbstate["on"] = False          # reb_simulation_free_pointers calls the callback for the remaining particles
        out.append({"rows": rows, "final": final, "oracle": oracle, "nact_bad": nact_bad, "pyidx": pyidx, "extra": extra, "cb": cbev})
    json.dump(out, sys.stdout)



# ----------------------------------------------------------------------------- Python container layer (coq/C14/PyLayer.v)
def gen_pykey(rng, n):
    u = rng.random()
    if u < 0.5:
        return ["int", rng.randint(-n - 2, n + 2) if rng.random() < 0.9 else rng.choice([2**31, 2**32, -2**32, 2**70, -2**70])]
    if u < 0.75:
        return ["hash", rng.choice(INTS + [py_murmur(rng.choice(NAMES).encode()), -1, 2**32, 2**32 + 3, -2**32 + 7])]
    return ["str", rng.choice(NAMES)]


def gen_pyseq(rng, length):
    ops = []; n = 0; pid = 1
    while len(ops) < length:
        u = rng.random()
        if u < 0.28 or n == 0 and u < 0.6:
            ops.append(["add", gen_hash(rng), pid]); pid += 1; n += 1
        elif u < 0.42:
            ops.append(["get", gen_pykey(rng, n)])
        elif u < 0.54:
            ops.append(["set", gen_pykey(rng, n), gen_hash(rng), pid]); pid += 1
        elif u < 0.60:
            ops.append(["delitem", gen_pykey(rng, n)])
        elif u < 0.74:
            f = lambda: None if rng.random() < 0.3 else rng.randint(-n - 3, n + 3)
            ops.append(["slice", f(), f(), rng.choice([1, 1, 2, 3, -1, -1, -2, -3, 7, -7])])
        elif u < 0.78:
            ops.append(["len"])
        elif u < 0.97:
            v = rng.random()
            idx = None if v < 0.4 else (rng.randrange(n) if n and rng.random() < 0.7 else
                                        rng.choice([n, -1, n + 2, 2**31 - 1, -2**31, 2**31, 2**32, 2**32 + 1, -2**32, 2**40 + 2, 2**63 - 1, -2**63]))
            hk = None if 0.3 < v < 0.9 else (["int", rng.choice(INTS + [-1, 2**32 + 1, -2**32 + 2])] if rng.random() < 0.4 else gen_pykey(rng, 0) if False else rng.choice([["hash", rng.choice(INTS)], ["str", rng.choice(NAMES)]]))
            ops.append(["remove", idx, hk, 1 if rng.random() < 0.5 else 0])
            n = max(0, n - 1)
        else:
            ops.append(["delall"]); n = 0
    return {"pyops": ops}


def _pylayer_driver():
    import warnings
    warnings.simplefilter("ignore")
    import rebound
    from rebound import clibrebound as clib
    want = os.environ.get("C14_LIBDIR")
    if want and not os.path.realpath(clib._name).startswith(os.path.realpath(want) + os.sep):
        sys.exit(97)
    Particle = rebound.Particle
    seqs = json.load(sys.stdin)
    out = []

    def key(k):
        return k[1] if k[0] in ("int", "str") else ctypes.c_uint32(k[1])
    for sq in seqs:
        sim = rebound.Simulation()
        rows = []
        for op in sq["pyops"]:
            t = op[0]; code = 9; pay = []
            try:
                if t == "add":
                    sim.add(m=float(op[2]), x=float(op[2]) * 1e-4, hash=op[1][1])
                elif t == "get":
                    code, pay = 3, [sim.particles[key(op[1])].index]
                elif t == "set":
                    sim.particles[key(op[1])] = Particle(m=float(op[3]), x=float(op[3]) * 1e-4, hash=op[2][1])
                elif t == "delitem":
                    del sim.particles[key(op[1])]
                elif t == "slice":
                    code, pay = 4, [p.index for p in sim.particles[op[1]:op[2]:op[3]]]
                elif t == "len":
                    code, pay = 5, [len(sim.particles)]
                elif t == "remove":
                    kw = {"keep_sorted": bool(op[3])}
                    if op[1] is not None: kw["index"] = op[1]
                    if op[2] is not None: kw["hash"] = key(op[2])
                    sim.remove(**kw)
                elif t == "delall":
                    del sim.particles
            except AttributeError:
                code = 6
            except rebound.ParticleNotFound:
                code = 2
            except RuntimeError:
                code = 0
                for _ in range(12):       # a second queued error message must not surface in a later call
                    try:
                        sim.process_messages(); break
                    except RuntimeError:
                        pass
            except Exception as e:
                code = 7; pay = [0]
            rows.append([code, pay, sim.N, sim.N_active])
        fin = []
        for i in range(sim.N):
            q = sim.particles[i]
            ok = q.m == int(q.m) and q.x == q.m * 1e-4
            fin.append([q.hash.value, int(q.m) if ok else -1, bool(q.y != q.y)])
        out.append({"rows": rows, "final": fin})
    json.dump(out, sys.stdout)


def coq_pykey(k):
    if k[0] == "int":
        return "(KInt (%d)%%Z)" % k[1]
    if k[0] == "hash":
        return "(KHash %d)" % (k[1] % 2**32)       # ctypes.c_uint32(v) itself keeps the low 32 bits
    return "(KStr [%s])" % "; ".join(str(b) for b in k[1].encode("ascii"))


def coq_pyop(op):
    t = op[0]
    oz = lambda v: "None" if v is None else "(Some (%d)%%Z)" % v
    if t == "add":
        return "PyAdd (mkP %s %d false)" % (coq_hash(op[1]), op[2])
    if t == "get":
        return "PyGet %s" % coq_pykey(op[1])
    if t == "set":
        return "PySet %s (mkP %s %d false)" % (coq_pykey(op[1]), coq_hash(op[2]), op[3])
    if t == "delitem":
        return "PyDelItem %s" % coq_pykey(op[1])
    if t == "slice":
        return "PySlice %s %s (%d)%%Z" % (oz(op[1]), oz(op[2]), op[3])
    if t == "len":
        return "PyLen"
    if t == "remove":
        return "PyRemove %s %s %s" % (oz(op[1]), "None" if op[2] is None else "(Some %s)" % coq_pykey(op[2]), "true" if op[3] else "false")
    if t == "delall":
        return "PyDelAll"
    raise ValueError(op)


def pylayer_check(ctx, libdir):
    rng = ctx.rng
    seqs = [gen_pyseq(rng, rng.choice([20, 40, 80])) for _ in range(ctx.scale(60, 600))]
    for attempt in range(3):
        env = vlib.pyenv(libdir); env["C14_LIBDIR"] = libdir
        r = subprocess.run([vlib.PY, os.path.abspath(__file__), "--drive-pylayer"], env=env, input=json.dumps(seqs),
                           capture_output=True, text=True, timeout=900)
        if r.returncode != 97:
            break
        libdir = build_default(ctx)
    if r.returncode != 0:
        ctx.obligation("correspondence:C14 Python container layer", False, "driver exit %d: %s" % (r.returncode, r.stderr[-1500:]))
        return
    res = json.loads(r.stdout)
    # library-only oracle: an index outside [0,N) must make Simulation.remove fail and change nothing
    for sq, rs in zip(seqs, res):
        nprev = 0; hit = None
        for o, row in zip(sq["pyops"], rs["rows"]):
            # (only the index argument: with hash= also given, Simulation.remove goes on to the removal by hash)
            if o[0] == "remove" and o[1] is not None and o[2] is None and not (0 <= o[1] < nprev) and (row[0] != 0 or row[2] != nprev):
                hit = {"N_before": nprev, "op": o, "row_code_payload_N_Nactive": row}; break
            nprev = row[2]
        if hit:
            ctx.violation("py_remove_index_truncated", dict(hit, sequence=sq["pyops"][:sq["pyops"].index(hit["op"]) + 1]), True,
                          "Simulation.remove(index=%d) with N=%d did not fail: the index is truncated to 32 bits on its way to C" % (hit["op"][1], hit["N_before"]))
            break
    texts = []
    for sq, rs in zip(seqs, res):
        rows = "; ".join("(%d, [%s], %d, %d)%%Z" % (c, "; ".join(str(x) for x in pay), n, na) for c, pay, n, na in rs["rows"])
        fin = "; ".join("(%d%%N, %d%%N, %s)" % (p[0], p[1] if p[1] >= 0 else 4294967295999, "true" if p[2] else "false") for p in rs["final"])
        texts.append("([%s], [%s], [%s])" % ("; ".join(coq_pyop(o) for o in sq["pyops"]), rows, fin))
        ctx.evaluations += len(rs["rows"])
    hdr = ("From Coq Require Import List ZArith NArith Bool.\nFrom RV Require Import C14.Murmur C14.Model C14.PyLayer.\n"
           "Import ListNotations.\nOpen Scope N_scope.\n")
    jobs = []
    chunk = 15
    for c0 in range(0, len(texts), chunk):
        jobs.append(("c14_py%d" % (c0 // chunk), hdr + "Definition cases : list pycase := [\n" + ";\n".join(texts[c0:c0 + chunk]) +
                     "].\nEval vm_compute in (bad_py 0 cases).\n"))
    bad = []; ok_all = True; detail = ""
    for (name, ok, out), c0 in zip(vlib.coq_eval_many(jobs), range(0, len(texts), chunk)):
        b = vlib.parse_coq_list_nat(out) if ok else None
        if b is None:
            ok_all = False; detail = out[-1200:]
        else:
            bad += [c0 + x for x in b]
    if bad:
        detail = "first mismatching sequence: %s ; library rows: %s" % (json.dumps(seqs[bad[0]]["pyops"])[:900], json.dumps(res[bad[0]]["rows"])[:900])
    ctx.obligation("correspondence:C14 Python container layer (int/negative/str/c_uint32 keys, slices, __setitem__, del item, remove(index,hash), del all) "
                   "== PyLayer.v on %d sequences" % len(seqs), ok_all and not bad, detail)


# ----------------------------------------------------------------------------- MERCURIUS / TRACE bookkeeping (coq/C14/Hybrid.v)
def gen_hcase(rng):
    kind = rng.choice(["merc", "merc", "trace", "trace", "none"])
    n0 = rng.randint(1, 6)
    mode = rng.choice([0, 1, 1, 1]) if kind == "merc" else rng.choice([1, 3, 1, 2, 0]) if kind == "trace" else 0
    tree = rng.random() < 0.1
    nvar = 1 if rng.random() < 0.06 else 0
    nact = rng.choice([-1, -1, rng.randint(0, n0)])
    nd = rng.choice([0, max(0, n0 - 2), n0, n0, n0 + 2]) if kind == "merc" else 0
    cap = n0 + rng.choice([0, 1, 3])
    live = sorted(rng.sample(range(n0), rng.randint(1, n0)))
    emap = live + [rng.randint(50, 60) for _ in range(cap - len(live))]
    en = len(live)
    enact0 = rng.randint(1, en)
    ks = [1000 + k for k in range(cap * cap)] if kind == "trace" else []
    ops = []
    n = n0; cur = list(live); pid = n0 + 1; enact = enact0
    active = (kind == "merc" and mode == 1) or (kind == "trace" and mode in (1, 3))
    for _ in range(rng.randint(1, 3)):
        if rng.random() < 0.6:
            keep = 1 if rng.random() < 0.5 else 0
            u = rng.random()
            if active:
                if cur and u < 0.55:
                    i = rng.choice(cur)                       # a member of the encounter
                elif n > 0 and u < 0.88:
                    i = rng.randrange(n)                      # member or not
                else:
                    i = rng.choice([n, -1, n + 3])
            else:
                i = rng.randrange(n) if n and u < 0.8 else rng.choice([n, -1])
            ops.append(["rmi", i, keep])
            hybrid = kind != "none"
            ok = 0 <= i < n and not nvar and not (tree and (keep or hybrid))
            if ok:
                if active and not (kind == "trace" and mode == 3):
                    if i in cur:
                        pos = cur.index(i)
                        if pos < enact: enact -= 1
                    cur = [v - 1 if v > i else v for v in cur if v != i]
                if not (tree and not keep and not hybrid):
                    n -= 1
                if n == 0:
                    break
        else:
            if cap >= n + 1 or kind != "trace":         # TRACE: keep current_Ks inside the prefilled allocation (no realloc garbage)
                ops.append(["add", pid]); pid += 1
                if active:
                    cur = cur + [n]
                    if nact == -1: enact += 1
                n += 1
    return {"kind": kind, "mode": mode, "tree": tree, "nvar": nvar, "nact": nact, "n0": n0, "dcrit": [100 + i for i in range(nd)],
            "cap": cap, "emap": emap, "eN": en, "eNact": enact0, "ks": ks, "ops": ops}


def _hybrid_driver():
    import warnings
    warnings.simplefilter("ignore")
    import rebound
    from rebound import clibrebound as clib
    want = os.environ.get("C14_LIBDIR")
    if want and not os.path.realpath(clib._name).startswith(os.path.realpath(want) + os.sep):
        sys.exit(97)
    Particle = rebound.Particle
    libc = ctypes.CDLL(None)
    libc.malloc.restype = ctypes.c_void_p; libc.malloc.argtypes = [ctypes.c_size_t]
    clib.reb_simulation_remove_particle.restype = ctypes.c_int
    clib.reb_simulation_add.restype = None
    cases = json.load(sys.stdin)
    out = []
    for c in cases:
        sim = rebound.Simulation()
        if c["tree"]:
            sim.configure_box(BOX); sim.gravity = "tree"; sim.integrator = "leapfrog"; sim.dt = 1e-9; sim.step()
        for k in range(c["n0"]):
            p = Particle(); p.m = float(k + 1); p.x = float(k + 1) * 1e-4
            clib.reb_simulation_add(ctypes.byref(sim), p)
        if c["kind"] == "merc":
            sim.integrator = "mercurius"; ri = sim.ri_mercurius
        elif c["kind"] == "trace":
            sim.integrator = "trace"; ri = sim.ri_trace
        else:
            ri = None
        sim.N_active = c["nact"]; sim.N_var = c["nvar"]
        ids = set(c["dcrit"])
        if ri is not None:
            cap = c["cap"]
            em = libc.malloc(max(1, cap) * 4); ema = (ctypes.c_int * max(1, cap)).from_address(em)
            for i, v in enumerate(c["emap"]): ema[i] = v
            ri._encounter_map = ctypes.cast(em, ctypes.POINTER(ctypes.c_int))
            ri._particles_backup = ctypes.cast(libc.malloc(max(1, cap) * ctypes.sizeof(Particle)), ctypes.POINTER(Particle))
            ri._N_allocated = cap
            ri._encounter_N = c["eN"]; ri._encounter_N_active = c["eNact"]
            if c["kind"] == "merc":
                ri.mode = c["mode"]
                nd = len(c["dcrit"])
                if nd:
                    dm = libc.malloc(nd * 8); da = (ctypes.c_double * nd).from_address(dm)
                    for i, v in enumerate(c["dcrit"]): da[i] = float(v)
                    ri._dcrit = ctypes.cast(dm, ctypes.POINTER(ctypes.c_double))
                ri._N_allocated_dcrit = nd
                ri.recalculate_r_crit_this_timestep = 0; ri.recalculate_coordinates_this_timestep = 0
            else:
                ri._mode = c["mode"]
                km = libc.malloc(max(1, cap * cap) * 4); ka = (ctypes.c_int * max(1, cap * cap)).from_address(km)
                for i, v in enumerate(c["ks"]): ka[i] = v
                ri._current_Ks = ctypes.cast(km, ctypes.POINTER(ctypes.c_int))
                ri._particles_backup_kepler = ctypes.cast(libc.malloc(max(1, cap) * ctypes.sizeof(Particle)), ctypes.POINTER(Particle))

        def sgn(u):
            return u - (1 << 32) if u >= (1 << 31) else u

        def observe(ret):
            N = sim.N
            d = []; m = []; en = 0; ena = 0; kk = []; f1 = f2 = False
            if c["kind"] == "merc":
                nd = ri._N_allocated_dcrit
                for i in range(nd):
                    v = ri._dcrit[i]
                    d.append(int(v) if (v == v and abs(v) < 1e9 and v == int(v) and int(v) in ids) else -1)
                f1 = bool(ri.recalculate_r_crit_this_timestep); f2 = bool(ri.recalculate_coordinates_this_timestep)
            if ri is not None:
                en = sgn(ri._encounter_N); ena = sgn(ri._encounter_N_active)
                m = [ri._encounter_map[i] for i in range(max(0, min(en, ri._N_allocated)))]
                if c["kind"] == "trace":
                    kk = [ri._current_Ks[i] for i in range(N * N)] if N * N <= ri._N_allocated ** 2 else []
            return [ret, N, sim.N_active, d, m, en, ena, kk, f1, f2]
        rows = []
        for op in c["ops"]:
            if op[0] == "rmi":
                ret = clib.reb_simulation_remove_particle(ctypes.byref(sim), ctypes.c_int(op[1]), ctypes.c_int(op[2]))
            else:
                p = Particle(); p.m = float(op[1]); p.x = float(op[1]) * 1e-4
                clib.reb_simulation_add(ctypes.byref(sim), p); ret = 9
            try:
                sim.process_messages()
            except RuntimeError:
                pass
            rows.append(observe(ret))
        fin = [int(sim._particles[i].m) for i in range(sim.N)]
        sim.N_var = 0
        out.append({"rows": rows, "final": fin})
    json.dump(out, sys.stdout)


def coq_hcase(c, res):
    zl = lambda l: "[%s]" % "; ".join("(%d)" % v for v in l)
    b = lambda v: "true" if v else "false"
    setup = ["Add (mkP 0 %d false)" % (k + 1) for k in range(c["n0"])] + ["SetNActive (%d)%%Z" % c["nact"], "SetNVar %d%%nat" % c["nvar"]]
    kind = {"merc": "IMerc", "trace": "ITrace", "none": "INone"}[c["kind"]]
    hyb = "(mkH %s %d%%nat %s %s %d%%nat (%d) %s false false 0%%nat)" % (kind, c["mode"], zl(c["dcrit"]), zl(c["emap"] if c["kind"] != "none" else []),
                                                                     c["eN"] if c["kind"] != "none" else 0, c["eNact"] if c["kind"] != "none" else 0, zl(c["ks"]))
    ops = "; ".join(("HRemove (%d) %s" % (o[1], b(o[2]))) if o[0] == "rmi" else ("HAdd (mkP 0 %d false) garbage" % o[1]) for o in c["ops"])
    rows = "; ".join("(%d, %d, %d, %s, %s, %d, %d, %s, %s, %s)" % (r[0], r[1], r[2], zl(r[3]), zl(r[4]), r[5], r[6], zl(r[7]), b(r[8]), b(r[9])) for r in res["rows"])
    return "(%s, [%s], %s, [%s], [%s], [%s])" % (b(c["tree"]), "; ".join(setup), hyb, ops, rows, "; ".join("%d%%N" % v for v in res["final"]))


def hybrid_check(ctx, libdir):
    rng = ctx.rng
    cases = [gen_hcase(rng) for _ in range(ctx.scale(400, 6000))]
    for attempt in range(3):
        env = vlib.pyenv(libdir); env["C14_LIBDIR"] = libdir
        r = subprocess.run([vlib.PY, os.path.abspath(__file__), "--drive-hybrid"], env=env, input=json.dumps(cases),
                           capture_output=True, text=True, timeout=900)
        if r.returncode != 97:
            break
        libdir = build_default(ctx)
    if r.returncode != 0:
        ctx.obligation("correspondence:C14 hybrid bookkeeping", False, "driver exit %d: %s" % (r.returncode, r.stderr[-1500:]))
        return
    res = json.loads(r.stdout)
    if ctx.thorough:
        # the same cases on the ASan+UBSan build: the library reallocs / shifts the malloc'ed dcrit, encounter_map,
        # particles_backup*, current_Ks blocks; any access outside them is reported, and the rows must be identical
        try:
            adir = ctx.lib("default", cc="clang", extra_flags=["-fsanitize=address,undefined", "-fno-omit-frame-pointer",
                                                               "-fno-sanitize-recover=undefined", "-fno-sanitize=nonnull-attribute"], tag="asan")
            rt = subprocess.run(["clang", "-print-file-name=libclang_rt.asan-x86_64.so"], capture_output=True, text=True).stdout.strip()
            aenv = vlib.pyenv(adir); aenv.update({"C14_LIBDIR": adir, "ASAN_OPTIONS": "detect_leaks=0:symbolize=0", "LD_PRELOAD": rt})
            ra = subprocess.run([vlib.PY, os.path.abspath(__file__), "--drive-hybrid"], env=aenv, input=json.dumps(cases),
                                capture_output=True, text=True, timeout=1800)
            def _mask(rs):      # uninitialised dcrit entries (heap dependent) are not compared
                return [{"rows": [[v if j != 3 else len(v) for j, v in enumerate(row)] for row in x["rows"]], "final": x["final"]} for x in rs]
            same = ra.returncode == 0 and _mask(json.loads(ra.stdout)) == _mask(res)
            ctx.obligation("searcher:C14 hybrid cases on the ASan+UBSan build: no report, same rows (%d cases)" % len(cases), same,
                           " ".join(l for l in (ra.stderr or "").splitlines() if "Sanitizer" in l or "runtime error" in l)[:600] or
                           ("exit %d" % ra.returncode))
            if not same and not ctx.violations:
                ctx.violation("hybrid-asan", {"stderr": (ra.stderr or "")[-1500:], "exit": ra.returncode}, False,
                              "the MERCURIUS/TRACE bookkeeping cases behave differently or report an error on the sanitizer build")
        except Exception as ex:
            ctx.obligation("searcher:C14 hybrid cases on the ASan+UBSan build", False, repr(ex)[-400:])
    # library-only oracle for the encounter map: removing a mapped particle drops its entry and renumbers the later ones
    for c, x in zip(cases, res):
        act = (c["kind"] == "merc" and c["mode"] == 1) or (c["kind"] == "trace" and c["mode"] == 1)
        if c["kind"] == "trace" and c["mode"] == 3 and c["ops"] and (x["rows"][0][4] != c["emap"][:c["eN"]] or x["rows"][0][5] != c["eN"] or x["rows"][0][6] != c["eNact"]):
            ctx.violation("trace_full_mode_removal_wraps_encounter_N", {"state": {k: c[k] for k in ("mode", "n0", "emap", "eN", "eNact")}, "op": c["ops"][0],
                          "row": x["rows"][0]}, True, "in REB_TRACE_MODE_FULL an add/remove modified encounter_map / encounter_N / encounter_N_active")
            break
        if act and c["ops"] and c["ops"][0][0] == "rmi" and x["rows"][0][0] == 1:
            live = c["emap"][:c["eN"]]; i0 = c["ops"][0][1]
            if True:
                exp = [v for v in live if v < i0] + [v - 1 for v in live if v > i0]
                pos = live.index(i0) if i0 in live else -1
                exp_act = c["eNact"] - (1 if 0 <= pos < c["eNact"] else 0)
                if x["rows"][0][4] != exp or x["rows"][0][5] != len(exp) or x["rows"][0][6] != exp_act:
                    ctx.violation("encounter_map_renumbering", {"state": {k: c[k] for k in ("kind", "mode", "n0", "emap", "eN", "eNact")}, "op": c["ops"][0],
                                  "encounter_map_after": x["rows"][0][4], "encounter_N_after": x["rows"][0][5], "encounter_N_active_after": x["rows"][0][6],
                                  "expected_map": exp, "expected_N_active": exp_act, "member": pos >= 0}, True,
                                  "after a removal during the encounter step, encounter_map / encounter_N / encounter_N_active are not the renumbered "
                                  "list without the particle (counts must change iff it was a member)")
                    break
    # library-only oracle for TRACE current_Ks: after a successful removal in mode 1/3 the live matrix must be the old
    # matrix with row and column [index] deleted
    for c, x in zip(cases, res):
        if c["kind"] == "trace" and c["mode"] in (1, 3) and c["ops"] and c["ops"][0][0] == "rmi" and x["rows"][0][0] == 1:
            n, i0, cap = c["n0"], c["ops"][0][1], c["cap"]
            keepi = [a for a in range(n) if a != i0]
            exp = [c["ks"][a * n + b] for a in keepi for b in keepi]
            if x["rows"][0][7] != exp:
                ctx.violation("trace_current_Ks_misaligned_last_removed" if i0 == n - 1 else "trace_current_Ks_reshuffle",
                              {"state": {k: c[k] for k in ("mode", "n0", "emap", "eN", "eNact", "ks")}, "op": c["ops"][0],
                               "current_Ks_after": x["rows"][0][7], "expected": exp}, True,
                              "TRACE current_Ks is not the matrix with row/column %d removed after reb_simulation_remove_particle" % i0)
                break
    # library-only oracle for TRACE current_Ks after reb_simulation_add in mode 1/3: the column of the new particle must hold
    # 1 for the particles of the encounter list (star excluded) and 0 otherwise -- not whatever the block contained
    # (the cases prefill the block with sentinels >= 1000)
    for c, x in zip(cases, res):
        if c["kind"] == "trace" and c["mode"] in (1, 3) and c["ops"] and c["ops"][0][0] == "add" and x["rows"][0][7]:
            n = c["n0"] + 1; kk = x["rows"][0][7]
            col = [kk[a * n + (n - 1)] for a in range(n - 1)]
            if any(v not in (0, 1) for v in col):
                ctx.violation("trace_add_Ks_new_column_uninitialised",
                              {"state": {k: c[k] for k in ("mode", "n0", "cap", "emap", "eN", "eNact", "ks")}, "op": c["ops"][0],
                               "new_column_after_add": col}, True,
                              "reb_simulation_add (TRACE) never writes the current_Ks entries of the new particle for particles outside the "
                              "encounter list: they keep stale / uninitialised memory")
                break
    texts = [coq_hcase(c, x) for c, x in zip(cases, res)]
    ctx.evaluations += sum(len(x["rows"]) for x in res)
    hdr = ("From Coq Require Import List ZArith NArith Bool.\nFrom RV Require Import C14.Model C14.Hybrid.\n"
           "Import ListNotations.\nOpen Scope Z_scope.\n")
    jobs = []; chunk = 100
    for c0 in range(0, len(texts), chunk):
        jobs.append(("c14_hy%d" % (c0 // chunk), hdr + "Definition cases : list hcase := [\n" + ";\n".join(texts[c0:c0 + chunk]) +
                     "].\nEval vm_compute in (bad_h 0 cases).\n"))
    bad = []; ok_all = True; detail = ""
    for (name, ok, out), c0 in zip(vlib.coq_eval_many(jobs), range(0, len(texts), chunk)):
        b = vlib.parse_coq_list_nat(out) if ok else None
        if b is None:
            ok_all = False; detail = out[-1200:]
        else:
            bad += [c0 + x for x in b]
    if bad:
        ok, out = vlib.coq_eval("c14_hydiag", hdr + "Eval vm_compute in (hdiag %s).\n" % texts[bad[0]])
        detail = "first mismatching case: %s ; library rows %s ; model %s" % (json.dumps(cases[bad[0]])[:700], json.dumps(res[bad[0]])[:500], out[-700:])
    dist = {}
    for c in cases:
        key = "%s|mode=%d|%s" % (c["kind"], c["mode"], ",".join(o[0] for o in c["ops"]))
        dist[key] = dist.get(key, 0) + 1
    ctx.extra["hybrid_case_distribution"] = dict(sorted(dist.items())[:40])
    ctx.obligation("correspondence:C14 MERCURIUS/TRACE bookkeeping of add/remove (dcrit, encounter_map, encounter_N, encounter_N_active, current_Ks, flags) "
                   "== Hybrid.v on %d cases (state set through ctypes)" % len(cases), ok_all and not bad, detail)

if __name__ == "__main__" and len(sys.argv) >= 2 and sys.argv[1] == "--drive-hybrid":
    _hybrid_driver()
    sys.exit(0)

if __name__ == "__main__" and len(sys.argv) >= 2 and sys.argv[1] == "--drive-pylayer":
    _pylayer_driver()
    sys.exit(0)

if __name__ == "__main__" and len(sys.argv) >= 3 and sys.argv[1] == "--drive":
    sys.path.insert(0, os.path.dirname(os.path.abspath(__file__)))
    _driver(sys.argv[2])
    sys.exit(0)

import vlib


REBUILD = {}


def drive(libdir, mode, seqs, env_extra=None, timeout=600):
    """Run sequences in a child process. Returns (list of per-sequence results | None, diagnostic)."""
    env = vlib.pyenv(libdir)
    env["C14_LIBDIR"] = libdir
    if env_extra:
        env.update(env_extra)
    for attempt in range(3):
        r = subprocess.run([vlib.PY, os.path.abspath(__file__), "--drive", mode], env=env, input=json.dumps(seqs),
                           capture_output=True, text=True, timeout=timeout)
        if r.returncode == 97 and REBUILD.get(libdir):
            # the cached build directory was evicted / the tree changed under a concurrently running check: build again, retry
            nd = REBUILD[libdir]()
            REBUILD[nd] = REBUILD[libdir]
            env.update(vlib.pyenv(nd)); env["C14_LIBDIR"] = nd
            if env_extra:
                env.update(env_extra)
            continue
        break
    if r.returncode != 0:
        return None, "driver exit %d: %s" % (r.returncode, (r.stderr or "")[-3000:])
    try:
        return json.loads(r.stdout), r.stderr[-2000:]
    except ValueError:
        return None, "driver output unreadable: " + r.stdout[-500:] + r.stderr[-1500:]


# ----------------------------------------------------------------------------- Coq text
def coq_hash(hs):
    if hs[0] == "n":
        return "(reb_hash [%s])" % "; ".join(str(b) for b in hs[1].encode("ascii"))
    return "%d" % hs[1]


def coq_op(op):
    t = op[0]
    if t == "add":
        return "Add (mkP %s %d false)" % (coq_hash(op[1]), op[2])
    if t == "rmi":
        return "RemoveIdx (%d)%%Z %s" % (op[1], "true" if op[2] else "false")
    if t == "rmh":
        return "RemoveHash %s %s" % (coq_hash(op[1]), "true" if op[2] else "false")
    if t == "seth":
        return "SetHash %d%%nat %s" % (op[1], coq_hash(op[2]))
    if t == "look":
        return "Lookup %s" % coq_hash(op[1])
    if t == "rmall":
        return "RemoveAll"
    if t == "nact":
        return "SetNActive (%d)%%Z" % op[1]
    if t == "nvar":
        return "SetNVar %d%%nat" % op[1]
    raise ValueError(op)


def coq_case(sq, res):
    # a user write of N_active was clamped to N by the driver: take the value actually written from the observed row
    sq = dict(sq, ops=[(["nact", r[3]] if o[0] == "nact" else o) for o, r in zip(sq["ops"], res["rows"])])
    rows = "; ".join("(%d, %d, %d, %d, %d)%%Z" % tuple(r) for r in res["rows"])
    fin = "; ".join("(%d, %d, %s)" % (max(p[0], 0), max(p[1], 0) if p[1] >= 0 else 4294967295999, "true" if p[2] else "false")
                    for p in res["final"])
    return "(%s, [%s], [%s], [%s])" % ("true" if sq["tree"] else "false", "; ".join(coq_op(o) for o in sq["ops"]), rows, fin)


HEADER = ("From Coq Require Import List ZArith NArith Bool.\nFrom RV Require Import C14.Murmur C14.Model C14.Run.\n"
          "Import ListNotations.\nOpen Scope N_scope.\n")


def qsort_is_stable():
    """Probe the platform qsort with the comparator of particle.c on (hash,index) pairs with many equal hashes."""
    libc = ctypes.CDLL(None)
    class Pair(ctypes.Structure):
        _fields_ = [("hash", ctypes.c_uint32), ("index", ctypes.c_int)]
    CMP = ctypes.CFUNCTYPE(ctypes.c_int, ctypes.POINTER(Pair), ctypes.POINTER(Pair))
    cmp = CMP(lambda a, b: (a.contents.hash > b.contents.hash) - (a.contents.hash < b.contents.hash))
    import random
    r = random.Random(7)
    for n in (2, 3, 7, 8, 9, 31, 64, 130, 300, 600):
        for _ in range(6):
            arr = (Pair * n)()
            for i in range(n):
                arr[i].hash = r.choice([0, 1, 2, 3, 5, 7]); arr[i].index = i
            libc.qsort(arr, n, ctypes.sizeof(Pair), cmp)
            for i in range(n - 1):
                if arr[i].hash == arr[i + 1].hash and arr[i].index > arr[i + 1].index:
                    return False
    return True


# ----------------------------------------------------------------------------- shrinking
def shrink(libdir, mode, sq, pred, env_extra=None, budget=40):
    """Greedy delta debugging: drop blocks of operations while pred(result) still holds."""
    ops = list(sq["ops"])
    size = max(1, len(ops) // 2)
    rounds = 0
    while size >= 1 and rounds < budget:
        cands = []
        for s in range(0, len(ops), size):
            c = ops[:s] + ops[s + size:]
            if c:
                cands.append(c)
        if not cands:
            break
        rounds += 1
        res, _ = drive(libdir, mode, [{"tree": sq["tree"], "ops": c, "seed": sq.get("seed", 0)} for c in cands], env_extra)
        hit = None
        if res is not None:
            for c, r in zip(cands, res):
                if pred(r):
                    hit = c; break
        else:   # the batch crashed: test candidates one by one
            for c in cands:
                r1, _ = drive(libdir, mode, [{"tree": sq["tree"], "ops": c, "seed": sq.get("seed", 0)}], env_extra)
                if r1 is None or pred(r1[0]):
                    hit = c; break
        if hit is not None:
            ops = hit
            size = min(size, max(1, len(ops) // 2))
        else:
            size //= 2
    return {"tree": sq["tree"], "ops": ops, "seed": sq.get("seed", 0)}


def truncate_at(sq, k):
    return {"tree": sq["tree"], "ops": sq["ops"][:k + 1], "seed": sq.get("seed", 0), "profile": sq.get("profile")}


# ----------------------------------------------------------------------------- main
def run(ctx):
    libdir = build_default(ctx)
    REBUILD[libdir] = lambda: build_default(ctx)
    proved = ctx.prove("C14", extra_targets=["C14/Run.vo", "C14/PyLayer.vo", "C14/Hybrid.vo", "C14/HybridProofs.vo", "C14/StepGuard.vo", "C14/Callback.vo"])
    rng = ctx.rng
    stable = qsort_is_stable()
    ctx.assumptions.append("platform qsort keeps equal hashes in index order (probed: %s); with an unstable qsort the exact "
                           "index returned among duplicate hashes is not compared (sequences then avoid duplicate non-zero hashes)" % stable)

    ctx.log("phase done: prove")
    # ---------------- sequences
    nseq = ctx.scale(160, 800)
    seqs = []
    profiles = ["small", "small", "tiny", "tree", "tinytree", "growth", "growth", "boundary", "tiny", "tree"]
    for k in range(nseq):
        prof = profiles[k % len(profiles)]
        ln = {"small": rng.choice([12, 30, 60, 200]), "tree": rng.choice([15, 40, 120]), "tiny": rng.choice([8, 25, 60]),
              "tinytree": rng.choice([8, 25, 60]),
              "growth": 200, "boundary": rng.choice([160, 200])}[prof]
        if ctx.thorough and prof in ("growth", "boundary") and k % 5 == 0:
            ln = 420
        sq = gen_seq(rng, prof, ln, dups=stable)
        sq["seed"] = rng.randrange(1 << 30)
        seqs.append(sq)

    results = {}
    crashed = {}
    for mode in ("c", "py"):
        res, diag = drive(libdir, mode, seqs)
        if res is None:
            # find the crashing sequence
            res = []
            for sq in seqs:
                r1, d1 = drive(libdir, mode, [sq])
                if r1 is None:
                    crashed[mode] = (sq, d1); res.append(None)
                else:
                    res.append(r1[0])
        results[mode] = res

    for mode, (sq, d) in crashed.items():
        small = shrink(libdir, mode, sq, lambda r: False)   # pred false: only crashes (res None) count
        ctx.violation("crash:" + mode, {"mode": mode, "sequence": small, "diagnostic": d[-1500:]}, True,
                      "the library crashed while executing an add/remove/hash sequence (%s API)" % mode)

    ctx.log("phase done: drivers")
    # ---------------- searcher verdicts (library vs independent list specification)
    n_or = 0
    first_fail = None
    first_nact = None
    for mode in ("c", "py"):
        for sq, r in zip(seqs, results[mode]):
            if r is None:
                continue
            n_or += len(r["rows"])
            ctx.evaluations += len(r["rows"])
            if r["oracle"] and first_fail is None:
                first_fail = (mode, sq, r)
            if r["extra"] and first_fail is None:
                first_fail = (mode, sq, dict(r, oracle={"op": 0, "msg": r["extra"], "opv": None}))
            if r["nact_bad"] and first_nact is None:
                first_nact = (mode, sq, r)
    if first_fail:
        mode, sq, r = first_fail
        cut = truncate_at(sq, r["oracle"]["op"])
        small = shrink(libdir, mode, cut, lambda x: bool(x["oracle"]) or bool(x["extra"]))
        rs, _ = drive(libdir, mode, [small])
        ctx.violation("bookkeeping:" + (r["oracle"]["msg"].split(":")[0]), {"mode": mode, "sequence": small,
                      "library_vs_spec": rs[0]["oracle"] if rs else r["oracle"], "rows": rs[0]["rows"] if rs else None}, True,
                      "particle bookkeeping differs from the list specification (%s API): %s" % (mode, r["oracle"]["msg"]))
    if first_nact:
        mode, sq, r = first_nact
        cut = truncate_at(sq, r["nact_bad"]["op"])
        small = shrink(libdir, mode, cut, lambda x: bool(x["nact_bad"]))
        rs, _ = drive(libdir, mode, [small])
        ctx.violation("nactive_exceeds_N", {"mode": mode, "sequence": small, "state": rs[0]["nact_bad"] if rs else r["nact_bad"]}, True,
                      "N_active is left outside 0..N by an operation other than a direct write of N_active")

    ctx.log("phase done: searcher")
    # ---------------- correspondence: model (vm_compute) vs library, both APIs
    cases = []
    for mode in ("c", "py"):
        for k, (sq, r) in enumerate(zip(seqs, results[mode])):
            if r is None:
                continue
            cases.append((mode, k, coq_case(sq, r)))
            ctx.case(key=(sq["profile"], mode, len(sq["ops"]), r["rows"][-1][2] if r["rows"] else 0),
                     sample={"api": mode, "profile": sq["profile"], "ops": sq["ops"][:6], "rows": r["rows"][:6]} if k < 2 else None)
    chunk = 6
    jobs = []
    for c0 in range(0, len(cases), chunk):
        body = HEADER + "Definition cases : list case := [\n" + ";\n".join(c[2] for c in cases[c0:c0 + chunk]) + \
            "].\nEval vm_compute in (bad_cases cases).\n"
        jobs.append(("c14_%d" % (c0 // chunk), body))
    bad = []
    corr_ok = True
    for (name, ok, out), c0 in zip(vlib.coq_eval_many(jobs), range(0, len(cases), chunk)):
        b = vlib.parse_coq_list_nat(out) if ok else None
        if b is None:
            corr_ok = False
            ctx.obligation("correspondence:C14:" + name, False, out[-1500:])
        else:
            bad += [c0 + x for x in b]
    detail = ""
    if bad:
        mode, k, text = cases[bad[0]]
        ok, out = vlib.coq_eval("c14_diag", HEADER + "Eval vm_compute in (diag %s).\n" % text)
        detail = "first mismatching case: api=%s sequence #%d (%s); model-vs-library first differing row: %s" % (
            mode, k, seqs[k]["profile"], out[-600:])
    ctx.traces = len(cases) if corr_ok else 0
    ctx.obligation("correspondence:C14 model(vm_compute) == library rows+final particles on %d runs (%d operations; C API and Python container)"
                   % (len(cases), n_or), corr_ok and not bad, detail)
    if bad and not ctx.violations:
        mode, k, _ = cases[bad[0]]
        ctx.violation("model-mismatch", {"mode": mode, "sequence": seqs[k], "library_rows": results[mode][k]["rows"],
                                        "diagnostic": detail}, False,
                      "the library's behaviour on this sequence differs from the verified model of particle.c, so the theorems "
                      "no longer describe the code (the list specification itself was not violated on the sequences explored)")

    ctx.log("phase done: corr-main")
    # ---------------- free_particle_ap callback events (C API): model Callback.v + library-only oracle
    cbtexts = []; cb_bad = None
    for k, (sq, r) in enumerate(zip(seqs, results["c"])):
        if r is None or "cb" not in r:
            continue
        ops2 = [(["nact", row[3]] if o[0] == "nact" else o) for o, row in zip(sq["ops"], r["rows"])]
        cbtexts.append("(%s, [%s], [%s])" % ("true" if sq["tree"] else "false", "; ".join(coq_op(o) for o in ops2),
                       "; ".join("[%s]" % "; ".join("(%d, %s)" % (max(e[0], 0), "true" if e[1] else "false") for e in ev) for ev in r["cb"])))
        for o, row, ev in zip(sq["ops"], r["rows"], r["cb"]):
            want = 1 if (o[0] in ("rmi", "rmh") and row[0] == 1) else 0
            if o[0] != "rmall" and len(ev) != want and cb_bad is None:
                cb_bad = {"sequence": sq, "op": o, "callback_events": ev, "expected_calls": want}
    if cb_bad:
        ctx.violation("callback-count", cb_bad, True, "free_particle_ap was not called exactly once for a removed particle (or was called for a failed request)")
    if cbtexts:
        hdrc = ("From Coq Require Import List ZArith NArith Bool.\nFrom RV Require Import C14.Murmur C14.Model C14.Callback.\n"
                "Import ListNotations.\nOpen Scope N_scope.\n")
        jobsc = []
        for c0 in range(0, len(cbtexts), 8):
            jobsc.append(("c14_cb%d" % (c0 // 8), hdrc + "Definition cases : list cbcase := [\n" + ";\n".join(cbtexts[c0:c0 + 8]) +
                          "].\nEval vm_compute in (bad_cb 0 cases).\n"))
        badc = []; okc = True; detc = ""
        for (name, ok, out), c0 in zip(vlib.coq_eval_many(jobsc), range(0, len(cbtexts), 8)):
            b = vlib.parse_coq_list_nat(out) if ok else None
            if b is None:
                okc = False; detc = out[-800:]
            else:
                badc += [c0 + x for x in b]
        ctx.obligation("correspondence:C14 free_particle_ap events (which particle, in which state, per operation) == Callback.v on %d runs" % len(cbtexts),
                       okc and not badc, detc or "mismatching runs %s" % badc[:5])

    ctx.log("phase done: callback")
    # ---------------- Murmur model vs reb_hash
    clib = vlib.load_clib(build_default(ctx))
    clib.reb_hash.restype = ctypes.c_uint32
    hc = []
    nh = ctx.scale(400, 6000)
    for k in range(nh):
        ln = k % 41 if k < 82 else rng.choice([255, 256, 257, 1023, 4099]) if k < 90 else rng.randint(0, 40)
        kind = rng.random()
        if kind < 0.4:
            bs = bytes(rng.randint(1, 255) for _ in range(ln))
        elif kind < 0.8:
            bs = bytes(rng.randint(32, 126) for _ in range(ln))
        else:
            bs = bytes(rng.choice([1, 127, 128, 255]) for _ in range(ln))
        hc.append((bs, clib.reb_hash(ctypes.c_char_p(bs))))
    hbad = []
    hjobs = []
    for c0 in range(0, len(hc), 500):
        body = HEADER + "Definition hs : list (list N * N) := [\n" + ";\n".join(
            "([%s], %d)" % ("; ".join(str(b) for b in bs), e) for bs, e in hc[c0:c0 + 500]) + "].\nEval vm_compute in (bad_hashes 0 hs).\n"
        hjobs.append(("c14_h%d" % (c0 // 500), body))
    hok = True
    for (name, ok, out), c0 in zip(vlib.coq_eval_many(hjobs), range(0, len(hc), 500)):
        b = vlib.parse_coq_list_nat(out) if ok else None
        if b is None:
            hok = False; ctx.obligation("correspondence:C14:" + name, False, out[-1500:])
        else:
            hbad += [c0 + x for x in b]
    pybad = [bs for bs, e in hc if py_murmur(bs) != e]
    ctx.evaluations += len(hc)
    ctx.obligation("correspondence:C14 Murmur model == reb_hash on %d byte strings (lengths 0..40, bytes 1..255)" % len(hc),
                   hok and not hbad, "mismatch on %s" % [hc[i][0].hex() for i in hbad[:5]])
    if (hbad or pybad) and not ctx.violations:
        bs = hc[hbad[0]][0] if hbad else pybad[0]
        ctx.violation("reb_hash", {"bytes_hex": bs.hex(), "library": clib.reb_hash(ctypes.c_char_p(bs)), "murmur3_x86_32_seed1983": py_murmur(bs)},
                      True, "reb_hash differs from MurmurHash3_x86_32(seed 1983)")

    ctx.log("phase done: murmur")
    # ---------------- Python container index normalisation vs py_index
    pyi = [t for r in results["py"] if r for t in r["pyidx"]][:2000]
    if pyi:
        body = HEADER + "Definition xs : list (nat * Z * Z) := [\n" + ";\n".join("(%d%%nat, (%d)%%Z, (%d)%%Z)" % tuple(t) for t in pyi) + \
            "].\nEval vm_compute in (bad_pyidx 0 xs).\n"
        ok, out = vlib.coq_eval("c14_pyidx", body)
        b = vlib.parse_coq_list_nat(out) if ok else None
        ctx.obligation("correspondence:C14 py_index == Particles.__getitem__(int) on %d keys" % len(pyi), b == [],
                       out[-800:] if b is None else "mismatch: %s" % [pyi[i] for i in (b or [])[:5]])

    ctx.log("phase done: pyidx")
    # ---------------- Python container layer
    pylayer_check(ctx, build_default(ctx))

    ctx.log("phase done: pylayer")
    # ---------------- MERCURIUS / TRACE bookkeeping vs Hybrid.v
    hybrid_check(ctx, build_default(ctx))

    ctx.log("phase done: hybrid")
    # ---------------- MERCURIUS bookkeeping scenarios (library only)
    mercurius_scenarios(ctx, build_default(ctx))

    ctx.log("phase done: merc-scen")
    # ---------------- tree re-insertion under MERCURIUS / TRACE
    tree_reinsert_probe(ctx, build_default(ctx))

    # ---------------- remove-all and the variational configurations
    remove_all_var_config_probe(ctx, build_default(ctx))

    # ---------------- remove-all under a tree
    remove_all_tree_probe(ctx, build_default(ctx))

    ctx.log("phase done: rmall-tree")
    # ---------------- unsigned TRACE bookkeeping through the public API
    trace_full_mode_probe(ctx, build_default(ctx))

    ctx.log("phase done: trace-full")
    # ---------------- history vs fresh object
    history_vs_fresh_probe(ctx, build_default(ctx))

    # ---------------- failed part1 / changed N: integrator arrays of an earlier N must not be touched
    failed_step_probe(ctx, build_default(ctx))

    ctx.log("phase done: failed-step")
    # ---------------- real variational particles: removal refused, simulation unchanged
    vres, vd = drive_variation(libdir)
    ctx.obligation("searcher:C14 removal with real variational particles (add_variation) is refused and changes nothing",
                   vres is True, str(vd))
    if vres is not True and not ctx.violations:
        ctx.violation("variational-removal", {"detail": vd}, True, "removal with variational particles present was not refused cleanly")

    # ---------------- thorough: ASan + UBSan build
    if ctx.thorough:
        run_asan(ctx, seqs)

    dist = {}
    for sq in seqs:
        for o in sq["ops"]:
            dist[sq["profile"] + ":" + o[0]] = dist.get(sq["profile"] + ":" + o[0], 0) + 1
    ctx.extra["input_distribution"] = dist
    ctx.extra["max_N_reached"] = max([row[2] for m in results for r in results[m] if r for row in r["rows"]] or [0])
    ctx.rule = ("random operation sequences (profiles small / tree / growth / boundary-of-allocation) of length 12..200 (thorough: ..420), "
                "hash alphabet of 9 strings + {0,1,2,3,7,2^32-1}; each sequence is run through the C API and through the Python container; "
                "a case is distinct by (profile, API, length, final N)")
    ctx.assumptions += [
        "integrator is not MERCURIUS/TRACE (their bookkeeping blocks in add/remove are not modelled); free_particle_ap is NULL; no boundary box check; no MPI",
        "the tree is represented by the flag tree_root != NULL only; remove-all and tree contents after additions are not examined",
        "direct writes of N_active in the sequences are consistent when made (-1 or 0..N), as the theorems assume (run_ok)",
        "N_var is set as a plain field in the random sequences (one separate scenario uses real add_variation())",
        "thorough tier sanitizer build: -fsanitize=address,undefined minus nonnull-attribute (qsort(NULL,0,..) is called when a lookup "
        "happens before any table was allocated: formally undefined, harmless, not an access outside the storage)",
        "theorems are about the hand-written model coq/C14/Model.v, tied to the current particle.c by the per-operation correspondence (not by translation)",
    ]



MERC_SCRIPT = r"""
import warnings; warnings.simplefilter("ignore")
import rebound, json, sys
which = sys.argv[1]
sim = rebound.Simulation()
sim.integrator = "mercurius"; sim.dt = 0.01
sim.add(m=1.); sim.add(m=1e-3, a=1.); sim.add(m=1e-3, a=2.)
if which == "tree":
    sim.configure_box(100.); sim.collision = "tree"
    for p in sim.particles: p.r = 1e-4
sim.step()
rim = sim.ri_mercurius
nd = rim._N_allocated_dcrit
dc = lambda: [rim._dcrit[i] for i in range(nd)]
if which == "tree":
    before = dc(); ob = [(p.m, p.x) for p in sim.particles]
    try:
        sim.remove(1); failed = False
    except RuntimeError:
        failed = True
    print(json.dumps({"failed": failed, "N": sim.N, "particles_same": ob == [(p.m, p.x) for p in sim.particles],
                      "dcrit_before": before, "dcrit_after": dc(), "tree": bool(sim._tree_root)}))
else:
    sim.add(m=1e-3, a=3.); sim.add(m=1e-3, a=4.)
    sim.remove(0)
    print(json.dumps({"N": sim.N, "N_allocated_dcrit": nd}))
"""


def mercurius_scenarios(ctx, libdir):
    d = os.path.join(vlib.BUILD, "cases"); os.makedirs(d, exist_ok=True)
    f = os.path.join(d, "c14_merc.py"); open(f, "w").write(MERC_SCRIPT)
    try:
        r = vlib.run_py(libdir, f, ["tree"], timeout=120)
    except subprocess.TimeoutExpired:
        ctx.obligation("searcher:C14 MERCURIUS refused-removal scenario completes", False, "timeout"); return
    if r.returncode != 0:
        ctx.obligation("searcher:C14 MERCURIUS refused-removal scenario completes", False, (r.stderr or "")[-800:]); return
    o = json.loads(r.stdout.strip().splitlines()[-1])
    ctx.evaluations += 1
    if o["failed"] and o["dcrit_before"] != o["dcrit_after"]:
        ctx.violation("mercurius_refused_removal_shifts_dcrit", {"scenario": "mercurius; 3 bodies r=1e-4; configure_box(100); collision='tree'; step(); remove(1)", "observed": o},
                      True, "a refused removal (tree present, keep_sorted forced by MERCURIUS) modified ri_mercurius.dcrit")
    if ctx.thorough:
        rt = subprocess.run(["clang", "-print-file-name=libclang_rt.asan-x86_64.so"], capture_output=True, text=True).stdout.strip()
        try:
            adir = ctx.lib("default", cc="clang", extra_flags=["-fsanitize=address,undefined", "-fno-omit-frame-pointer",
                                                               "-fno-sanitize-recover=undefined", "-fno-sanitize=nonnull-attribute"], tag="asan")
            env = vlib.pyenv(adir); env.update({"ASAN_OPTIONS": "detect_leaks=0:symbolize=0", "LD_PRELOAD": rt})
            r = subprocess.run([vlib.PY, f, "grow"], env=env, capture_output=True, text=True, timeout=180, stdin=subprocess.DEVNULL)
            if "AddressSanitizer" in (r.stderr or "") and "heap-buffer-overflow" in r.stderr:
                ctx.violation("mercurius_dcrit_overflow", {"scenario": "mercurius; 3 bodies; step(); add 2 bodies; remove(0)", "report": r.stderr[:1500]},
                              True, "the dcrit shift of reb_simulation_remove_particle reads past N_allocated_dcrit")
        except Exception as e:
            ctx.obligation("searcher:C14 MERCURIUS dcrit scenario under ASan completes", False, repr(e)[-500:])


# ----------------------------------------------------------------------------- a step that fails in part1 must not touch
# integrator arrays sized for an earlier N
FAILED_STEP_SCRIPT = r"""import sys, json, math, warnings
warnings.simplefilter("ignore")
import rebound
integ, setting, change = sys.argv[1], sys.argv[2], sys.argv[3]
s = rebound.Simulation()
s.add(m=1.); s.add(m=1e-3, a=1., e=0.05); s.add(m=5e-4, a=1.8, e=0.1, f=1.); s.add(m=3e-4, a=2.9, e=0.03, f=2.)
s.integrator = integ; s.dt = 0.05
s.steps(1)
def apply_setting():
    if setting == "coords_whds": s.ri_whfast.coordinates = "whds"
    elif setting == "coords_dh": s.ri_whfast.coordinates = "democraticheliocentric"
    elif setting == "coords_bary": s.ri_whfast.coordinates = "barycentric"
    elif setting == "corrector_bad": s.ri_whfast.corrector = 4
    elif setting == "kernel_bad": s.ri_whfast.kernel = 7
    elif setting == "kernel_nonjacobi": s.ri_whfast.kernel = "modifiedkick"; s.ri_whfast.coordinates = "whds"
    elif setting == "keep_unsync": (setattr(s.ri_whfast, "keep_unsynchronized", 1) if integ == "whfast" else setattr(s.ri_saba, "keep_unsynchronized", 1))
    elif setting == "saba_type_bad": s.ri_saba._type = 0x50 if hasattr(s.ri_saba, "_type") else None
    elif setting == "janus_order_bad": s.ri_janus.order = 3
    elif setting == "gravity_tree": s.configure_box(100.); s.gravity = "tree"
    elif setting == "collision_tree": s.configure_box(100.); s.collision = "tree"
    elif setting == "none": pass
def apply_change():
    if change == "grow": s.add(m=1e-4, a=4.); s.add(m=1e-4, a=5.2, f=1.)
    elif change == "addvar": v = s.add_variation(); v.particles[1].x = 1e-3
    elif change == "shrink": s.remove(3); s.remove(2)
    elif change == "grow_shrink": s.add(m=1e-4, a=4.); s.add(m=1e-4, a=5.2, f=1.); s.add(m=1e-4, a=7., f=2.); s.remove(1)
    elif change == "none": pass
apply_change(); apply_setting()
def snap(): return [(p.x, p.y, p.z, p.vx, p.vy, p.vz, p.m) for p in s.particles]
before = snap(); t0 = s.t; N0 = s.N
exc = None
try:
    s.steps(1)
except RuntimeError as e:
    exc = str(e)[:80]
after = snap()
same = all((a == b) or (a != a and b != b) for A, B in zip(before, after) for a, b in zip(A, B)) and len(before) == len(after)
finite = all(math.isfinite(x) for A in after for x in A)
na = None
for nm in ("ri_whfast",):
    try: na = getattr(s, nm)._N_allocated
    except Exception: pass
print(json.dumps({"exc": exc, "t_advanced": s.t != t0, "same": same, "finite": finite, "N": s.N, "N0": N0, "whfast_N_allocated": na}))
"""

FAILED_STEP_SCENARIOS = (
    [("whfast", st, "addvar") for st in ("coords_whds", "coords_dh", "coords_bary")] +
    [("whfast", st, ch) for st in ("corrector_bad", "kernel_bad", "kernel_nonjacobi", "keep_unsync", "none") for ch in ("grow", "shrink", "grow_shrink", "addvar")] +
    [("saba", st, ch) for st in ("coords_whds", "coords_dh", "saba_type_bad", "keep_unsync", "none") for ch in ("grow", "shrink", "grow_shrink")] +
    [("saba", "none", "addvar")] +
    [("janus", st, ch) for st in ("janus_order_bad", "none") for ch in ("grow", "shrink", "grow_shrink")] +
    [("bs", "none", ch) for ch in ("grow", "shrink", "addvar")] +
    [("ias15", "none", ch) for ch in ("grow", "shrink", "addvar", "grow_shrink")] +
    [(ig, st, ch) for ig in ("mercurius", "trace") for st in ("collision_tree", "gravity_tree", "none") for ch in ("grow", "shrink", "grow_shrink")] +
    [("eos", st, ch) for st in ("gravity_tree", "none") for ch in ("grow", "shrink")] +
    [("leapfrog", "none", "grow"), ("sei", "none", "grow")]
)


def failed_step_probe(ctx, libdir):
    from concurrent.futures import ThreadPoolExecutor
    d = os.path.join(vlib.BUILD, "cases"); os.makedirs(d, exist_ok=True)
    f = os.path.join(d, "c14_failed_step.py"); open(f, "w").write(FAILED_STEP_SCRIPT)
    builds = [("default", vlib.pyenv(libdir))]
    if ctx.thorough:
        try:
            adir = ctx.lib("default", cc="clang", extra_flags=["-fsanitize=address,undefined", "-fno-omit-frame-pointer",
                                                               "-fno-sanitize-recover=undefined", "-fno-sanitize=nonnull-attribute"], tag="asan")
            rt = subprocess.run(["clang", "-print-file-name=libclang_rt.asan-x86_64.so"], capture_output=True, text=True).stdout.strip()
            e = vlib.pyenv(adir); e.update({"ASAN_OPTIONS": "detect_leaks=0:symbolize=0", "LD_PRELOAD": rt})
            builds.append(("asan", e))
        except Exception as ex:
            ctx.obligation("searcher:C14 failed-step probe: ASan build", False, repr(ex)[-400:])

    def one(job):
        tag, env, sc = job
        try:
            r = subprocess.run([vlib.PY, f] + list(sc), env=env, capture_output=True, text=True, timeout=180, stdin=subprocess.DEVNULL)
        except subprocess.TimeoutExpired:
            return tag, sc, None, "timeout", 1
        o = None
        for line in reversed((r.stdout or "").splitlines()):
            if line.startswith("{"):
                try:
                    o = json.loads(line)
                except ValueError:
                    pass
                break
        return tag, sc, o, (r.stdout or "")[-300:] + (r.stderr or "")[-1500:], r.returncode
    jobs = [(tag, env, sc) for tag, env in builds for sc in FAILED_STEP_SCENARIOS]
    with ThreadPoolExecutor(max_workers=vlib.JOBS) as ex:
        results = list(ex.map(one, jobs))
    nrun = 0; reported = set()
    for tag, sc, o, err, rc in results:
        ctx.evaluations += 1
        what = None
        if "AddressSanitizer" in err or "runtime error:" in err:
            what = "sanitizer report during a step after the particle number changed: " + " ".join(
                l for l in err.splitlines() if "AddressSanitizer" in l or "runtime error" in l)[:300]
        elif rc < 0:
            what = "process killed by signal %d" % -rc
        elif o is None:
            if "Fatal error" in err or "not yet implemented" in err or rc == 0:
                continue            # reb_exit(): the library refuses the configuration outright
            what = "probe died (exit %d): %s" % (rc, err[-200:])
        else:
            nrun += 1
            stale = sc[0] in ("whfast", "saba") and o["whfast_N_allocated"] not in (None, o["N"])
            if not o["finite"]:
                what = "non-finite coordinates after the step"
            elif o["exc"] and stale and (o["t_advanced"] or not o["same"]):
                what = ("part1 failed (%s) with ri_whfast.N_allocated=%s != N=%d, yet the step advanced t / rewrote particles"
                        % (o["exc"], o["whfast_N_allocated"], o["N"]))
        if what:
            key = {"whfast": "whfast-part2-after-failed-part1", "saba": "saba-part2-after-failed-part1"}.get(sc[0], "step-after-resize:" + sc[0])
            if key not in reported:
                reported.add(key)
                ctx.violation(key, {"scenario": {"integrator": sc[0], "setting": sc[1], "change_of_N": sc[2], "build": tag,
                                                 "script": "build/cases/c14_failed_step.py <integrator> <setting> <change>"}, "observed": o, "stderr": err[-600:]},
                              True, what)
    ctx.obligation("searcher:C14 failed-step probe ran (%d scenarios x %d builds, %d completed steps)" % (len(FAILED_STEP_SCENARIOS), len(builds), nrun),
                   nrun >= len(FAILED_STEP_SCENARIOS) // 2, "")


TRACE_FULL_SCRIPT = r"""
import rebound, warnings, sys, json
warnings.simplefilter("ignore")
s = rebound.Simulation()
s.integrator = "trace"; s.ri_trace.peri_mode = sys.argv[1]; s.ri_trace.peri_crit_eta = 1e-6
s.collision = "direct"; s.dt = 0.01
log = []
def resolve(sp, c):
    sim = sp.contents
    log.append([sim.ri_trace._mode, sim.ri_trace._encounter_N, sim.N])
    print(json.dumps({"partial": log}), flush=True)
    return 2
s.collision_resolve = resolve
s.add(m=1., r=1e-3)
for k in range(int(sys.argv[2])):
    a = 1.0 + 0.7*k
    s.add(m=1e-5, a=a, r=5e-3, f=0.3*k); s.add(m=1e-5, a=a*(1+1e-4), r=5e-3, f=0.3*k)
s.steps(1)
print(json.dumps({"done": log, "N": s.N, "eN": s.ri_trace._encounter_N}))
"""


def trace_full_mode_probe(ctx, libdir):
    """Unsigned bookkeeping of TRACE reached through the public API: collision removals during a pericentre (FULL) step."""
    d = os.path.join(vlib.BUILD, "cases"); os.makedirs(d, exist_ok=True)
    f = os.path.join(d, "c14_trace_full.py"); open(f, "w").write(TRACE_FULL_SCRIPT)
    n = 0
    for pm in ("FULL_BS", "FULL_IAS15", "PARTIAL_BS"):
        for pairs in (1, 2, 3, 4):
            try:
                r = vlib.run_py(libdir, f, [pm, pairs], timeout=120)
            except subprocess.TimeoutExpired:
                ctx.obligation("searcher:C14 TRACE full-mode probe completes", False, "timeout %s %d" % (pm, pairs)); return
            n += 1; ctx.evaluations += 1
            last = None
            for line in (r.stdout or "").splitlines():
                if line.startswith("{"):
                    try: last = json.loads(line)
                    except ValueError: pass
            seq = (last or {}).get("done") or (last or {}).get("partial") or []
            wrapped = [e for e in seq if e[1] >= (1 << 31)]
            if r.returncode < 0 or wrapped or (r.returncode != 0 and "Error" not in (r.stderr or "")):
                ctx.violation("trace_full_mode_removal_wraps_encounter_N",
                              {"peri_mode": pm, "overlapping_pairs": pairs, "exit": r.returncode, "mode_encounterN_N_at_each_collision": seq,
                               "repro": "build/cases/c14_trace_full.py %s %d" % (pm, pairs)}, True,
                              "collision removals during a TRACE pericentre step wrap the unsigned encounter_N" +
                              (" and crash the process (signal %d)" % -r.returncode if r.returncode < 0 else ""))
                ctx.obligation("searcher:C14 TRACE full-mode probe ran (%d scenarios)" % n, True, "")
                return
    ctx.obligation("searcher:C14 TRACE full-mode probe ran (%d scenarios)" % n, True, "")


REMOVE_ALL_TREE_SCRIPT = r"""# reb_simulation_remove_all_particles does not reset the tree: its leaves keep the particle indices of the removed
# particles. After the next add the tree update / gravity walk dereferences particles[pt] for indices >= N and, when more
# than 128 particles had been present, beyond the freshly allocated array (N_allocated = 128).
import rebound, warnings, sys, ctypes
warnings.simplefilter("ignore")
n0 = int(sys.argv[1]) if len(sys.argv) > 1 else 300
s = rebound.Simulation()
s.configure_box(100.); s.gravity = "tree"; s.integrator = "leapfrog"; s.dt = 1e-3
for k in range(n0):
    s.add(m=1e-3, x=-40. + 80.*k/n0, y=0.3*(k % 7), z=0.1*(k % 3))
s.step()
del s.particles                       # N = 0, particles freed, tree untouched
s.add(m=1., x=1.)
print("N", s.N, "N_allocated", s._N_allocated if hasattr(s, "_N_allocated") else "?")
s.step()
print("after step: N", s.N, "x", s.particles[0].x, "ax", s.particles[0].ax)
"""


def remove_all_tree_probe(ctx, libdir):
    """remove-all while a tree exists, then add and step: the tree must not dereference indices of removed particles."""
    d = os.path.join(vlib.BUILD, "cases"); os.makedirs(d, exist_ok=True)
    f = os.path.join(d, "c14_remove_all_tree.py"); open(f, "w").write(REMOVE_ALL_TREE_SCRIPT)
    n = 0
    for n0 in (3, 100, 129, 300):
        try:
            r = vlib.run_py(libdir, f, [n0], timeout=120)
        except subprocess.TimeoutExpired:
            ctx.obligation("searcher:C14 remove-all under a tree probe completes", False, "timeout"); return
        n += 1; ctx.evaluations += 1
        if r.returncode != 0:
            ctx.violation("remove_all_tree_and_callback", {"particles_before_remove_all": n0, "exit": r.returncode, "stderr": (r.stderr or "")[-600:],
                                                           "repro": "build/cases/c14_remove_all_tree.py %d" % n0}, True,
                          "after reb_simulation_remove_all_particles with a tree present, the next add/step dereferences tree leaves of removed particles"
                          + (" (signal %d)" % -r.returncode if r.returncode < 0 else ""))
            break
    ctx.obligation("searcher:C14 remove-all under a tree probe ran (%d sizes)" % n, True, "")


TREE_REINSERT_SCRIPT = r"""
import rebound, warnings, sys, json
warnings.simplefilter("ignore")
integ, coll, steps = sys.argv[1], sys.argv[2], int(sys.argv[3])
s = rebound.Simulation()
s.integrator = integ; s.collision = coll; s.collision_resolve = "hardsphere"; s.configure_box(20., 1, 1, 1); s.dt = 0.05
s.add(m=1.)
s.add(m=0.001774061884757375, x=-0.00405361627053903, y=0.9999917840638148, z=-0.0017596172707295063, vx=-1.0005943978957614, vy=-0.004056059055842829, vz=-0.004221079085352732, r=1e-4)
if integ == "trace":
    s.add(m=0.00196159795170882, x=-1.5177900436023006, y=-0.6869730941917779, z=-0.013022591113512375, vx=0.31398363426022013, vy=-0.6937116430955735, vz=0.0036561853269254413)
else:
    s.add(m=0.00196159795170882, x=-1.0177900436023006, y=0.05, z=-0.013022591113512375, vx=0.0, vy=-1.0, vz=0.0036561853269254413, r=1e-4)
    s.ri_mercurius.r_crit_hill = 30.
ri = s.ri_trace if integ == "trace" else s.ri_mercurius
worst = None
for k in range(steps):
    s.steps(1)
    if ri._encounter_N > ri._N_allocated or ri._encounter_N > s.N + 0 and ri._N_allocated:
        worst = [k, ri._encounter_N, ri._N_allocated, s.N]; break
print(json.dumps({"N": s.N, "bad": worst}))
"""


def tree_reinsert_probe(ctx, libdir):
    """MERCURIUS / TRACE with a tree-based collision search: the tree update re-inserts moved particles; the hybrid
    bookkeeping must not treat them as new particles (encounter_N <= N_allocated, no access behind encounter_map)."""
    d = os.path.join(vlib.BUILD, "cases"); os.makedirs(d, exist_ok=True)
    f = os.path.join(d, "c14_tree_reinsert.py"); open(f, "w").write(TREE_REINSERT_SCRIPT)
    builds = [("default", vlib.pyenv(libdir))]
    if ctx.thorough:
        try:
            adir = ctx.lib("default", cc="clang", extra_flags=["-fsanitize=address,undefined", "-fno-omit-frame-pointer",
                                                               "-fno-sanitize-recover=undefined", "-fno-sanitize=nonnull-attribute"], tag="asan")
            rt = subprocess.run(["clang", "-print-file-name=libclang_rt.asan-x86_64.so"], capture_output=True, text=True).stdout.strip()
            e = vlib.pyenv(adir); e.update({"ASAN_OPTIONS": "detect_leaks=0:symbolize=0", "LD_PRELOAD": rt})
            builds.append(("asan", e))
        except Exception as ex:
            ctx.obligation("searcher:C14 tree re-insertion probe: ASan build", False, repr(ex)[-300:])
    n = 0; reported = False
    for tag, env in builds:
        for integ, coll in (("trace", "linetree"), ("trace", "tree"), ("mercurius", "tree"), ("mercurius", "linetree")):
            try:
                r = subprocess.run([vlib.PY, f, integ, coll, "200"], env=env, capture_output=True, text=True, timeout=300, stdin=subprocess.DEVNULL)
            except subprocess.TimeoutExpired:
                continue
            n += 1; ctx.evaluations += 1
            o = None
            for line in (r.stdout or "").splitlines():
                if line.startswith("{"):
                    try: o = json.loads(line)
                    except ValueError: pass
            san = "AddressSanitizer" in (r.stderr or "")
            if (san or r.returncode < 0 or (o and o["bad"])) and not reported:
                reported = True
                ctx.violation("trace_tree_reinsert_is_treated_as_new_particle",
                              {"integrator": integ, "collision": coll, "build": tag, "exit": r.returncode, "observed": o,
                               "sanitizer": " ".join(l for l in (r.stderr or "").splitlines() if "Sanitizer" in l)[:300],
                               "repro": "build/cases/c14_tree_reinsert.py %s %s 200" % (integ, coll)}, True,
                              "the tree update's re-insertion of a moved particle is booked by %s as a new particle: encounter_N grows past "
                              "N_allocated / encounter_map is written behind its allocation" % integ)
    ctx.obligation("searcher:C14 tree re-insertion probe ran (%d runs)" % n, n > 0, "")


REMOVE_ALL_VARCFG_SCRIPT = r"""# reb_simulation_remove_all_particles resets N_var but leaves N_var_config / var_config: the stale configuration still
# points at index N_real_old of the old particle array. Functions that walk the variational configurations
# (move_to_com, integrator steps, ...) then treat slots of the NEW array as variational particles.
import rebound, warnings, sys
warnings.simplefilter("ignore")
n0 = int(sys.argv[1]) if len(sys.argv) > 1 else 3
s = rebound.Simulation()
s.add(m=1.)
for k in range(n0 - 1):
    s.add(m=1e-3, a=1. + 0.01 * k, f=0.1 * k)
s.add_variation()
print("before: N", s.N, "N_var", s.N_var, "N_var_config", s.N_var_config)
del s.particles
print("after del: N", s.N, "N_var", s.N_var, "N_var_config", s.N_var_config)
s.add(m=1., x=1.); s.add(m=1., x=3.)
s.move_to_com()
print("after move_to_com: x =", [p.x for p in s.particles], "(expected [-1.0, 1.0])")
"""


def remove_all_var_config_probe(ctx, libdir):
    """remove-all must also drop the variational configurations (they index the removed particles)."""
    d = os.path.join(vlib.BUILD, "cases"); os.makedirs(d, exist_ok=True)
    f = os.path.join(d, "c14_remove_all_var_config.py"); open(f, "w").write(REMOVE_ALL_VARCFG_SCRIPT)
    n = 0
    for n0 in (3, 130):
        try:
            r = vlib.run_py(libdir, f, [n0], timeout=120)
        except subprocess.TimeoutExpired:
            ctx.obligation("searcher:C14 remove-all / var_config probe completes", False, "timeout"); return
        n += 1; ctx.evaluations += 1
        m = re.search(r"after del: N (\d+) N_var (\d+) N_var_config (\d+)", r.stdout or "")
        if r.returncode != 0 or not m or m.group(1) != "0" or m.group(2) != "0" or m.group(3) != "0":
            ctx.violation("remove_all_leaves_var_config", {"real_particles_before": n0, "exit": r.returncode, "stdout": (r.stdout or "")[-400:],
                                                           "repro": "build/cases/c14_remove_all_var_config.py %d" % n0}, True,
                          "after reb_simulation_remove_all_particles N / N_var / N_var_config are not all 0: stale variational configurations index the removed particles")
            break
    ctx.obligation("searcher:C14 remove-all / var_config probe ran (%d sizes)" % n, True, "")


HISTORY_VS_FRESH_SCRIPT = r"""import sys, json, math, warnings, struct
warnings.simplefilter("ignore")
import rebound
integ, hist = sys.argv[1], sys.argv[2]
def setup(s):
    s.G = 1.0; s.dt = 0.02
    if integ == "whfast_unsafe":
        s.integrator = "whfast"; s.ri_whfast.safe_mode = 0
    elif integ == "saba_unsafe":
        s.integrator = "saba"; s.ri_saba.safe_mode = 0
    else:
        s.integrator = integ
    if integ in ("mercurius",): s.ri_mercurius.r_crit_hill = 3.
    if integ == "eos": s.ri_eos.n = 2
def body(k):   # well separated planets, deterministic
    return dict(m=1e-4*(1+k%3), a=1.0+0.55*k, e=0.02*(k%4), f=0.7*k, inc=0.01*k, hash=100+k)
def sync(s):
    s.synchronize()
    if integ == "whfast_unsafe": s.ri_whfast.recalculate_coordinates_this_timestep = 1
    if integ == "saba_unsafe": s.ri_whfast.recalculate_coordinates_this_timestep = 1
s = rebound.Simulation(); setup(s)
s.add(m=1., hash=99)
for k in range(5): s.add(primary=s.particles[0], **body(k))
s.move_to_com()
s.steps(7)
sync(s)
extra = None
if hist == "replace_keep":          # remove one, add another: N unchanged (order preserved, new one last)
    s.remove(2, keep_sorted=True); s.add(primary=s.particles[0], **body(9))
elif hist == "replace_unsorted":
    s.remove(2, keep_sorted=False); s.add(primary=s.particles[0], **body(9))
elif hist == "replace_last":
    s.remove(s.N-1); s.add(primary=s.particles[0], **body(9))
elif hist == "remove_one":
    s.remove(3)
elif hist == "add_one":
    s.add(primary=s.particles[0], **body(9))
elif hist == "remove_add_remove":
    s.remove(1); s.add(primary=s.particles[0], **body(9)); s.remove(hash=101+1)
elif hist == "rehash":
    _ = s.particles["nothing"] if False else None
    for h in (100, 103, 77):
        try: s.particles[rebound.hash(h)].index
        except rebound.ParticleNotFound: pass
    s.particles[1].hash = 103; s.particles[4].hash = 100; s.remove(hash=102); s.add(primary=s.particles[0], **body(2))
elif hist == "nactive_replace":
    s.N_active = 4; s.remove(1, keep_sorted=True); s.add(primary=s.particles[0], **body(9))
elif hist == "switch_replace_back":   # another integrator is selected while the particle set changes, then back
    s.integrator = "leapfrog"
    s.remove(2, keep_sorted=True); s.add(primary=s.particles[0], **body(9))
    snap = [(p.m, p.x, p.y, p.z, p.vx, p.vy, p.vz, p.r, p.hash.value) for p in s.particles]
    setup(s)
elif hist == "none":
    pass
if "snap" not in dir():
    snap = [(p.m, p.x, p.y, p.z, p.vx, p.vy, p.vz, p.r, p.hash.value) for p in s.particles]
sync(s)
# synchronising must not replace the particles the user has just put there
moved = max([max(abs(a - b) for a, b in zip(w[1:7], (p.x, p.y, p.z, p.vx, p.vy, p.vz))) for w, p in zip(snap, s.particles)] + [0.0])
# ---- fresh simulation with the same state
f = rebound.Simulation(); setup(f)
f.t = s.t; f.dt = s.dt; f.N_active = s.N_active
for w in snap:
    f.add(m=w[0], x=w[1], y=w[2], z=w[3], vx=w[4], vy=w[5], vz=w[6], r=w[7], hash=w[8])
# lookups
lk = []
for h in (99, 100, 101, 102, 103, 104, 109, 77):
    def look(sim):
        try:
            q = sim.particles[rebound.hash(h)]; return [True, q.hash.value == h, q.index]
        except rebound.ParticleNotFound: return [False, None, None]
    lk.append([h, look(s), look(f)])
adaptive = integ in ("ias15", "bs")
tend = s.t + 0.3
if adaptive:
    s.integrate(tend, exact_finish_time=1); f.integrate(tend, exact_finish_time=1)
else:
    s.steps(6); f.steps(6)
    s.synchronize(); f.synchronize()
def bits(x): return struct.unpack("<Q", struct.pack("<d", x))[0]
worst = 0.0; same = s.N == f.N and s.t == f.t
for a, b in zip(s.particles, f.particles):
    for c in ("x","y","z","vx","vy","vz","m"):
        u, v = getattr(a,c), getattr(b,c)
        if bits(u) != bits(v) and not (u != u and v != v): same = False
        d = abs(u - v) if (u == u and v == v) else float("inf")
        worst = max(worst, d)
print(json.dumps({"moved_by_sync": moved, "bitwise": same, "worst": worst, "N": [s.N, f.N], "t": [s.t, f.t], "dt": [s.dt, f.dt],
                  "lookup_bad": [l for l in lk if l[1][0] != l[2][0] or l[1][1] is False or l[2][1] is False]}))
"""

HVF_INTEGRATORS = ["ias15", "whfast", "whfast_unsafe", "saba", "saba_unsafe", "mercurius", "trace", "bs", "eos", "leapfrog", "janus", "sei"]
HVF_HISTORIES = ["replace_keep", "replace_unsorted", "replace_last", "remove_one", "add_one", "remove_add_remove", "rehash", "nactive_replace", "switch_replace_back", "none"]


def history_vs_fresh_probe(ctx, libdir):
    """A simulation that was stepped, then had particles removed / added / re-hashed (documented protocol: synchronize,
    recalculation flag with safe_mode off), must continue like a FRESH simulation built from its final particle list:
    bit for bit, except where the integrator legitimately remembers the past (IAS15 / JANUS when nothing was changed,
    the step-size and order controller of BS): there to 1e-9.  Hash look-ups must agree as well."""
    from concurrent.futures import ThreadPoolExecutor
    d = os.path.join(vlib.BUILD, "cases"); os.makedirs(d, exist_ok=True)
    f = os.path.join(d, "c14_history_vs_fresh.py"); open(f, "w").write(HISTORY_VS_FRESH_SCRIPT)
    hists = HVF_HISTORIES if ctx.thorough else ["replace_keep", "replace_unsorted", "remove_add_remove", "rehash", "nactive_replace", "switch_replace_back"]
    env = vlib.pyenv(libdir)

    def one(job):
        try:
            r = subprocess.run([vlib.PY, f, job[0], job[1]], env=env, capture_output=True, text=True, timeout=180, stdin=subprocess.DEVNULL)
        except subprocess.TimeoutExpired:
            return job, None, "timeout", 1
        o = None
        for line in reversed((r.stdout or "").splitlines()):
            if line.startswith("{"):
                try:
                    o = json.loads(line)
                except ValueError:
                    pass
                break
        return job, o, (r.stderr or "")[-600:], r.returncode
    jobs = [(ig, h) for ig in HVF_INTEGRATORS for h in hists]
    with ThreadPoolExecutor(max_workers=vlib.JOBS) as ex:
        results = list(ex.map(one, jobs))
    n = 0; reported = False
    for (ig, h), o, err, rc in results:
        ctx.evaluations += 1
        if o is None:
            if rc < 0 and not reported:
                reported = True
                ctx.violation("history-vs-fresh:" + ig, {"integrator": ig, "history": h, "exit": rc, "stderr": err}, True,
                              "the simulation with history crashed where a fresh one is built from the same particles")
            continue
        n += 1
        # legitimate memory of the past: the controller of BS; IAS15 / JANUS when nothing was changed; IAS15's predictor arrays
        # when the exchange happened while another integrator was selected (only a first guess) -- then to 1e-9; JANUS is told
        # of every add/remove since f14d886 and must continue bit for bit; synchronising must not move particles
        moved = o.get("moved_by_sync", 0.0)
        memory_ok = ig == "bs" or (h == "none" and ig in ("ias15", "janus")) or (h == "switch_replace_back" and ig == "ias15")
        bad = o["lookup_bad"] or o["N"][0] != o["N"][1] or moved > 1e-9 or (not o["bitwise"] and not (memory_ok and o["worst"] < 1e-9))
        if bad and not reported:
            reported = True
            ctx.violation("history-vs-fresh:" + ig, {"integrator": ig, "history": h, "observed": o,
                                                     "repro": "build/cases/c14_history_vs_fresh.py %s %s" % (ig, h)}, True,
                          "after the history '%s' the %s simulation does not continue like a fresh simulation holding the same particles "
                          "(max difference %.3g, particles moved by synchronize %.3g, hash look-ups differing: %s)" % (h, ig, o["worst"], moved, o["lookup_bad"]))
    ctx.obligation("searcher:C14 history-vs-fresh probe ran (%d integrators x %d histories, %d compared)" % (len(HVF_INTEGRATORS), len(hists), n),
                   n >= len(jobs) * 3 // 4, "")

def drive_variation(libdir):
    script = r'''
import warnings; warnings.simplefilter("ignore")
import rebound, json
sim = rebound.Simulation()
sim.add(m=1., hash="star"); sim.add(m=1e-3, a=1., hash="p1"); sim.add(m=1e-3, a=2., hash="p2")
v = sim.add_variation()
def ob(): return (sim.N, sim.N_active, sim.N_var, [(p.hash.value, p.m, p.x, p.y) for p in sim.particles])
before = ob(); bad = []
for kw in ({"index": 1}, {"index": 1, "keep_sorted": False}, {"hash": "p1"}, {"hash": "p2", "keep_sorted": False}, {"index": 4}):
    try:
        sim.remove(**kw); bad.append(["no exception", kw])
    except RuntimeError:
        pass
    if ob() != before: bad.append(["changed", kw])
print(json.dumps({"N_var": before[2], "bad": bad}))
'''
    p = os.path.join(vlib.BUILD, "cases"); os.makedirs(p, exist_ok=True)
    f = os.path.join(p, "c14_var.py"); open(f, "w").write(script)
    r = vlib.run_py(libdir, f, timeout=120)
    if r.returncode != 0:
        return False, (r.stderr or "")[-800:]
    d = json.loads(r.stdout)
    return (d["N_var"] > 0 and not d["bad"]), d


def run_asan(ctx, seqs):
    try:
        adir = ctx.lib("default", cc="clang", extra_flags=["-fsanitize=address,undefined", "-fno-omit-frame-pointer",
                                                           "-fno-sanitize-recover=undefined", "-fno-sanitize=nonnull-attribute"], tag="asan")
    except Exception as e:
        ctx.obligation("searcher:C14 ASan+UBSan build", False, str(e)[-800:]); return
    rt = subprocess.run(["clang", "-print-file-name=libclang_rt.asan-x86_64.so"], capture_output=True, text=True).stdout.strip()
    env = {"ASAN_OPTIONS": "detect_leaks=0:abort_on_error=1:halt_on_error=1:symbolize=0", "UBSAN_OPTIONS": "halt_on_error=1:print_stacktrace=1"}
    if rt and os.path.exists(rt):
        env["LD_PRELOAD"] = rt
    bad = None
    n = 0
    for mode in ("c", "py"):
        for c0 in range(0, len(seqs), 40):
            res, d = drive(adir, mode, seqs[c0:c0 + 40], env, timeout=1800)
            if res is None:
                for sq in seqs[c0:c0 + 40]:
                    r1, d1 = drive(adir, mode, [sq], env, timeout=600)
                    if r1 is None:
                        bad = (mode, sq, d1); break
            else:
                n += sum(len(r["rows"]) for r in res)
            if bad:
                break
        if bad:
            break
    ctx.evaluations += n
    ctx.obligation("searcher:C14 ASan+UBSan build executes %d operations with no report" % n, bad is None,
                   bad[2][-1500:] if bad else "")
    if bad:
        mode, sq, d = bad
        small = shrink(adir, mode, sq, lambda r: False, env)
        ctx.violation("asan:" + mode, {"mode": mode, "sequence": small, "report": d[-2500:]}, True,
                      "an operation touched memory outside the particle storage (AddressSanitizer/UBSan report)")


def build_default(ctx):
    return ctx.lib()


def replay(ctx, rep):
    libdir = build_default(ctx)
    r = rep.get("replay", {})
    if "sequence" not in r:
        print(json.dumps(rep, indent=1)); return 0
    res, d = drive(libdir, r.get("mode", "c"), [r["sequence"]])
    print("operations:", json.dumps(r["sequence"]["ops"]))
    if res is None:
        print("library crashed:", d[-1500:]); return 1
    print("rows (code, index, N, N_active, N_var):", res[0]["rows"])
    print("final particles:", res[0]["final"])
    print("list-specification verdict:", res[0]["oracle"], " N_active consistency:", res[0]["nact_bad"])
    return 1 if (res[0]["oracle"] or res[0]["nact_bad"]) else 0
