#!/venv/bin/python
"""Regenerate coq/Gen/TreeOrder.v from $VERIF_REPO/src (fail-closed): the ORDER of the calls that matter for
"the tree update is only applied to a boundary-checked state", per function that calls reb_simulation_update_tree.

Events, in source order inside a function body:
   B  reb_boundary_check(r)                 U  reb_simulation_update_tree(r)
   M  something that moves particles: reb_integrator_part1/part2, the user callbacks pre/post_timestep_modifications,
      additional_forces (and the ENTRY of a function that edits particles itself: emitted by the model, not here)
   C  reb_collision_search(r)  (calls the tree update first thing in its TREE/LINETREE cases: expanded by the model)
Fail-closed: the set of functions (outside tree.c) that call reb_simulation_update_tree must be exactly the known one, the
callers of reb_collision_search must be exactly {reb_simulation_step}, reb_collision_search may not call the boundary check
or move particles before its tree update, and every event must sit at brace depth >= 1 of its function with no `goto`.
"""
import os, re, sys
sys.path.insert(0, os.path.dirname(os.path.abspath(__file__)))
REPO = os.environ.get("VERIF_REPO", "/repo")
ROOT = os.path.dirname(os.path.dirname(os.path.abspath(__file__)))
SRC = os.path.join(REPO, "src")
OUT = os.path.join(ROOT, "coq", "Gen", "TreeOrder.v")

KNOWN_UPDATERS = {("rebound.c", "reb_simulation_step"), ("tools.c", "reb_simulation_move_to_com"), ("collision.c", "reb_collision_search")}
KNOWN_SEARCH_CALLERS = {("rebound.c", "reb_simulation_step"),
                        # hybrid integrators search for collisions INSIDE their encounter steps (on the encounter particle array,
                        # after moving particles, without a boundary check): emitted as separate sequences, see C15/TreeOrder.v
                        ("integrator_mercurius.c", "reb_mercurius_encounter_step"),
                        ("integrator_trace.c", "reb_integrator_trace_bs_step"), ("integrator_trace.c", "reb_integrator_trace_step")}
EVENTS = [("B", r"\breb_boundary_check\s*\("), ("U", r"\breb_simulation_update_tree\s*\("), ("C", r"\breb_collision_search\s*\("),
          ("M", r"\breb_integrator_part1\s*\("), ("M", r"\breb_integrator_part2\s*\("),
          ("M", r"->\s*pre_timestep_modifications\s*\("), ("M", r"->\s*post_timestep_modifications\s*\("), ("M", r"->\s*additional_forces\s*\(")]


def die(m):
    print("translate_treeorder: " + m, file=sys.stderr)
    sys.exit(1)


def strip_comments(s):
    s = re.sub(r"/\*.*?\*/", lambda m: re.sub(r"[^\n]", " ", m.group(0)), s, flags=re.S)
    return re.sub(r"//[^\n]*", "", s)


def functions(text):
    out = []
    for m in re.finditer(r"^(?:static\s+)?[A-Za-z_][\w\s\*]*?\b(\w+)\s*\([^;{}]*\)\s*\{", text, re.M):
        if m.group(1) in ("if", "for", "while", "switch"):
            continue
        i = m.end() - 1; depth = 0; j = i
        while j < len(text):
            if text[j] == "{":
                depth += 1
            elif text[j] == "}":
                depth -= 1
                if depth == 0:
                    break
            j += 1
        if depth != 0:
            die("unbalanced braces in %s" % m.group(1))
        out.append((m.group(1), m.end(), j))
    return out


updaters = {}
search_callers = set()
for fn in sorted(os.listdir(SRC)):
    if not fn.endswith(".c") or fn == "tree.c":
        continue
    text = strip_comments(open(os.path.join(SRC, fn)).read())
    # drop code that is compiled only with MPI (the library build does not define it)
    text = re.sub(r"#ifdef MPI.*?#endif[^\n]*", lambda m: re.sub(r"[^\n]", " ", m.group(0)), text, flags=re.S)
    if not re.search(r"\breb_simulation_update_tree\s*\(|\breb_collision_search\s*\(", text):
        continue
    text = re.sub(r'"(?:\\.|[^"\\\n])*"', '""', text)      # string literals may contain braces
    for name, a, b in functions(text):
        body = text[a:b]
        is_searcher = bool(re.search(r"\breb_collision_search\s*\(", body)) and name != "reb_collision_search"
        if is_searcher:
            search_callers.add((fn, name))
        if not re.search(r"\breb_simulation_update_tree\s*\(", body) and not is_searcher:
            continue
        if re.search(r"\bgoto\b", body):
            die("%s:%s uses goto: call order not derivable" % (fn, name))
        evs = []
        for tag, rx in EVENTS:
            for m in re.finditer(rx, body):
                evs.append((m.start(), tag))
        evs.sort()
        updaters[(fn, name)] = [t for _, t in evs]

hybrid = {k: v for k, v in updaters.items() if k in KNOWN_SEARCH_CALLERS and k not in KNOWN_UPDATERS}
updaters = {k: v for k, v in updaters.items() if k not in hybrid}
if set(updaters) != KNOWN_UPDATERS:
    die("functions calling reb_simulation_update_tree changed: %s (known %s)" % (sorted(updaters), sorted(KNOWN_UPDATERS)))
if search_callers != KNOWN_SEARCH_CALLERS:
    die("callers of reb_collision_search changed: %s" % sorted(search_callers))
cs = updaters[("collision.c", "reb_collision_search")]
if any(t in ("B", "M", "C") for t in cs) or not cs:
    die("reb_collision_search: unexpected events %s (expected only tree updates)" % cs)

L = ["(* GENERATED by tools/translate_treeorder.py from $VERIF_REPO/src -- do not edit. *)",
     "From Coq Require Import List String.\nImport ListNotations.\nOpen Scope string_scope.\n",
     "Inductive tev := EvB | EvU | EvM | EvC.\n"]
for (fn, name), evs in sorted(updaters.items()):
    L.append("Definition order_%s : list tev := [%s]." % (name, "; ".join("Ev" + t for t in evs)))
for (fn, name), evs in sorted(hybrid.items()):
    if "B" in evs or "U" in evs:
        die("%s:%s now calls the boundary check / tree update itself: extend the model" % (fn, name))
    L.append("Definition order_%s : list tev := [%s]." % (name, "; ".join("Ev" + t for t in evs)))
L.append("Definition hybrid_search_sites : list (string * list tev) := [%s]." % "; ".join('("%s:%s", order_%s)' % (k[0], k[1], k[1]) for k in sorted(hybrid)))
L.append("Definition update_callers : list string := [%s]." % "; ".join('"%s:%s"' % k for k in sorted(updaters)))
os.makedirs(os.path.dirname(OUT), exist_ok=True)
new = "\n".join(L) + "\n"
if not os.path.exists(OUT) or open(OUT).read() != new:
    open(OUT, "w").write(new)
print("translate_treeorder: " + "; ".join("%s=%s" % (k[1], "".join(v)) for k, v in sorted(updaters.items())))
