#!/usr/bin/env python3
"""Assemble MANIFEST.json from manifest.d/*.json fragments; every property without a fragment is
listed under not_applicable with the reason from manifest.d/not_applicable.json (or 'not yet built')."""
import json, os, glob
ROOT = os.path.dirname(os.path.dirname(os.path.abspath(__file__)))
props = [json.loads(l)["id"] for l in open(os.path.join(ROOT, "properties.jsonl"))]
na_file = os.path.join(ROOT, "manifest.d", "not_applicable.json")
na_reasons = json.load(open(na_file)) if os.path.exists(na_file) else {}
checks = []
ready_file = os.path.join(ROOT, "manifest.d", "READY")   # one property id per line: checks the coordinator has accepted
ready = set(open(ready_file).read().split()) if os.path.exists(ready_file) else set()
for pid in props:
    f = os.path.join(ROOT, "manifest.d", pid + ".json")
    if not os.path.exists(f) or pid not in ready:
        continue
    c = json.load(open(f))
    c.setdefault("quick_cmd", "./check %s --tier quick" % pid)
    c.setdefault("thorough_cmd", "./check %s --tier thorough" % pid)
    c.setdefault("evidence_file", "/verif/evidence/%s.json" % pid)
    c.setdefault("replay_cmd_template", "./check %s --replay {path}" % pid)
    c.setdefault("engine", "rocq-model+correspondence")
    checks.append(c)
claimed = {c["property_id"] for c in checks}
m = {
 "version": 1,
 "setup_cmd": "./setup.sh",
 "hooks": {
  "guard": "REBOUND_VERIF",
  "enable": "no hooks: nothing in /repo is instrumented; REBOUND_VERIF is reserved and unused. Checks compile /repo/src themselves (tools/vlib.py build_lib) with setup.py's flags.",
  "baseline_off_cmd": "cd /repo && /venv/bin/python setup.py build_ext --inplace >/dev/null 2>&1; cd /repo && /venv/bin/python -m pytest -ra -q -p no:cacheprovider --timeout=900 --continue-on-collection-errors",
  "source_commits": [],
  "add_only": True
 },
 "engines": [{"name": "rocq-model+correspondence", "path": "/verif/check",
              "serves_properties": sorted(claimed),
              "kind_free_text": "Coq 8.16 theorems about executable Gallina models (coq/Cxx), tied to /repo by regeneration (tools/translate_*.py -> coq/Gen) and by correspondence checks (vm_compute evaluation of the models vs the library built from the current tree); library-only oracles search for concrete failing inputs"}],
 "checks": checks,
 "not_applicable": [{"property_id": p, "reason": na_reasons.get(p, "check not built yet in this session; the design (DESIGN.md §3) applies the technique to it")} for p in props if p not in claimed],
 "notes": "See DESIGN.md. known_findings.json lists recorded/fixed defects. seeded/ holds mutation trials."
}
json.dump(m, open(os.path.join(ROOT, "MANIFEST.json"), "w"), indent=1)
print("claimed:", sorted(claimed))
