#!/venv/bin/python
"""Regenerates coq/Gen/WhfastInit.v from $VERIF_REPO/src/integrator_whfast.c: the statement tree of
reb_integrator_whfast_init (which runs at the start of EVERY WHFast / SABA step), reduced to what matters for
"which shared simulation flags are (re-)established on every step": assignments (object, field, value), if/else
structure, loops, returns (0 = normal, non-zero = error exit), calls, declarations.
Fail-closed: any statement kind it does not understand, or a missing function, is an error (exit != 0).
The Coq side (coq/C03/Init.v) computes, for a set of fields, whether every path that reaches a normal exit assigns
one of them; coq/C03/Props.v states the theorem by vm_compute on the regenerated tree."""
import json, os, subprocess, sys

ROOT = os.path.dirname(os.path.dirname(os.path.abspath(__file__)))
REPO = os.environ.get("VERIF_REPO", "/repo")
SRC = os.path.join(REPO, "src")
OUT = os.path.join(ROOT, "coq", "Gen", "WhfastInit.v")
FUNC = "reb_integrator_whfast_init"
DFLAGS = ["-DLIBREBOUND", "-D_GNU_SOURCE", "-DSERVER", "-std=c99"]


class Fail(Exception):
    pass


def kids(n):
    return [c for c in n.get("inner", []) if isinstance(c, dict)]


def strip(n):
    while n.get("kind") in ("ImplicitCastExpr", "ParenExpr", "CStyleCastExpr", "ConstantExpr"):
        n = kids(n)[0]
    return n


def lhs_name(n):
    n = strip(n)
    if n.get("kind") == "MemberExpr":
        base = strip(kids(n)[0])
        if base.get("kind") == "DeclRefExpr":
            return base["referencedDecl"]["name"], n["name"]
        if base.get("kind") == "MemberExpr":
            o, f = lhs_name(base)
            return o, f + "." + n["name"]
    if n.get("kind") == "DeclRefExpr":
        return "", n["referencedDecl"]["name"]
    raise Fail("assignment to an expression this translator does not understand: %s" % n.get("kind"))


def rhs_name(n):
    n = strip(n)
    if n.get("kind") == "DeclRefExpr":
        return n["referencedDecl"]["name"]
    if n.get("kind") == "IntegerLiteral":
        return str(n["value"])
    return "expr"


def q(s):
    return '"%s"' % s


def operand(n):
    """(kind, text): a tracked location "obj.field", or a constant name / integer"""
    n = strip(n)
    if n.get("kind") == "MemberExpr":
        try:
            o, f = lhs_name(n)
            return "loc", o + "." + f
        except Fail:
            return None
    if n.get("kind") == "DeclRefExpr" and n["referencedDecl"].get("kind") == "EnumConstantDecl":
        return "const", n["referencedDecl"]["name"]
    if n.get("kind") == "IntegerLiteral":
        return "const", str(n["value"])
    return None


def cond(n):
    n = strip(n)
    if n.get("kind") == "BinaryOperator":
        op = n.get("opcode")
        a, b = kids(n)
        if op == "&&":
            return "(CAnd %s %s)" % (cond(a), cond(b))
        if op == "||":
            return "(COr %s %s)" % (cond(a), cond(b))
        if op in ("==", "!="):
            x, y = operand(a), operand(b)
            if x and y and x[0] == "loc" and y[0] == "const":
                return "(C%s %s %s)" % ("Eq" if op == "==" else "Ne", q(x[1]), q(y[1]))
            if x and y and y[0] == "loc" and x[0] == "const":
                return "(C%s %s %s)" % ("Eq" if op == "==" else "Ne", q(y[1]), q(x[1]))
    return "COpaque"


def enum_table(names_prefix):
    """enumerators NAME = integer of rebound.h with the given prefix; values must be explicit and pairwise distinct"""
    import re
    txt = open(os.path.join(SRC, "rebound.h")).read()
    found = re.findall(r"^\s*(%s[A-Z0-9_]+)\s*=\s*(\d+)\s*," % names_prefix, txt, re.M)
    if len(found) < 2 or len(set(v for _, v in found)) != len(found) or len(set(n for n, _ in found)) != len(found):
        raise Fail("enumerators %s* of rebound.h are not explicit and pairwise distinct: %r" % (names_prefix, found))
    return [n for n, _ in found]


def stmt(n):
    k = n.get("kind")
    if k == "CompoundStmt":
        raise Fail("nested bare block")
    if k == "DeclStmt":
        return "SDecl"
    if k == "CallExpr":
        f = strip(kids(n)[0])
        return "SCall %s" % q(f["referencedDecl"]["name"] if f.get("kind") == "DeclRefExpr" else "indirect")
    if k == "ReturnStmt":
        v = strip(kids(n)[0]) if kids(n) else None
        if v is None or v.get("kind") != "IntegerLiteral":
            raise Fail("return of a non-literal")
        return "SReturn %s%%Z" % v["value"]
    if k == "BinaryOperator" and n.get("opcode") == "=":
        o, f = lhs_name(kids(n)[0])
        return "SAssign %s %s %s" % (q(o), q(f), q(rhs_name(kids(n)[1])))
    if k == "IfStmt":
        ch = kids(n)
        has_else = n.get("hasElse", False)
        if len(ch) not in (2, 3) or (len(ch) == 3) != bool(has_else):
            raise Fail("if statement with an unexpected shape")
        return "SIf %s %s %s" % (cond(ch[0]), block(ch[1]), block(ch[2]) if has_else else "[]")
    if k == "ForStmt":
        return "SLoop %s" % block(kids(n)[-1])
    raise Fail("statement kind %s is not understood" % k)


def block(n):
    if n.get("kind") == "CompoundStmt":
        return "[" + "; ".join("(" + stmt(c) + ")" if " " in stmt(c) else stmt(c) for c in kids(n)) + "]"
    s = stmt(n)
    return "[" + ("(" + s + ")" if " " in s else s) + "]"


def main():
    path = os.path.join(SRC, "integrator_whfast.c")
    r = subprocess.run(["clang", "-Xclang", "-ast-dump=json", "-Xclang", "-ast-dump-filter=" + FUNC, "-fsyntax-only", "-w"]
                       + DFLAGS + ["-I" + SRC, path], capture_output=True, text=True, timeout=300)
    if r.returncode != 0:
        raise Fail("clang failed: " + r.stderr[-400:])
    # the filtered dump is a sequence of JSON objects (declaration and definition)
    dec = json.JSONDecoder()
    txt = r.stdout
    i = 0
    defs = []
    while True:
        while i < len(txt) and txt[i] != "{":
            i += 1
        if i >= len(txt):
            break
        obj, j = dec.raw_decode(txt, i)
        i = j
        if obj.get("kind") == "FunctionDecl" and obj.get("name") == FUNC and any(c.get("kind") == "CompoundStmt" for c in kids(obj)):
            defs.append(obj)
    if len(defs) != 1:
        raise Fail("expected exactly one definition of %s, found %d" % (FUNC, len(defs)))
    body = [c for c in kids(defs[0]) if c.get("kind") == "CompoundStmt"][0]
    tree = block(body)
    # every writer of the shared flags in src/*.c (for the evidence; not used by the theorem)
    text = ("(* GENERATED by tools/translate_whfast_init.py from src/integrator_whfast.c -- do not edit. *)\n"
            "From Coq Require Import List String ZArith.\nFrom RV Require Import C03.Init.\nImport ListNotations.\nOpen Scope string_scope.\n\n"
            "Definition whfast_init_body : list stmt :=\n  %s.\n\n"
            "(* enumerators of rebound.h (explicit, pairwise distinct values: distinct names denote distinct values) *)\n"
            "Definition whfast_kernels : list string := [%s].\n"
            "Definition whfast_coordinates : list string := [%s].\n"
            "Definition gravity_routines : list string := [%s].\n"
            % (tree, "; ".join(q(n) for n in enum_table("REB_WHFAST_KERNEL_")),
               "; ".join(q(n) for n in enum_table("REB_WHFAST_COORDINATES_")),
               "; ".join(q(n) for n in enum_table("REB_GRAVITY_"))))
    os.makedirs(os.path.dirname(OUT), exist_ok=True)
    if not (os.path.exists(OUT) and open(OUT).read() == text):
        open(OUT, "w").write(text)
    print("wrote %s (%d statements at top level)" % (OUT, len(kids(body))))


if __name__ == "__main__":
    try:
        main()
    except Fail as e:
        print("translate_whfast_init: FAIL: %s" % e)
        sys.exit(1)
