#!/venv/bin/python
"""Regenerate coq/Gen/Descriptors.v from the CURRENT $VERIF_REPO (default /repo) sources. Fail-closed.

Extracted (nothing here is hand-maintained):
  * reb_binary_field_descriptor_list of src/output.c: id, dtype, name, member path (from offsetof), count-member
    path (from the offset_N offsetof), element size (sizeof expressions resolved with clang's record layouts);
  * the flattened member list of struct reb_simulation and of the nested struct reb_integrator_* members with
    offset, C type class and size (clang -fdump-record-layouts on a probe translation unit);
  * layouts of struct reb_particle and struct reb_variational_configuration, struct reb_binary_field,
    struct reb_simulationarchive_blob;
  * the members compared by reb_particle_diff and by the var_config branch of reb_binary_diff (src/binarydiff.c);
  * the special constants the writer/reader hard-code (field 87, legacy field 35, header size 64).
Any source line inside the parsed regions that is not understood aborts with exit status != 0.
"""
import os, re, subprocess, sys, tempfile

ROOT = os.path.dirname(os.path.dirname(os.path.abspath(__file__)))
REPO = os.environ.get("VERIF_REPO", "/repo")
SRC = os.path.join(REPO, "src")
OUT = os.path.join(ROOT, "coq", "Gen", "Descriptors.v")


def die(msg):
    sys.stderr.write("translate_descriptors: " + msg + "\n")
    sys.exit(2)


def strip_c_comments(s):
    s = re.sub(r"/\*.*?\*/", lambda m: " " * 0 + "\n" * m.group(0).count("\n"), s, flags=re.S)
    return "\n".join(l.split("//")[0] for l in s.splitlines())


# ----------------------------------------------------------------------------- record layouts (clang)
PROBE = r"""
#include "rebound.h"
#include "output.h"
struct reb_simulation s_probe;
unsigned long f(void){ return sizeof(struct reb_simulation)+sizeof(struct reb_particle)+sizeof(struct reb_particle_avx512)
 +sizeof(struct reb_particle_int)+sizeof(struct reb_variational_configuration)+sizeof(struct reb_display_settings)
 +sizeof(struct reb_binary_field)+sizeof(struct reb_simulationarchive_blob)+sizeof(struct reb_vec3d)+sizeof(struct reb_dp7); }
"""


def layouts():
    with tempfile.TemporaryDirectory(prefix="c05tr") as d:
        p = os.path.join(d, "probe.c")
        open(p, "w").write(PROBE)
        # same feature macros as the library build (vlib.CFLAGS): no AVX512, no MPI, no OPENGL
        r = subprocess.run(["clang", "-std=c99", "-D_GNU_SOURCE", "-DLIBREBOUND", "-DSERVER", "-I" + SRC, "-fsyntax-only",
                            "-Xclang", "-fdump-record-layouts", p], capture_output=True, text=True, timeout=120)
        if r.returncode != 0:
            die("clang failed on the probe: " + r.stderr[-1500:])
    recs = {}
    blocks = r.stdout.split("*** Dumping AST Record Layout")
    for b in blocks[1:]:
        lines = [l for l in b.splitlines() if "|" in l]
        if not lines:
            continue
        m = re.match(r"\s*0 \| (struct \w+|union \w+|\w[\w ]*)$", lines[0])
        if not m:
            # anonymous/other records (e.g. unions in system headers) are irrelevant unless referenced below
            continue
        name = m.group(1)
        fields = []
        size = None
        for l in lines[1:]:
            ms = re.match(r"\s*\| \[sizeof=(\d+),.*align=(\d+)", l)
            if ms:
                size = int(ms.group(1))
                continue
            mf = re.match(r"\s*(\d+)(?::[\d-]+)? \|(\s+)(.*\S)\s*$", l)
            if not mf:
                die("layout line not understood in %s: %r" % (name, l))
            off, indent, rest = int(mf.group(1)), len(mf.group(2)), mf.group(3)
            if indent < 3 or (indent - 3) % 2 != 0:
                die("odd indentation in layout of %s: %r" % (name, l))
            depth = (indent - 3) // 2
            mt = re.match(r"(.*?)\s*(\w+)$", rest)
            if not mt:
                die("member not understood in %s: %r" % (name, l))
            fields.append((depth, off, mt.group(1).strip(), mt.group(2)))
        if size is None:
            die("no sizeof for record " + name)
        if name not in recs:
            recs[name] = (size, fields)
    return recs


def classify(ty, recs):
    """C type string (as printed by clang) -> (kind constructor text, size, pointee-or-struct name)."""
    t = ty.replace("__restrict", "").replace("const ", "").strip()
    t = re.sub(r"\s+", " ", t)
    if "(*)" in t:
        return ("KFunPtr", 8, "")
    if t.endswith("*"):
        base = t.rstrip("* ").strip()
        stars = t.count("*")
        return ("KPtr", 8, base + ("*" * (stars - 1)))
    ma = re.match(r"(.*\S)\s*\[(\d+)\]$", t)
    if ma:
        k, sz, nm = classify(ma.group(1), recs)
        return ("KArr", sz * int(ma.group(2)), ma.group(1) + "[" + ma.group(2) + "]")
    scal = {"double": ("KDouble", 8), "int": ("KInt", 4), "unsigned int": ("KUInt", 4), "uint32_t": ("KU32", 4),
            "int32_t": ("KI32", 4), "int64_t": ("KI64", 8), "uint64_t": ("KU64", 8), "char": ("KChar", 1),
            "float": ("KFloat", 4)}
    if t in scal:
        return (scal[t][0], scal[t][1], "")
    if t.startswith("enum "):
        return ("KEnum", 4, "")
    if t.startswith("struct "):
        if t not in recs:
            die("embedded struct without layout: " + t)
        return ("KStruct", recs[t][0], t)
    die("unrecognised C type: %r" % ty)


def flatten_sim(recs):
    if "struct reb_simulation" not in recs:
        die("no layout for struct reb_simulation")
    size, fields = recs["struct reb_simulation"]
    out = []
    container = None
    for depth, off, ty, name in fields:
        if depth == 0:
            if re.match(r"struct reb_integrator_\w+$", ty):
                container = name
                continue
            container = None
            out.append((name, off, ty))
        elif depth == 1 and container is not None:
            out.append((container + "." + name, off, ty))
        # deeper levels: sub-members of embedded leaf structs (reb_vec3d, reb_dp7, reb_particle[4]) - not members
    members = []
    for path, off, ty in out:
        k, sz, nm = classify(ty, recs)
        members.append((path, off, k, sz, nm))
    # sanity: no overlap
    srt = sorted(members, key=lambda m: m[1])
    for a, b in zip(srt, srt[1:]):
        if a[1] + a[3] > b[1]:
            die("members overlap: %s %s" % (a, b))
    if srt[-1][1] + srt[-1][3] > size:
        die("last member exceeds struct size")
    return size, members


def flat_record(recs, name):
    size, fields = recs[name]
    out = []
    for depth, off, ty, nm in fields:
        if depth != 0:
            continue
        k, sz, pn = classify(ty, recs)
        out.append((nm, off, k, sz, pn))
    return size, out


# ----------------------------------------------------------------------------- descriptor table (output.c)
DT = {"REB_DOUBLE": "DDouble", "REB_INT": "DInt", "REB_UINT": "DUInt", "REB_UINT32": "DU32", "REB_INT64": "DI64",
      "REB_UINT64": "DU64", "REB_VEC3D": "DVec3", "REB_PARTICLE": "DParticle", "REB_PARTICLE4": "DParticle4",
      "REB_POINTER": "DPointer", "REB_POINTER_ALIGNED": "DPointerAligned", "REB_POINTER_FIXED_SIZE": "DPointerFixed",
      "REB_DP7": "DDp7", "REB_OTHER": "DOther", "REB_FIELD_END": "DEnd"}


def parse_table(recs):
    src = strip_c_comments(open(os.path.join(SRC, "output.c")).read())
    m = re.search(r"const\s+struct\s+reb_binary_field_descriptor\s+reb_binary_field_descriptor_list\s*\[\s*\]\s*=\s*\{(.*?)\n\};", src, re.S)
    if not m:
        die("descriptor list not found in output.c")
    body = m.group(1)
    rows = []
    off = r"(0|offsetof\s*\(\s*struct\s+reb_simulation\s*,\s*([\w\.]+)\s*\))"
    rowre = re.compile(r"^\{\s*(\d+)\s*,\s*(\w+)\s*,\s*\"([^\"]*)\"\s*,\s*" + off + r"\s*,\s*" + off + r"\s*,\s*([^,{}]+?)\s*\}\s*,?$")
    for line in body.splitlines():
        line = line.strip()
        if not line:
            continue
        mr = rowre.match(line)
        if not mr:
            die("descriptor row not understood: %r" % line)
        fid, dt, name, _, member, _, count, es = mr.groups()
        if dt not in DT:
            die("unknown dtype %s in row %r" % (dt, line))
        es = es.strip()
        me = re.match(r"^(?:(\d+)\s*\*\s*)?sizeof\s*\(\s*([\w ]+?)\s*\)$", es)
        if es == "0":
            esz = 0
        elif me:
            mult = int(me.group(1) or 1)
            ty = me.group(2)
            k, sz, _ = classify(ty, recs)
            esz = mult * sz
        else:
            die("element size expression not understood: %r" % es)
        rows.append((int(fid), DT[dt], name, member or "", count or "", esz))
    if not rows:
        die("empty descriptor table")
    # enum values of the dtypes are needed only by the harness (cross-check with the compiled table)
    return rows


def parse_writer_constants():
    """Things the writer/reader hard-code; each is re-read from the source so that a change is noticed."""
    out = strip_c_comments(open(os.path.join(SRC, "output.c")).read())
    inp = strip_c_comments(open(os.path.join(SRC, "input.c")).read())
    c = {}
    m = re.search(r"field_functionp\.type\s*=\s*(\d+)\s*;", out)
    if not m: die("functionpointers field id not found in writer")
    c["fp_id"] = int(m.group(1))
    m = re.search(r"field_functionp\.size\s*=\s*sizeof\s*\(\s*int\s*\)\s*;", out)
    if not m: die("functionpointers field size not sizeof(int)")
    m = re.search(r"char\s+header\s*\[\s*(\d+)\s*\]", out)
    if not m: die("header buffer not found")
    c["header_size"] = int(m.group(1))
    if not re.search(r"reb_output_stream_write\(bufp,\s*&allocatedsize,\s*sizep,\s*header,\s*sizeof\(char\)\*%d\)" % c["header_size"], out):
        die("header write not understood")
    if not re.search(r"WRITE_FIELD_TYPE\(fd_end\.type,\s*&end_null,\s*0\)", out): die("END write not understood")
    if not re.search(r"reb_output_stream_write\(bufp,\s*&allocatedsize,\s*sizep,\s*&blob,\s*sizeof\(struct reb_simulationarchive_blob\)\)", out):
        die("trailer write not understood")
    m = re.search(r"if\s*\(\s*field\.type\s*==\s*(\d+)\s*\)\s*\{[^}]*max_radius", inp, re.S)
    if not m: die("legacy max_radius field not found in reader")
    c["legacy_maxrad_id"] = int(m.group(1))
    # which function pointers make the flag 1
    m = re.search(r"int functionpointersused = 0;\s*if\s*\((.*?)\)\s*\{\s*functionpointersused = 1;", out, re.S)
    if not m: die("functionpointersused condition not understood")
    c["fp_members"] = [x.strip().replace("r->", "") for x in m.group(1).split("||")]
    for x in c["fp_members"]:
        if not re.match(r"^[\w\.]+$", x): die("function pointer condition term not understood: %r" % x)
    return c


def parse_reader_fixups():
    """The block after `finish_fields:` in reb_input_fields: the loops that re-link address-valued members of the
    restored records.  Every statement must be understood (fail-closed)."""
    inp = strip_c_comments(open(os.path.join(SRC, "input.c")).read())
    m = re.search(r"finish_fields:\s*(.*?)\n\}\s*\n", inp, re.S)
    if not m: die("finish_fields block not found in input.c")
    body = m.group(1)
    relinks, count_sets, other = [], [], []
    pos = 0
    loop = re.compile(r"\s*for\s*\(unsigned int l=0;l<r->(\w+);l\+\+\)\{(.*?)\}", re.S)
    tree = re.compile(r"\s*if\s*\(r->gravity==REB_GRAVITY_TREE \|\| r->collision==REB_COLLISION_TREE \|\| r->collision==REB_COLLISION_LINETREE\)\{\s*"
                      r"for\s*\(unsigned int l=0;l<r->N_allocated;l\+\+\)\{\s*reb_tree_add_particle_to_tree\(r, l\);\s*\}\s*\}", re.S)
    simple = re.compile(r"\s*(r->(\w+) = r->(\w+);|reb_tree_delete\(r\);|r->ri_whfast512\.recalculate_constants = 1;)")
    while pos < len(body) and body[pos:].strip():
        mt = tree.match(body, pos)
        ml = loop.match(body, pos)
        ms = simple.match(body, pos)
        if mt:
            other.append("tree_rebuild"); pos = mt.end()
        elif ml:
            bound, lb = ml.group(1), ml.group(2)
            arr, sets = None, []
            for st in [x.strip() for x in lb.split(";") if x.strip()]:
                mm = re.match(r"^r->(\w+)\[l\]\.(\w+) = (NULL|r)$", st)
                if not mm: die("fix-up loop statement not understood: %r" % st)
                if arr not in (None, mm.group(1)): die("fix-up loop touches two arrays: %r" % lb)
                arr = mm.group(1)
                sets.append((mm.group(2), "RNull" if mm.group(3) == "NULL" else "RSelf"))
            if arr is None: die("empty fix-up loop")
            relinks.append((arr, bound, sets)); pos = ml.end()
        elif ms:
            if ms.group(2): count_sets.append((ms.group(2), ms.group(3)))
            else: other.append(ms.group(1).strip())
            pos = ms.end()
        else:
            die("statement after finish_fields not understood: %r" % body[pos:pos + 120])
    return relinks, count_sets, other


def parse_diff_members():
    src = strip_c_comments(open(os.path.join(SRC, "binarydiff.c")).read())
    m = re.search(r"int\s+reb_particle_diff\s*\(\s*struct reb_particle p1\s*,\s*struct reb_particle p2\s*\)\s*\{(.*?)\n\}", src, re.S)
    if not m: die("reb_particle_diff not found")
    pm = []
    pbit = []
    for line in m.group(1).splitlines():
        line = line.strip()
        if not line or line in ("int differ = 0;", "return differ;"):
            continue
        mm = re.match(r"^differ = differ \|\| \(p1\.(\w+) != p2\.\1\);$", line)
        mb = re.match(r"^differ = differ \|\| memcmp\(&p1\.(\w+), &p2\.\1, sizeof\((\w+)\)\);$", line)
        if mm:
            pm.append(mm.group(1))
        elif mb:
            if mb.group(2) != "double": die("memcmp size type not understood in reb_particle_diff: %r" % line)
            pm.append(mb.group(1)); pbit.append(mb.group(1))
        else:
            die("reb_particle_diff line not understood: %r" % line)
    m = re.search(r"name,\s*\"var_config\"\)==0\)\{(.*?)\n\s*\}else\{", src, re.S)
    if not m: die("var_config branch of reb_binary_diff not found")
    vm = []
    vbit = []
    body = m.group(1)
    if not re.search(r"for\s*\(unsigned int i=0;i<field1\.size/sizeof\(struct reb_variational_configuration\);i\+\+\)\{", body):
        die("var_config loop not understood")
    for line in body.splitlines():
        line = line.strip()
        mm = re.match(r"^fields_differ \|= \(vc1\[i\]\.(\w+) != vc2\[i\]\.\1\);$", line)
        mb = re.match(r"^fields_differ \|= \(memcmp\(&vc1\[i\]\.(\w+), &vc2\[i\]\.\1, sizeof\((\w+)\)\)\s*!=\s*0\);$", line)
        if mm:
            vm.append(mm.group(1))
        elif mb:
            if mb.group(2) != "double": die("memcmp size type not understood in var_config branch: %r" % line)
            vm.append(mb.group(1)); vbit.append(mb.group(1))
        elif line.startswith("fields_differ"):
            die("var_config comparison not understood: %r" % line)
    if not re.search(r"name,\s*\"particles\"\)==0\)\{.*?fields_differ \|= reb_particle_diff\(pb1\[i\],pb2\[i\]\);", src, re.S):
        die("particles branch of reb_binary_diff not understood")
    m = re.search(r"if \(strncmp\(reb_binary_field_descriptor_for_type\(field1\.type\)\.name, \"(\w+)\",(\d+)\)!=0\)\{", src)
    if not m: die("walltime exemption not found")
    if len(m.group(1)) != int(m.group(2)): die("walltime prefix length mismatch")
    return pm, pbit, vm, vbit, m.group(1)


# ----------------------------------------------------------------------------- emit
def qs(s):
    return '"' + s + '"'


def main():
    recs = layouts()
    rows = parse_table(recs)
    ssize, members = flatten_sim(recs)
    consts = parse_writer_constants()
    pm, pbit, vm, vbit, wallprefix = parse_diff_members()
    relinks, count_sets, fix_other = parse_reader_fixups()
    psize, pfields = flat_record(recs, "struct reb_particle")
    vsize, vfields = flat_record(recs, "struct reb_variational_configuration")
    bsize, bfields = flat_record(recs, "struct reb_binary_field")
    tsize, _ = flat_record(recs, "struct reb_simulationarchive_blob")
    if [f[0] for f in bfields] != ["type", "size"]:
        die("struct reb_binary_field changed: %r" % (bfields,))
    names = {m[0] for m in members}
    for fid, dt, name, member, count, esz in rows:
        if member and member not in names: die("descriptor %d refers to unknown member %s" % (fid, member))
        if count and count not in names: die("descriptor %d refers to unknown count member %s" % (fid, count))
    L = []
    L.append("(* GENERATED by tools/translate_descriptors.py from %s/src/{output.c,input.c,binarydiff.c,rebound.h}. DO NOT EDIT. *)" % "$VERIF_REPO")
    L.append("From Coq Require Import NArith List String.")
    L.append("From RV Require Import C05.Types.")
    L.append("Import ListNotations.\nLocal Open Scope string_scope.\nLocal Open Scope N_scope.\n")
    L.append("Definition table : list desc := [")
    L.append(";\n".join("  mkdesc %d %s %s %s %s %d" % (fid, dt, qs(name), qs(member), qs(count), esz)
                        for fid, dt, name, member, count, esz in rows))
    L.append("].\n")
    L.append("Definition sim_size : N := %d." % ssize)
    L.append("Definition sim_members : list member := [")
    L.append(";\n".join("  mkmember %s %d %s %d %s" % (qs(p), off, k, sz, qs(nm)) for p, off, k, sz, nm in members))
    L.append("].\n")
    for nm, size, fields in (("particle", psize, pfields), ("varconfig", vsize, vfields)):
        L.append("Definition %s_size : N := %d." % (nm, size))
        L.append("Definition %s_members : list member := [" % nm)
        L.append(";\n".join("  mkmember %s %d %s %d %s" % (qs(p), off, k, sz, qs(n2)) for p, off, k, sz, n2 in fields))
        L.append("].\n")
    L.append("Definition pointee_sizes : list (string * N) := [")
    ps = sorted({m[4] for m in members if m[2] == "KPtr"})
    items = []
    for p in ps:
        if p in recs:
            items.append("  (%s, %d)" % (qs(p), recs[p][0]))
        elif p == "double":
            items.append("  (%s, 8)" % qs(p))
        elif p == "int":
            items.append("  (%s, 4)" % qs(p))
    L.append(";\n".join(items))
    L.append("].\n")
    # does a pointee / embedded record type contain an address-valued member (recursively)?
    def has_ptr(tyname, depth=0):
        if depth > 6: die("record nesting too deep: " + tyname)
        if tyname.endswith("*"): return True
        if tyname not in recs:
            return tyname.startswith("struct ") or tyname.startswith("union ")   # no layout known: conservatively "may hold addresses"
        for dpt, off, ty, nm in recs[tyname][1]:
            if dpt != 0: continue
            k, sz, pn = classify(ty, recs)
            if k in ("KPtr", "KFunPtr"): return True
            if k == "KStruct" and has_ptr(pn, depth + 1): return True
            if k == "KArr":
                base = re.sub(r"\[\d+\]$", "", pn).strip()
                if base in recs and has_ptr(base, depth + 1): return True
        return False
    tys = sorted(set(ps) | {"struct reb_particle", "struct reb_vec3d", "struct reb_dp7", "struct reb_particle[4]"})
    L.append("(* record / pointee type -> contains an address-valued member (recursively, from clang's record layouts) *)")
    L.append("Definition type_has_pointer : list (string * bool) := [")
    L.append(";\n".join("  (%s, %s)" % (qs(t), "true" if has_ptr(re.sub(r"\[\d+\]$", "", t).strip()) else "false") for t in tys))
    L.append("].\n")
    L.append("Definition binary_field_size : N := %d." % bsize)
    L.append("Definition binary_field_type_off : N := %d." % bfields[0][1])
    L.append("Definition binary_field_size_off : N := %d." % bfields[1][1])
    L.append("Definition binary_field_type_size : N := %d." % bfields[0][3])
    L.append("Definition binary_field_size_size : N := %d." % bfields[1][3])
    L.append("Definition trailer_size : N := %d." % tsize)
    L.append("Definition header_size : N := %d." % consts["header_size"])
    L.append("Definition fp_id : N := %d." % consts["fp_id"])
    L.append("Definition legacy_maxrad_id : N := %d." % consts["legacy_maxrad_id"])
    L.append("Definition fp_members : list string := [%s]." % "; ".join(qs(x) for x in consts["fp_members"]))
    L.append("Definition particle_diff_members : list string := [%s]." % "; ".join(qs(x) for x in pm))
    L.append("(* members compared with memcmp(..., sizeof(double)) instead of the C operator != *)")
    L.append("Definition particle_diff_bitwise : list string := [%s]." % "; ".join(qs(x) for x in pbit))
    L.append("Definition varconfig_diff_bitwise : list string := [%s]." % "; ".join(qs(x) for x in vbit))
    L.append("Definition varconfig_diff_members : list string := [%s]." % "; ".join(qs(x) for x in vm))
    L.append("(* reader fix-ups after finish_fields: for l < <bound>: <array>[l].<member> := NULL | the new simulation *)")
    L.append("Definition reader_relinks : list (string * string * list (string * relink_value)) := [%s]." % "; ".join(
        "(%s, %s, [%s])" % (qs(a), qs(b), "; ".join("(%s, %s)" % (qs(mn), v) for mn, v in sets)) for a, b, sets in relinks))
    L.append("Definition reader_count_sets : list (string * string) := [%s]." % "; ".join("(%s, %s)" % (qs(a), qs(b)) for a, b in count_sets))
    L.append("Definition walltime_prefix : string := %s." % qs(wallprefix))
    os.makedirs(os.path.dirname(OUT), exist_ok=True)
    new = "\n".join(L) + "\n"
    if not os.path.exists(OUT) or open(OUT).read() != new:
        open(OUT + ".tmp", "w").write(new)
        os.replace(OUT + ".tmp", OUT)
    print("translate_descriptors: %d rows, %d members of reb_simulation (sizeof %d), particle %d bytes, var_config %d bytes"
          % (len(rows), len(members), ssize, psize, vsize))


if __name__ == "__main__":
    main()
