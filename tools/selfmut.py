#!/venv/bin/python
"""Coordinator's own mutations of the code anchored by C04, C08, C10, C12 (textual edits, different in kind from the
seeded/ ones): apply each in a scratch worktree, run the owning check from a private copy of /verif, report caught or not.
usage: tools/selfmut.py [name-substring]"""
import os, sys, subprocess, shutil, json
ROOT = os.path.dirname(os.path.dirname(os.path.abspath(__file__)))
MUTS = [
 # name, check, file, old, new
 ("c08_overshoot_strict", "C08", "src/rebound.c", "if ((r->t+r->dt)*dtsign>=tmax*dtsign){  // Next step would overshoot", "if ((r->t+r->dt)*dtsign>tmax*dtsign){  // Next step would overshoot"),
 ("c08_failsafe_1e100", "C08", "src/rebound.c", "if (tscale<1e-200){     // Failsafe if tmax==0.", "if (tscale<1e-13){     // Failsafe if tmax==0."),
 ("c08_nonexact_strict", "C08", "src/rebound.c", "if (r->t*dtsign>=tmax*dtsign){  // Past the integration time", "if (r->t*dtsign>tmax*dtsign){  // Past the integration time"),
 ("c08_dtsign_abs", "C08", "src/rebound.c", "r->dt = copysign(r->dt, dt_sign);", "r->dt = dt_sign*r->dt;"),
 ("c12_jac_inv_start", "C12", "src/transformations.c", "for (unsigned int i=N_active-1;i>0;i--){", "for (unsigned int i=N_active-1;i>1;i--){"),
 ("c12_merc_com_mtot", "C12", "src/integrator_mercurius.c", "com_vel.x /= mtot; com_vel.y /= mtot; com_vel.z /= mtot;", "com_vel.x /= mtot; com_vel.y /= mtot; com_vel.z /= particles[0].m;"),
 ("c12_tp_loop_start", "C12", "src/transformations.c", "for (unsigned int i=N_active;i<N;i++){", "for (unsigned int i=N_active+1;i<N;i++){"),
 ("c04_energy_offset_sign", "C04", "src/tools.c", "return e_kin + e_pot + r->energy_offset;", "return e_kin + e_pot - r->energy_offset;"),
 ("c04_angmom_var", "C04", "src/tools.c", "    for (int i=0;i<N-N_var;i++){", "    for (int i=0;i<N;i++){"),
 ("c10_sei_phi1_axis", "C10", "src/integrator_sei.c", "	p->vy += p->ay * dt;", "	p->vy += p->ax * dt;"),
 ("c10_sei_init_halfdt", "C10", "src/integrator_sei.c", "r->ri_sei.tandtz = tan(r->ri_sei.OMEGAZ*(-r->dt/4.));", "r->ri_sei.tandtz = tan(r->ri_sei.OMEGA*(-r->dt/4.));"),
 ("c12_saba_split", "C12", "src/integrator_saba.c", "reb_particles_transform_jacobi_to_inertial_posvel(r->particles, ri_whfast->p_jh, r->particles, N, N_active);", "reb_particles_transform_jacobi_to_inertial_posvel(r->particles, ri_whfast->p_jh, r->particles, N, N);"),
 ("c04_com_zero_mass", "C04", "src/particle.c", None, None),
 ("c10_sei_shear", "C10", "src/integrator_sei.c", "	const double zxt =  zt1 - ri_sei.tandtz*zyt;	", "	const double zxt =  zt1 - ri_sei.tandtz*zy;	"),
 ("c10_janus_kick_trunc", "C10", "src/integrator_janus.c", None, None),
]
def sh(c, **k): return subprocess.run(c, shell=True, capture_output=True, text=True, **k)
def main():
    sel = sys.argv[1] if len(sys.argv) > 1 else ""
    res = {}
    for name, chk, f, old, new in MUTS:
        if sel not in name or old is None: continue
        wt = "/tmp/selfmut_" + name; vc = "/tmp/vselfmut_" + name
        sh("git -C /repo worktree remove --force %s" % wt); shutil.rmtree(wt, ignore_errors=True)
        assert sh("git -C /repo worktree add -q --detach %s HEAD" % wt).returncode == 0
        try:
            p = os.path.join(wt, f); s = open(p).read()
            n = s.count(old)
            if n == 0:
                res[name] = "SITE NOT FOUND"; continue
            open(p, "w").write(s.replace(old, new, 1))
            shutil.rmtree(vc, ignore_errors=True); sh("rsync -a --exclude build --exclude .git %s/ %s/" % (ROOT, vc))
            r = subprocess.run(["./check", chk], cwd=vc, env=dict(os.environ, VERIF_REPO=wt), capture_output=True, text=True)
            vio = [l for l in r.stdout.splitlines() if l.startswith("VIOLATION")]
            res[name] = "%s exit=%d %s" % (chk, r.returncode, ("CAUGHT " + ("(no input)" if "no-failing" in vio[0] else "(input)")) if vio else "MISSED")
        finally:
            shutil.rmtree(vc, ignore_errors=True)
            sh("git -C /repo worktree remove --force %s" % wt); sh("git -C /repo worktree prune")
        print(name, res[name], flush=True)
    json.dump(res, open(os.path.join(ROOT, "build", "selfmut.json"), "w"), indent=1)
if __name__ == "__main__":
    main()
