#!/bin/sh
# Run every accepted check (manifest.d/READY) on /repo; print one line per check. Usage: tools/runall.sh [quick|thorough]
cd "$(dirname "$0")/.."
tier=${1:-quick}
for p in $(cat manifest.d/READY); do
  t0=$(date +%s)
  out=$(./check $p --tier $tier 2>&1); rc=$?
  t1=$(date +%s)
  nk=$(echo "$out" | grep -c '^KNOWN-FINDING')
  echo "$p rc=$rc wall=$((t1-t0))s known=$nk $(echo "$out" | grep '^VIOLATION' | head -2 | tr '\n' ' ')"
done
