"""C03 — Kepler propagation is exact for every two-body orbit and time step.

1. proof obligations: coq/C03 (theorems over R about the model's f-g update, Stumpff recurrences, iteration bounds);
2. correspondence: the Gallina model of reb_whfast_kepler_solver (all phases + variational block) at binary64,
   evaluated by vm_compute, vs the exported C function of the library built from the current tree, bit for bit, on a
   structured grid; the MODEL reports which solver branch each case takes, sampling continues until every branch
   has its quota (steered by a Python transcription that is not part of the trusted chain);
3. library-only searcher (always run): exact Kepler flow in 80-digit decimal arithmetic (tools/c03_oracle.py),
   forward error + invariants with an amplification-aware tolerance, NaN/inf scan, termination (child + timeout),
   for the solver itself and for one full step of WHFast (4 coordinate systems), SABA, MERCURIUS, TRACE and WHFast512.
"""
import json, math, os, re, subprocess, sys, time
from multiprocessing import Pool
import vlib
import c03_pysolver as ps
import c03_oracle as orc

HERE = os.path.dirname(os.path.abspath(__file__))
DRIVER = os.path.join(HERE, "c03_driver.py")
ECC_ELL = [0.0, 1e-8, 1e-4, 0.01, 0.1, 0.3, 0.5, 0.7, 0.9, 0.99, 0.999, 0.9999, 0.99999, 0.999999]
BRANCH_NAMES = {0: "newton_converged", 1: "quartic_converged", 2: "newton_failed->bisection_elliptic",
                3: "newton_failed->bisection_hyperbolic", 4: "quartic_failed->bisection_elliptic",
                13: "bisection_hyperbolic+nan_rescue(e>=1e8 legacy)", 12: "bisection_elliptic+nan_rescue", 10: "newton_converged+nan_rescue"}
SABA_TYPES = ["1", "2", "3", "4", "10,4", "8,6,4", "10,6,4", "h8,4,4", "h8,6,4", "h10,6,4", "cm2", "cm3", "cl3", "cl4"]
KNOWN_KEY = "kepler:hyperbolic_bisection_bracket_overflow"
KNOWN_512 = "kepler:whfast512_fixed_iterations_outside_small_step_domain"
KNOWN_BS = "kepler:history_stale_bs_nbody_ode"
KNOWN_GJ = "kepler:history_stale_gravity_jacobi"
KNOWN_KU = "kepler:keep_unsynchronized_shortened_last_step"
KNOWN_N0 = "kepler:empty_simulation_step_crash"
KNOWN_REFUSED = "kepler:refused_step_still_runs_part2"
KNOWN_HANG = "kepler:hyperbolic_newton_overflow_nontermination"


# ----------------------------------------------------------------------------- case generation
def randrot(rng):
    q = [rng.gauss(0, 1) for _ in range(4)]
    n = math.sqrt(sum(t * t for t in q))
    w, x, y, z = [t / n for t in q]
    return [[1 - 2 * (y * y + z * z), 2 * (x * y - z * w), 2 * (x * z + y * w)],
            [2 * (x * y + z * w), 1 - 2 * (x * x + z * z), 2 * (y * z - x * w)],
            [2 * (x * z - y * w), 2 * (y * z + x * w), 1 - 2 * (x * x + y * y)]]


def orbit(a, e, ph, mu, rot=None):
    """state on the conic with semi-major axis |a|, eccentricity e, at eccentric (e<1) / hyperbolic (e>1) anomaly ph"""
    if e < 1:
        c, s = math.cos(ph), math.sin(ph)
        if ph == 0.0:
            c, s = 1.0, 0.0          # exact pericentre
        if ph == math.pi:
            c, s = -1.0, 0.0         # exact apocentre
        b = math.sqrt(1 - e * e)
        X, Y = a * (c - e), a * b * s
        k = math.sqrt(mu / a ** 3) * a / (1 - e * c)
        VX, VY = -k * s, k * b * c
    else:
        ch, sh = math.cosh(ph), math.sinh(ph)
        b = math.sqrt(e * e - 1)
        X, Y = a * (e - ch), a * b * sh
        k = math.sqrt(mu * a) / (a * (e * ch - 1))
        VX, VY = -k * sh, k * b * ch
    p = [X, Y, 0.0, VX, VY, 0.0]
    if rot:
        p = [sum(rot[i][j] * p[j] for j in range(3)) for i in range(3)] + \
            [sum(rot[i][j] * p[3 + j] for j in range(3)) for i in range(3)]
    return p


def gen_case(rng, hyp=None, max_rev=1e3, min_rev=1e-8, emax_ell=None, positive_dt=False):
    if hyp is None:
        hyp = rng.random() < 0.4
    if hyp:
        e = 1 + 10 ** rng.uniform(-6, math.log10(49))
        ph = rng.choice([0.0, rng.uniform(-3, 3), rng.uniform(-0.01, 0.01), rng.uniform(-8, 8)])
    else:
        e = rng.choice(ECC_ELL + [rng.random()])
        if emax_ell is not None:
            e = min(e, emax_ell)
        ph = rng.choice([0.0, math.pi, rng.uniform(-math.pi, math.pi), rng.uniform(-0.01, 0.01)])
    a = 10 ** rng.uniform(-6, 6)
    mu = 10 ** rng.uniform(-6, 3)
    P = 2 * math.pi * math.sqrt(a ** 3 / mu)
    nrev = 10 ** rng.uniform(math.log10(min_rev), math.log10(max_rev))
    sgn = 1 if positive_dt else rng.choice([-1, 1])
    dt = sgn * nrev * P
    p = orbit(a, e, ph, mu, randrot(rng) if rng.random() < 0.7 else None)
    meta = {"a": a, "e": e, "anomaly": ph, "mu": mu, "dt_over_P": sgn * nrev}
    return meta, p, mu, dt


def gen_near_parabolic(rng):
    d = 10 ** rng.uniform(-6, -3)
    hyp = rng.random() < 0.6
    e = 1 + d if hyp else 1 - d
    q = 10 ** rng.uniform(-3, 3)
    mu = 10 ** rng.uniform(-4, 3)
    a = q / d
    rq = rng.choice([1.0, 1.0 + 10 ** rng.uniform(-6, 0), 10 ** rng.uniform(0, 3)])      # r / q at the start
    if hyp:
        ch = (1 + rq * d) / e
        ph = math.acosh(max(1.0, ch))
    else:
        c = (1 - min(rq, (1 + e) / d * 0.999) * d) / e
        ph = math.acos(max(-1.0, min(1.0, c)))
    ph *= rng.choice([-1, 1])
    if rq == 1.0:
        ph = 0.0
    tq = math.sqrt(q ** 3 / mu)
    dt = rng.choice([-1, 1]) * 10 ** rng.uniform(-3, 3) * tq
    p = orbit(a, e, ph, mu, randrot(rng) if rng.random() < 0.7 else None)
    P = 2 * math.pi * math.sqrt(a ** 3 / mu)
    return {"a": a, "e": e, "anomaly": ph, "mu": mu, "dt_over_P": dt / P, "near_parabolic": True, "one_minus_e": (1 - e),
            "dt_over_pericentre_time": dt / tq}, p, mu, dt


def gen_history(rng, hdt, m0):
    """what happened to the simulation object before the measured step: 1-3 operations"""
    ops = []
    for _ in range(rng.randint(1, 3)):
        u = rng.random()
        if u < 0.6:
            integ = rng.choice(["ias15", "leapfrog", "eos", "whfast", "whfast", "saba", "mercurius", "bs"])
            h = {"op": "steps", "integrator": integ, "n": rng.randint(1, 3), "dt": hdt.hex()}
            if integ == "whfast":
                h["kernel"] = rng.choice(["default", "default", "modifiedkick", "composition", "lazy"])
                h["coordinates"] = "jacobi" if h["kernel"] != "default" else \
                    rng.choice(["jacobi", "democraticheliocentric", "whds", "barycentric"])
                h["safe_mode"] = rng.choice([0, 1])
                h["corrector"] = rng.choice([0, 0, 3, 11]) if h["coordinates"] == "jacobi" and h["kernel"] == "default" else 0
            if integ == "saba":
                h["saba_type"] = rng.choice(SABA_TYPES)
                h["safe_mode"] = rng.choice([0, 1])
            ops.append(h)
        elif u < 0.72:
            ops.append({"op": "reset_integrator"})
        elif u < 0.8:
            ops.append({"op": "error_step", "dt": hdt.hex()})      # a step refused by whfast_init; the object is used on
        else:
            ops.append({"op": "third_body", "m": m0 * 10 ** rng.uniform(-15, -9), "factor": rng.uniform(20, 50),
                        "n": rng.randint(1, 2), "dt": hdt.hex(), "integrator": "whfast"})
    return ops


def history_known(tag, hist):
    """input-only characterisation of the two known history findings"""
    if not hist:
        return None
    bs = False
    gj = False
    for h in hist:
        if h["op"] == "reset_integrator":
            bs = False                       # reb_integrator_bs_reset frees the leftover N-body ODE; r->gravity is NOT reset
        if h["op"] == "steps":
            if h["integrator"] == "bs":
                bs = True
            if h["integrator"] == "whfast" and h.get("kernel") in ("lazy", "modifiedkick"):
                gj = True
            if h["integrator"] == "saba" and h.get("saba_type", "")[:1] == "c":
                gj = True
            if h["integrator"] == "eos":
                gj = False                   # EOS sets r->gravity = BASIC
    if bs:
        return KNOWN_BS
    if gj and tag == "whfast/barycentric":
        return KNOWN_GJ
    return None


def solver_corners(rng):
    """degenerate corners of the solver's argument space.  judge: "oracle" (inside the property's range or its closure:
    judged like any other case), "identity" (dt = 0: the state must not change at all), "terminate" (outside the range:
    the call must return; the result is compared with the model bit for bit but not judged)."""
    nan = float("nan"); inf = float("inf")
    rot = randrot(rng)
    base = orbit(10 ** rng.uniform(-2, 2), rng.choice([0.0, 0.3, 0.9]), rng.uniform(-3, 3), 10 ** rng.uniform(-2, 2), rot)
    mu = None
    out = []

    def add(name, judge, p, M, dt):
        out.append(({"corner": name, "judge": judge, "a": 1.0, "e": 0.0, "anomaly": 0.0, "mu": M, "dt_over_P": 1.0}, [float(v) for v in p], float(M), float(dt)))
    a0 = 10 ** rng.uniform(-2, 2); mu0 = 10 ** rng.uniform(-2, 2); P0 = 2 * math.pi * math.sqrt(a0 ** 3 / mu0)
    ell = orbit(a0, rng.choice([0.0, 1e-8, 0.5, 0.999999]), rng.uniform(-3, 3), mu0, rot)
    hyp = orbit(a0, 1 + 10 ** rng.uniform(-6, 1), rng.uniform(-2, 2), mu0, rot)
    circ = orbit(a0, 0.0, 0.0, mu0, None)
    for nm, st in (("elliptic", ell), ("hyperbolic", hyp), ("circular_exact", circ)):
        add(nm + ":dt=0", "identity", st, mu0, 0.0)
        add(nm + ":dt=-0", "identity", st, mu0, -0.0)
        add(nm + ":dt=subnormal", "oracle", st, mu0, rng.choice([5e-324, -5e-324, 1e-310]))
        add(nm + ":dt=1e-300", "oracle", st, mu0, rng.choice([-1, 1]) * 1e-300)
        add(nm + ":dt=quarter_period", "oracle", st, mu0, rng.choice([-1, 1]) * P0 / 4)
        add(nm + ":dt=1e6_periods", "terminate", st, mu0, rng.choice([-1, 1]) * 1e6 * P0)
        add(nm + ":dt=1e15_periods", "terminate", st, mu0, rng.choice([-1, 1]) * 1e15 * P0)
        add(nm + ":dt=1e300", "terminate", st, mu0, rng.choice([-1, 1]) * 1e300)
        add(nm + ":dt=inf", "terminate", st, mu0, rng.choice([-inf, inf]))
        add(nm + ":dt=nan", "terminate", st, mu0, nan)
        add(nm + ":M=0", "straight_line", st, 0.0, P0 / 10)
        add(nm + ":M=subnormal", "straight_line", st, 1e-310, P0 / 10)
        add(nm + ":M=negative", "terminate", st, -mu0, P0 / 10)
        add(nm + ":M=1e300", "terminate", st, 1e300, P0 / 10)
        add(nm + ":M=inf", "terminate", st, inf, P0 / 10)
        add(nm + ":M=nan", "terminate", st, nan, P0 / 10)
        add(nm + ":x=inf", "terminate", [inf] + st[1:], mu0, P0 / 10)
        add(nm + ":x=nan", "terminate", [nan] + st[1:], mu0, P0 / 10)
        add(nm + ":vx=inf", "terminate", st[:3] + [inf] + st[4:], mu0, P0 / 10)
        add(nm + ":coords*1e160", "terminate", [v * 1e160 for v in st[:3]] + st[3:], mu0, P0 / 10)
        add(nm + ":coords*1e-170", "terminate", [v * 1e-170 for v in st[:3]] + st[3:], mu0, P0 / 10)
    add("r0=0", "terminate", [0.0, 0.0, 0.0] + ell[3:], mu0, P0 / 10)
    add("all_zero", "terminate", [0.0] * 6, mu0, P0 / 10)
    add("at_rest:short", "terminate", ell[:3] + [0.0, 0.0, 0.0], mu0, P0 / 100)
    add("at_rest:long", "terminate", ell[:3] + [0.0, 0.0, 0.0], mu0, 3 * P0)
    add("radial_outward_bound", "terminate", [a0, 0.0, 0.0, 0.5 * math.sqrt(mu0 / a0), 0.0, 0.0], mu0, P0 / 20)
    add("radial_inward_through_centre", "terminate", [a0, 0.0, 0.0, -0.5 * math.sqrt(mu0 / a0), 0.0, 0.0], mu0, P0)
    add("radial_hyperbolic", "terminate", [a0, 0.0, 0.0, 3 * math.sqrt(mu0 / a0), 0.0, 0.0], mu0, rng.choice([-1, 1]) * P0 / 3)
    add("parabolic_exact", "oracle", [1.0, 0.0, 0.0, 0.0, math.sqrt(2.0), 0.0], 1.0, rng.choice([-1, 1]) * 1.0)
    add("e=1-1e-12", "oracle", orbit(a0, 1 - 1e-12, 0.0, mu0, rot), mu0, rng.choice([-1, 1]) * 1e-9 * P0)
    add("e=1+1e-12", "oracle", orbit(a0, 1 + 1e-12, 0.0, mu0, rot), mu0, rng.choice([-1, 1]) * 1e-9 * P0)
    add("negative_zero_components", "oracle", [1.0, -0.0, -0.0, -0.0, 1.0, -0.0], 1.0, 0.5)
    return out


def overflow_predicate(p, mu, dt):
    """input-only characterisation of the known defect: hyperbolic orbit whose bisection bracket end dt/q puts the
    first midpoint beyond the overflow threshold of the Stumpff doubling (sqrt(-beta)*|dt|/q / 2 > ~700)."""
    x, y, z, vx, vy, vz = p
    r0 = math.sqrt(x * x + y * y + z * z)
    v2 = vx * vx + vy * vy + vz * vz
    beta = 2 * mu / r0 - v2
    if not beta < 0:
        return False, 0.0
    eta0 = x * vx + y * vy + z * vz
    h2 = r0 * r0 * v2 - eta0 * eta0
    q = h2 / mu / (1 + math.sqrt(max(0.0, 1 - h2 * beta / (mu * mu))))
    th = math.sqrt(-beta) * abs(dt) / q if q > 0 else float("inf")
    return th > 1300.0, th


# ----------------------------------------------------------------------------- library in a child process
def run_driver(libdir, mode, cases, timeout):
    try:
        r = subprocess.run([vlib.PY, DRIVER], env=vlib.pyenv(libdir), input=json.dumps({"mode": mode, "cases": cases}),
                           capture_output=True, text=True, timeout=timeout)
    except subprocess.TimeoutExpired:
        return None, "timeout"
    if r.returncode != 0:
        return None, "exit %d: %s" % (r.returncode, r.stderr[-500:])
    return json.loads(r.stdout), None


def hexl(xs):
    return [float(x).hex() for x in xs]


def judge_job(job):
    p, mu, dt, out = job[:4]
    K = job[4] if len(job) > 4 else 64
    try:
        if len(job) > 4:
            return orc.judge_two_halves(p, mu, dt, out, K=K)
        return orc.judge(p, mu, dt, out, K=K)
    except orc.NoSolution as e:
        return {"nosolution": str(e)}
    except Exception as e:        # decimal signals etc.: treat as "oracle could not judge"
        return {"nosolution": repr(e)}


def judge_sync_job(job):
    p, mu, T, out, K = job
    try:
        return orc.judge(p, mu, T, out, K=K, compound=True)
    except orc.NoSolution as e:
        return {"nosolution": str(e)}
    except Exception as e:
        return {"nosolution": repr(e)}


def finite(xs):
    return all(math.isfinite(v) for v in xs)


# ----------------------------------------------------------------------------- the check
def run(ctx):
    libdir = ctx.lib()
    ctx.regen("translate_whfast_init.py")       # coq/Gen/WhfastInit.v: statement tree of reb_integrator_whfast_init
    proved = ctx.prove("C03", extra_targets=["C03/Run.vo"])
    rng = ctx.rng

    # ---------------- 2. correspondence: model (vm_compute) vs reb_whfast_kepler_solver, bitwise
    quota = {0: ctx.scale(120, 1500), 1: ctx.scale(120, 1500), 2: ctx.scale(40, 300), 3: ctx.scale(80, 800),
             4: ctx.scale(25, 200), 13: ctx.scale(40, 300)}
    got = {}
    solver_cases = []          # (meta, p, mu, dt, predicted_code, var or None)
    hang_pred = []
    tries = 0
    def legacy_case():
        """e >= 1e8 flyby (outside the property's range e <= 50): the only regime in which, since fix 0366be3, the
        hyperbolic bisection still collapses in the overflow region and the isnan(ri) straight-line rescue is taken
        (kept on purpose: two tests of the pinned suite assert exactly dt*v there; relative error of order 1/e)."""
        e = 10 ** rng.uniform(8.5, 12); r0 = 10 ** rng.uniform(-3, 3); mu = 10 ** rng.uniform(-3, 3)
        v = math.sqrt((e + 1) * mu / r0)
        dt = rng.choice([-1, 1]) * (r0 / v) * 10 ** rng.uniform(3.3, 6)
        rot = randrot(rng)
        p = [rot[i][0] * r0 for i in range(3)] + [rot[i][1] * v for i in range(3)]
        return {"a": r0 / (e - 1), "e": e, "anomaly": 0.0, "mu": mu, "dt_over_P": dt * math.sqrt(mu / (r0 / (e - 1)) ** 3) / (2 * math.pi),
                "legacy_e_ge_1e8": True}, p, mu, dt

    while any(got.get(k, 0) < v for k, v in quota.items() if k != 13) and tries < 400000:
        tries += 1
        meta, p, mu, dt = gen_case(rng)
        code = ps.predict(p, mu, dt)
        if code == 100:
            hang_pred.append((meta, p, mu, dt))
            continue
        if got.get(code, 0) >= quota.get(code, 10):
            continue
        got[code] = got.get(code, 0) + 1
        solver_cases.append((meta, p, mu, dt, code, None))
    # probe of the (fixed, 805dfda) non-termination finding: near-parabolic hyperbola at pericentre whose first Newton
    # iterate has sqrt(-beta) X in (704, 710): the next iterate overflows to -inf and stumpff_cs3 sees z = -inf.
    # These inputs exercise the `!isfinite(z)` guard in the model/implementation comparison and the timeout of the driver.
    for th in (704.25, 705.5, 706.75, 708.0, 709.25, 710.25):
        for sg in (1, -1):
            pp = orbit(1.0, 1.0001, 0.0, 1.0)
            dtp = sg * th * math.sqrt(sum(v * v for v in pp[:3]))
            solver_cases.append(({"a": 1.0, "e": 1.0001, "anomaly": 0.0, "mu": 1.0, "dt_over_P": dtp / (2 * math.pi),
                                  "probe": "nonfinite_z_guard"}, pp, 1.0, dtp, ps.predict(pp, 1.0, dtp), None))
    # near-parabolic orbits of both kinds (|1-e| in [1e-6, 1e-3], |beta| tiny): pericentre distance q and the pericentre
    # time scale sqrt(q^3/mu) set the scales (the period 2 pi sqrt(|a|^3/mu) is (1-e)^-1.5 times longer), r/q up to 1e3
    nnp = ctx.scale(120, 1500)
    npar = 0
    while npar < nnp:
        meta, p, mu, dt = gen_near_parabolic(rng)
        code = ps.predict(p, mu, dt)
        if code in (100, -1):
            continue
        npar += 1
        solver_cases.append((meta, p, mu, dt, code, None))
    for meta, p, mu, dt in solver_corners(rng):
        solver_cases.append((meta, p, mu, dt, None, None))
    ltries = 0
    while got.get(13, 0) < quota[13] and ltries < 20000:
        ltries += 1
        meta, p, mu, dt = legacy_case()
        code = ps.predict(p, mu, dt)
        if code != 13:
            continue
        got[13] = got.get(13, 0) + 1
        solver_cases.append((meta, p, mu, dt, code, None))
    nvar = ctx.scale(100, 800)
    for _ in range(nvar):
        meta, p, mu, dt = gen_case(rng, max_rev=30)
        if ps.predict(p, mu, dt) == 100:
            continue
        sc = math.sqrt(sum(v * v for v in p[:3])); sv = math.sqrt(sum(v * v for v in p[3:]))
        dp = [rng.gauss(0, 1) * sc for _ in range(3)] + [rng.gauss(0, 1) * sv for _ in range(3)]
        solver_cases.append((dict(meta, variational=True), p, mu, dt, ps.predict(p, mu, dt), dp))
    ctx.log("correspondence: %d solver cases (%d candidates drawn), predicted branches %s" % (len(solver_cases), tries, got))

    dcases = [{"p": hexl(p), "M": float(mu).hex(), "dt": float(dt).hex(), "var": hexl(dp) if dp else None}
              for _, p, mu, dt, _, dp in solver_cases]
    cres, err = run_driver(libdir, "solver", dcases, timeout=120)
    if cres is None:
        # find the culprit one by one (a hang or crash of the solver is itself a violation of the property)
        culprit = None
        for c, sc_ in zip(dcases, solver_cases):
            r1, e1 = run_driver(libdir, "solver", [c], timeout=10)
            if r1 is None:
                culprit = (sc_, e1)
                break
        ctx.violation("kepler:solver_%s" % ("nontermination" if err == "timeout" else "crash"),
                      {"how": "reb_whfast_kepler_solver via ctypes (tools/c03_driver.py mode solver)", "error": err,
                       "case": None if culprit is None else {"meta": culprit[0][0], "p": hexl(culprit[0][1]),
                                                             "M": culprit[0][2].hex(), "dt": culprit[0][3].hex()}},
                      culprit is not None, "reb_whfast_kepler_solver did not return (%s)" % err)
        return
    libout = [[float.fromhex(v) for v in r] for r in cres]

    jobs = []
    chunk = 100
    hdr = ("From Coq Require Import List ZArith PrimFloat.\nFrom RV Require Import Common.FloatNum C03.Run.\n"
           "Import ListNotations.\nOpen Scope float_scope.\n")
    for c0 in range(0, len(solver_cases), chunk):
        terms = []
        for (_, p, mu, dt, _, dp) in solver_cases[c0:c0 + chunk]:
            if dp is None:
                terms.append("kepF %s %s %s" % (vlib.flist(p), vlib.fhex(mu), vlib.fhex(dt)))
            else:
                terms.append("kepVarF %s %s %s %s" % (vlib.flist(p), vlib.flist(dp), vlib.fhex(mu), vlib.fhex(dt)))
        body = hdr + "Definition res := [\n" + ";\n".join(terms) + "].\n"
        body += "Definition expd := [\n" + ";\n".join(vlib.flist(o) for o in libout[c0:c0 + chunk]) + "].\n"
        body += "Eval vm_compute in (run_batch res expd).\n"
        jobs.append(("c03_%d" % (c0 // chunk), body))
    corr_ok = True
    bad_total = []
    model_codes = []
    model_iters = []
    model_biters = []
    for (name, ok, out), c0 in zip(vlib.coq_eval_many(jobs), range(0, len(solver_cases), chunk)):
        lists = re.findall(r"\[([^\]]*)\]", out) if ok else []
        if not ok or len(lists) != 4:
            corr_ok = False
            ctx.obligation("correspondence:C03:" + name, False, out[-1500:])
            continue
        parsed = [[int(t.replace("%nat", "")) for t in re.split(r"\s*;\s*", l.replace("\n", " ").strip()) if t.strip()]
                  for l in lists]
        bad_total += [c0 + b for b in parsed[0]]
        model_codes += parsed[1]; model_iters += parsed[2]; model_biters += parsed[3]
    hist = {}
    for c in model_codes:
        hist[c] = hist.get(c, 0) + 1
    steer_agree = corr_ok and len(model_codes) == len(solver_cases) and \
        all(mc == sc_[4] for mc, sc_ in zip(model_codes, solver_cases) if sc_[4] is not None)
    ctx.traces = len(solver_cases) if corr_ok else 0
    ctx.obligation("correspondence:C03 model(binary64, vm_compute) == reb_whfast_kepler_solver bit-for-bit on %d cases "
                   "(%d with a variational particle)" % (len(solver_cases), sum(1 for s in solver_cases if s[5])),
                   corr_ok and not bad_total,
                   "mismatching cases: %s" % [(solver_cases[b][0], solver_cases[b][4]) for b in bad_total[:6]])
    if corr_ok:
        missing = [BRANCH_NAMES.get(k, k) for k, v in quota.items() if hist.get(k, 0) < min(v, 10)]
        ctx.obligation("correspondence:C03 every solver branch exercised (model-reported branch histogram)", not missing,
                       "branches with < 10 cases: %s ; histogram %s" % (missing, hist))
        ctx.obligation("correspondence:C03 no case ran out of model fuel (quartering hang / bisection)",
                       all(c < 100 for c in model_codes), "codes >= 100: %s" % [c for c in model_codes if c >= 100][:5])
    ctx.extra["branch_histogram"] = {BRANCH_NAMES.get(k, str(k)): v for k, v in sorted(hist.items())}
    ctx.extra["max_iterations"] = {"newton_or_quartic": max(model_iters or [0]), "bisection": max(model_biters or [0])}
    ctx.extra["steering_transcription_agrees_with_model"] = bool(steer_agree)
    for k, (meta, p, mu, dt, code, dp) in enumerate(solver_cases):
        if meta.get("corner"):
            ctx.case(key=("corner", meta["corner"]))
            continue
        ctx.case(key=("solver", code, round(math.log10(abs(meta["dt_over_P"]))), meta["e"] >= 1, dp is not None),
                 sample=dict(meta, branch=BRANCH_NAMES.get(code, code)) if k % 97 == 0 else None)

    if hang_pred:
        # the transcription predicts a non-terminating quartering loop: confirm on the library in a child
        meta, p, mu, dt = hang_pred[0]
        r1, e1 = run_driver(libdir, "solver", [{"p": hexl(p), "M": mu.hex(), "dt": dt.hex(), "var": None}], timeout=10)
        if r1 is None and e1 == "timeout":
            th = overflow_predicate(p, mu, dt)[1]
            ctx.violation(KNOWN_HANG if th > 600 else "kepler:solver_nontermination",
                          {"how": "reb_whfast_kepler_solver(sim, p_j, M, 0, dt) on one particle, child process, 10 s timeout",
                           "meta": meta, "p": hexl(p), "M": mu.hex(), "dt": dt.hex(), "bracket_theta": th,
                           "predicted_hangs_in_sample": len(hang_pred)}, True,
                          "reb_whfast_kepler_solver does not terminate: a Newton iterate overflows to -inf and "
                          "stumpff_cs3's `while(fabs(z)>0.1) z=z/4` loops forever on z = -inf")

    # ---------------- 3. searcher (library only)
    violations = []     # (key, replay, what)
    nos_samples = []
    worst = {}

    def record(tag, res):
        if not res.get("ok"):
            return              # failing cases are reported as violations / known findings, not in the margin statistics
        for k in ("ratio_pos", "ratio_vel", "ratio_E", "ratio_h", "ratio_e"):
            if k in res:
                worst[(tag, k)] = max(worst.get((tag, k), 0.0), res[k])

    # 3a. the solver itself: all correspondence cases without variation + fresh random ones
    # (the e >= 1e8 legacy cases are compared bit for bit above but not judged: outside the property's range)
    def judged(m, dp):
        return dp is None and not m.get("legacy_e_ge_1e8") and m.get("judge", "oracle") == "oracle"
    sjobs = [(p, mu, dt, libout[k][:6]) for k, (m, p, mu, dt, _, dp) in enumerate(solver_cases) if judged(m, dp)]
    smeta = [(m, p, mu, dt, c) for (m, p, mu, dt, c, dp) in solver_cases if judged(m, dp)]
    corner_hist = {}
    for k, (m, p, mu, dt, _, dp) in enumerate(solver_cases):
        if m.get("corner"):
            corner_hist[m["judge"]] = corner_hist.get(m["judge"], 0) + 1
        if m.get("judge") == "identity" and not all(vlib.same_bits(a_, b_) or a_ == b_ for a_, b_ in zip(p, libout[k][:6])):
            ctx.violation("kepler:zero_step_changes_state",
                          {"how": "reb_whfast_kepler_solver with dt = +-0", "meta": m, "p": hexl(p), "M": float(mu).hex(),
                           "dt": float(dt).hex(), "library_output": hexl(libout[k][:6])}, True,
                          "a Kepler step of length zero changed the state")
        if m.get("judge") == "straight_line":
            # no central mass: uniform motion x + v dt, v unchanged (Coq: C03_zero_mass_is_uniform_motion)
            o = libout[k][:6]
            sc = max(abs(v) for v in p[:3]) + abs(dt) * max(abs(v) for v in p[3:])
            bad = any(abs(o[i] - (p[i] + dt * p[3 + i])) > 16 * 2.2e-16 * sc for i in range(3)) or \
                any(abs(o[3 + i] - p[3 + i]) > 16 * 2.2e-16 * max(abs(v) for v in p[3:]) for i in range(3)) or not finite(o)
            if bad:
                ctx.violation("kepler:zero_mass_not_uniform_motion",
                              {"meta": m, "p": hexl(p), "M": float(mu).hex(), "dt": float(dt).hex(), "library_output": hexl(o)}, True,
                              "with central mass 0 the body does not move uniformly")
    ctx.extra["solver_corner_cases"] = corner_hist
    extra_n = ctx.scale(600, 20000)
    ecases = []
    for _ in range(extra_n):
        meta, p, mu, dt = gen_case(rng)
        if ps.predict(p, mu, dt) == 100:
            continue
        ecases.append((meta, p, mu, dt))
    eres, err = run_driver(libdir, "solver", [{"p": hexl(p), "M": mu.hex(), "dt": dt.hex(), "var": None} for _, p, mu, dt in ecases],
                           timeout=300)
    if eres is None:
        ctx.violation("kepler:solver_%s" % ("nontermination" if err == "timeout" else "crash"), {"error": err}, False,
                      "reb_whfast_kepler_solver did not return on a random batch (%s)" % err)
        eres = []
        ecases = []
    for (meta, p, mu, dt), r in zip(ecases, eres):
        sjobs.append((p, mu, dt, [float.fromhex(v) for v in r]))
        smeta.append((meta, p, mu, dt, ps.predict(p, mu, dt)))
    with Pool(vlib.JOBS) as pool:
        sres = pool.map(judge_job, sjobs, chunksize=8)
    nos = 0
    for (meta, p, mu, dt, code), (_, _, _, out), res in zip(smeta, sjobs, sres):
        ctx.evaluations += 1
        rep = {"how": "reb_whfast_kepler_solver(sim, p_j, M, 0, dt) on one particle (see tools/c03_driver.py)",
               "meta": meta, "p": hexl(p), "M": float(mu).hex(), "dt": float(dt).hex(), "library_output": hexl(out),
               "solver_branch": BRANCH_NAMES.get(code, code)}
        if not finite(out):
            violations.append(("kepler:solver_nonfinite", rep, "solver returned NaN/inf coordinates"))
            continue
        if "nosolution" in res:
            nos_samples.append({"why": res["nosolution"][:120], "meta": meta})
            nos += 1
            continue
        record("solver", res)
        if not res["ok"]:
            known, th = overflow_predicate(p, mu, dt)
            rep["judge"] = res
            rep["bracket_theta"] = th
            key = KNOWN_KEY if known else "kepler:solver_off_orbit:%s" % BRANCH_NAMES.get(code, code)
            violations.append((key, rep, "solver result is off the exact Kepler orbit (error/tolerance pos %.3g vel %.3g)"
                               % (res["ratio_pos"], res["ratio_vel"])))
    ctx.extra["oracle_could_not_judge"] = nos

    # 3b. one full reb_simulation_step of a two-body system
    configs = [("whfast", "jacobi", True), ("whfast", "whds", True), ("whfast", "democraticheliocentric", False),
               ("whfast", "barycentric", False), ("saba", None, True), ("mercurius", None, False), ("trace", None, False)]
    nper = ctx.scale(60, 1500)
    simcases = []
    simmeta = []
    for integ, coord, massive in configs:
        for _ in range(nper):
            far = integ in ("mercurius", "trace")
            meta, p, mu, dt = gen_case(rng, hyp=(rng.random() < 0.3), max_rev=(0.05 if far else 1e3),
                                       emax_ell=(0.9 if far else None))
            G = 10 ** rng.uniform(-3, 3) if rng.random() < 0.5 else 1.0
            q = (10 ** rng.uniform(-9, 0)) if massive else 0.0     # mass ratio m1/m0
            m0 = mu / G / (1 + q) if coord in ("jacobi", "whds") or integ == "saba" else mu / G
            m1 = m0 * q
            mu_eff = G * (m0 + m1) if massive else G * m0
            f0 = -m1 / (m0 + m1); f1 = m0 / (m0 + m1)
            p0 = [f0 * v for v in p]; p1 = [f1 * v for v in p]
            rel = [b - a_ for a_, b in zip(p0, p1)]          # the relative state the library actually sees
            simcases.append({"integrator": integ, "coordinates": coord, "G": G.hex(), "m0": m0.hex(), "m1": m1.hex(),
                             "p0": hexl(p0), "p1": hexl(p1), "dt": dt.hex()})
            simmeta.append((dict(meta, integrator=integ, coordinates=coord, mass_ratio=q, G=G), rel, mu_eff, dt))
            if len(simcases) % 2 == 1:   # every other case runs on a simulation object with a HISTORY
                P_like = 2 * math.pi * math.sqrt(meta["a"] ** 3 / mu)
                hdt = math.copysign(min(abs(dt), 0.002 * P_like), dt)
                simcases[-1]["history"] = gen_history(rng, hdt, m0)
                simmeta[-1][0]["history"] = simcases[-1]["history"]
            if integ == "saba":      # every coefficient table (odd and even stage counts, with and without correctors)
                st = rng.choice(SABA_TYPES)
                simcases[-1]["saba_type"] = st
                simmeta[-1][0]["saba_type"] = st
    # probes of the known finding KNOWN_BS (a BS step leaves its N-body ODE behind; without reset_integrator the next
    # integrator's step is followed by a second, BS-driven advance): 2 per WHFast coordinate system
    for k in range(len(simcases)):
        if "history" in simcases[k] and simcases[k]["integrator"] == "whfast" and k % 30 == 0:
            hb = {"op": "steps", "integrator": "bs", "n": 1, "dt": simcases[k]["history"][0].get("dt", simcases[k]["dt"])}
            simcases[k]["history"] = [hb]
            simmeta[k][0]["history"] = [hb]
    sim_out, err = run_driver(libdir, "sim", simcases, timeout=600)
    # WHFast512 (AVX512 build, own library in its own child): dt > 0, G = 1, massive planet with negligible mass
    w512 = []
    w512meta = []
    w512_out = None
    try:
        lib512 = ctx.lib("avx512")
    except Exception as e:        # no AVX512 compiler support: recorded, not a violation of the property
        lib512 = None
        ctx.extra["whfast512"] = "not built: %r" % (e,)
    if lib512:
        for k512 in range(nper):
            # WHFast512's kernel has no argument reduction and a fixed 2 Halley + 2 Newton iterations: half of the cases
            # stay in the small-step domain it is written for (e <= 0.3, dt <= 0.02 P), half cover the property's full range.
            # All 8 lanes are filled with real (near-massless) planets sharing the star and dt; lanes 1..7 always in-domain.
            if k512 % 2 == 0:
                meta, p, mu, dt = gen_case(rng, hyp=False, max_rev=0.02, emax_ell=0.3, positive_dt=True)
                meta["whfast512_domain"] = "small_step"
            else:
                meta, p, mu, dt = gen_case(rng, hyp=False, max_rev=1e2, positive_dt=True)
                meta["whfast512_domain"] = "small_step" if (meta["e"] <= 0.3 and meta["dt_over_P"] <= 0.02) else "general"
            m0 = mu; m1 = m0 * 1e-30
            amin = (dt / (0.02 * 2 * math.pi)) ** (2.0 / 3.0) * mu ** (1.0 / 3.0)
            lanes = [(meta, list(p))]
            for j in range(7):
                aj = amin * 10 ** rng.uniform(0, 3); ej = rng.choice([0.0, 1e-8, 0.01, 0.1, 0.3, rng.random() * 0.3])
                phj = rng.choice([0.0, math.pi, rng.uniform(-math.pi, math.pi)])
                pj = orbit(aj, ej, phj, mu, randrot(rng))
                lanes.append(({"a": aj, "e": ej, "anomaly": phj, "mu": mu, "dt_over_P": dt / (2 * math.pi * math.sqrt(aj ** 3 / mu)),
                               "whfast512_domain": meta["whfast512_domain"], "lane": j + 1}, pj))
            w512.append({"integrator": "whfast512", "coordinates": None, "G": (1.0).hex(), "m0": m0.hex(), "m1": m1.hex(),
                         "p0": hexl([0.0] * 6), "p1": hexl(p), "dt": dt.hex(),
                         "extra": [{"m": m1.hex(), "p": hexl(pj)} for _, pj in lanes[1:]]})
            w512meta.append([(dict(mt, integrator="whfast512", coordinates=None, mass_ratio=1e-30, G=1.0), pj, mu, dt)
                             for mt, pj in lanes])
        w512_out, err512 = run_driver(lib512, "sim", w512, timeout=600)
        if w512_out is None:
            ctx.extra["whfast512"] = "driver failed: %s" % err512
    if sim_out is None:
        ctx.violation("kepler:simulation_step_%s" % ("nontermination" if err == "timeout" else "crash"), {"error": err}, False,
                      "reb_simulation_step did not return on a two-body system (%s)" % err)
        sim_out = []
    fjobs = []
    fmeta = []
    errors = {}
    triples = [(case, [mt], r) for case, mt, r in zip(simcases, simmeta, sim_out)]
    if w512_out:
        triples += list(zip(w512, w512meta, w512_out))
    for case, metas, r in triples:
        if "error" in r:
            integ = metas[0][0]["integrator"]
            errors[integ] = errors.get(integ, 0) + 1
            errors.setdefault("first_" + integ, r["error"])
            continue
        if r.get("notes"):
            violations.append((KNOWN_REFUSED, {"how": "history op error_step (tools/c03_driver.py)", "case": case, "notes": r["notes"]},
                               "a WHFast step refused by reb_integrator_whfast_init is not a no-op: %s" % r["notes"][0][:160]))
        s0 = [float.fromhex(v) for v in r["state"][0]]
        b0 = [float.fromhex(v) for v in r["before"][0]]
        for lane, (meta, rel, mu_eff, dt) in enumerate(metas):
            s1 = [float.fromhex(v) for v in r["state"][1 + lane]]
            out = [b - a_ for a_, b in zip(s0, s1)]
            # the two-body state the library actually starts the measured step from (after any history)
            b1 = [float.fromhex(v) for v in r["before"][1 + lane]]
            rel = [b - a_ for a_, b in zip(b0, b1)]
            # a full step applies the solver to several sub-steps (WHFast/MERCURIUS/TRACE: 2 halves; SABA(10,6,4): 8 stages,
            # some backwards) and converts coordinates twice: the single-call tolerance is widened accordingly
            Kmult = 16 if meta["integrator"] == "saba" else 8
            # near-parabolic hyperbolic arcs whose bisection bracket reaches the overflow region (sqrt(-beta)|dt|/q > 1300):
            # the two bisection-limited half steps compound to a few 1e-9 relative in the full step (measured on the
            # unchanged library, 2.8x the standard tolerance at worst); the sharp tolerance for this regime is applied
            # to the solver calls themselves (3a), the full step gets 16x here
            if overflow_predicate(rel, mu_eff, dt)[0] or overflow_predicate(rel, mu_eff, dt / 2)[0]:
                Kmult *= 16
            fjobs.append((rel, mu_eff, dt, out, 64 * Kmult))
            fmeta.append((case, meta, s0 + s1, float.fromhex(r["t"])))
    with Pool(vlib.JOBS) as pool:
        fres = pool.map(judge_job, fjobs, chunksize=4)
    per_integ = {}
    for (case, meta, raw, t), (rel, mu_eff, dt, out, _K), res in zip(fmeta, fjobs, fres):
        ctx.evaluations += 1
        tag = meta["integrator"] + ("/" + meta["coordinates"] if meta["coordinates"] else "")
        per_integ[tag] = per_integ.get(tag, 0) + 1
        ctx.case(key=(tag, round(math.log10(abs(meta["dt_over_P"]))), meta["e"] >= 1, meta["e"] > 0.99))
        rep = {"how": "two-body reb_simulation_step (tools/c03_driver.py mode sim)", "case": case, "meta": meta,
               "library_state_after_step": hexl(raw)}
        if not finite(raw):
            known, th = overflow_predicate(rel, mu_eff, dt if meta["integrator"] != "whfast" else dt / 2)
            if meta.get("whfast512_domain") == "general":
                known = True
            hk = history_known(tag, meta.get("history"))
            violations.append((hk if hk else ((KNOWN_512 if tag == "whfast512" else KNOWN_KEY) if known else "kepler:%s_nonfinite" % tag), rep,
                               "%s step produced NaN/inf" % tag))
            continue
        if t != dt:
            violations.append(("kepler:%s_time" % tag, rep, "simulation time after one step is %r, expected %r" % (t, dt)))
        if "nosolution" in res:
            nos_samples.append({"why": res["nosolution"][:120], "meta": meta})
            nos += 1
            continue
        record(tag, res)
        if not res["ok"]:
            # WHFast and SABA apply the solver to sub-steps (dt/2, c_i dt): test the predicate on the half step too
            known = overflow_predicate(rel, mu_eff, dt)[0] or overflow_predicate(rel, mu_eff, dt / 2)[0]
            rep["judge"] = res
            if meta.get("whfast512_domain") == "general":
                known = True
            hk = history_known(tag, meta.get("history"))
            key = hk if hk else ((KNOWN_512 if tag == "whfast512" else KNOWN_KEY) if known else "kepler:%s_off_orbit" % tag)
            violations.append((key, rep,
                               "%s step%s is off the exact Kepler orbit (error/tolerance pos %.3g vel %.3g)"
                               % (tag, " on a simulation with a history" if meta.get("history") else "",
                                  res["ratio_pos"], res["ratio_vel"])))
    # ---------------- 3c. deferred synchronisation: WHFast steps with safe_mode=0 leave the simulation unsynchronized;
    # synchronized output is then obtained in every available way and judged by the Kepler oracle AT THE REPORTED sim.t
    # (exact flow of the initial state); a bit-exact subset is also compared with the model chain Run.unsyncF
    WAYS = ["synchronize", "integrate_noop", "integrate_small", "integrate_eft0", "save_load_synchronize",
            "save_load_integrate_noop", "save_load_integrate_small", "copy_synchronize", "copy_integrate_noop",
            "copy_integrate_small"]
    nsync = ctx.scale(160, 2000)
    sync_cases = []
    sync_meta = []
    for k in range(nsync):
        while True:
            meta, p, mu, dt = gen_case(rng, hyp=(rng.random() < 0.3), max_rev=0.05, min_rev=1e-4, emax_ell=0.9)
            if meta["e"] < 1 or meta["e"] > 1.1:
                break
        exact = (k % 2 == 0)                       # bit-exact subset: test particle, star at rest at the origin, G = 1
        coord = rng.choice(["democraticheliocentric", "jacobi"]) if exact else \
            rng.choice(["jacobi", "whds", "democraticheliocentric", "barycentric"])
        massive = (not exact) and coord in ("jacobi", "whds")
        G = 1.0 if exact or rng.random() < 0.5 else 10 ** rng.uniform(-3, 3)
        q = (10 ** rng.uniform(-9, 0)) if massive else 0.0
        m0 = mu / G / (1 + q) if massive else mu / G
        m1 = m0 * q
        mu_eff = G * (m0 + m1) if massive else G * m0
        if exact and not any(v == 0.0 for v in p):
            p0 = [0.0] * 6; p1 = list(p)
        else:
            exact = False
            f0 = -m1 / (m0 + m1); f1 = m0 / (m0 + m1)
            p0 = [f0 * v for v in p]; p1 = [f1 * v for v in p]
        rel = [b - a_ for a_, b in zip(p0, p1)]
        n = rng.randint(1, 4)
        way = rng.choice(WAYS)
        ku = 0 if exact else rng.choice([0, 0, 1])
        case = {"coordinates": coord, "G": G.hex(), "m0": m0.hex(), "m1": m1.hex(), "p0": hexl(p0), "p1": hexl(p1),
                "dt": dt.hex(), "n": n, "way": way, "f": rng.uniform(0.05, 1.0), "keep_unsynchronized": ku,
                "kernel": "default" if exact or coord != "jacobi" else rng.choice(["default", "default", "lazy", "composition"])}
        sync_cases.append(case)
        sync_meta.append((dict(meta, coordinates=coord, mass_ratio=q, G=G, n_unsynchronized_steps=n, way=way,
                               keep_unsynchronized=ku, kernel=case["kernel"], bit_exact=exact), rel, mu_eff, dt, exact, m0))
    sync_out, err = run_driver(libdir, "sync", sync_cases, timeout=600)
    if sync_out is None:
        ctx.violation("kepler:deferred_synchronisation_%s" % ("nontermination" if err == "timeout" else "crash"), {"error": err},
                      False, "WHFast safe_mode=0 steps + synchronisation did not return (%s)" % err)
        sync_out = []
    sjobs2 = []
    smeta2 = []
    coq_terms = []
    sync_errors = {}
    for case, (meta, rel, mu_eff, dt, exact, m0), r in zip(sync_cases, sync_meta, sync_out):
        if "error" in r:
            sync_errors[r["error"][:80]] = sync_errors.get(r["error"][:80], 0) + 1
            continue
        s0 = [float.fromhex(v) for v in r["state"][0]]; s1 = [float.fromhex(v) for v in r["state"][1]]
        out = [b - a_ for a_, b in zip(s0, s1)]
        T = float.fromhex(r["t"])
        sjobs2.append((rel, mu_eff, T, out, 64 * 8 * (meta["n_unsynchronized_steps"] + 2)))
        smeta2.append((case, meta, s0 + s1, T))
        if exact:
            way = meta["way"]
            nn = meta["n_unsynchronized_steps"] + (1 if way.endswith("integrate_eft0") else 0)
            later = [float.fromhex(r["dt_last_done"])] if way.endswith("integrate_small") else []
            coq_terms.append(("(unsyncF %s %s %s %d%%nat %s, %s)" % (vlib.flist(rel), vlib.fhex(m0), vlib.fhex(dt), nn,
                                                                      vlib.flist(later), vlib.flist(s1)), meta))
    if sync_errors:
        ctx.extra["deferred_sync_errors"] = sync_errors
    # bit-exact comparison with the model chain
    sjobs_coq = []
    for c0 in range(0, len(coq_terms), 60):
        body = hdr + "Definition cases : list (list float * list float) := [\n" + ";\n".join(t for t, _ in coq_terms[c0:c0 + 60]) + \
            "].\nEval vm_compute in (bad_cases cases).\n"
        sjobs_coq.append(("c03_sync_%d" % (c0 // 60), body))
    sync_bad = []
    sync_ok = True
    for (name, ok, outp), c0 in zip(vlib.coq_eval_many(sjobs_coq), range(0, len(coq_terms), 60)):
        bad = vlib.parse_coq_list_nat(outp) if ok else None
        if bad is None:
            sync_ok = False
            ctx.obligation("correspondence:C03:" + name, False, outp[-1500:])
        else:
            sync_bad += [c0 + b for b in bad]
    ctx.obligation("correspondence:C03 deferred synchronisation: model chain (dt/2, dt^(n-1), whfast_sync_drift dt, later steps) == "
                   "library after n safe_mode=0 steps + synchronized output, bit-for-bit on %d cases" % len(coq_terms),
                   sync_ok and not sync_bad and len(coq_terms) > 0,
                   "mismatching cases: %s" % [coq_terms[b][1] for b in sync_bad[:4]])
    ctx.traces += len(coq_terms) if sync_ok else 0
    with Pool(vlib.JOBS) as pool:
        sres2 = pool.map(judge_sync_job, sjobs2, chunksize=4)
    nsync_by_way = {}
    for (case, meta, raw, T), (rel, mu_eff, _T, out, _K), res in zip(smeta2, sjobs2, sres2):
        ctx.evaluations += 1
        nsync_by_way[meta["way"]] = nsync_by_way.get(meta["way"], 0) + 1
        ctx.case(key=("sync", meta["way"], meta["coordinates"], meta["n_unsynchronized_steps"], meta["keep_unsynchronized"]))
        rep = {"how": "n WHFast steps with safe_mode=0, then synchronized output by `way` (tools/c03_driver.py mode sync); "
                      "judged against the exact Kepler flow of the initial relative state over the reported sim.t",
               "case": case, "meta": meta, "reported_t": T, "library_state": hexl(raw)}
        if not finite(raw):
            violations.append(("kepler:deferred_synchronisation_nonfinite", rep, "NaN/inf after deferred synchronisation"))
            continue
        if "nosolution" in res:
            nos += 1
            continue
        record("deferred_sync", res)
        if not res["ok"]:
            rep["judge"] = res
            known_ku = meta["keep_unsynchronized"] == 1 and meta["way"].endswith("integrate_small")
            violations.append((KNOWN_KU if known_ku else "kepler:deferred_synchronisation_off_orbit:%s" % meta["way"], rep,
                               "after %d unsynchronized WHFast steps, output via %s is off the exact Kepler orbit at the reported "
                               "time (error/tolerance pos %.3g vel %.3g)" % (meta["n_unsynchronized_steps"], meta["way"],
                                                                           res["ratio_pos"], res["ratio_vel"])))
    ctx.extra["deferred_sync_cases_by_way"] = nsync_by_way
    ctx.extra["deferred_sync_bit_exact_cases"] = len(coq_terms)

    # ---------------- 3d. degenerate simulations: N = 0, 1; dt = 0, subnormal, non-finite; zero masses; coincident bodies.
    # Every case runs in its own child (a crash or hang is the finding).  Judged: N=0 (time advances, nothing else),
    # N=1 (uniform motion), dt=0 / subnormal (state unchanged to rounding).  Not judged (outside "a body orbiting a central
    # mass"), only required to return: zero-mass star, coincident bodies, a lone massless particle, +-1e3-period steps.
    from concurrent.futures import ThreadPoolExecutor
    nanv = float("nan"); infv = float("inf")
    star = {"m": (1.0).hex()}
    pl = {"m": (1e-3).hex(), "x": (1.0).hex(), "vy": (1.0).hex()}
    tpz = {"m": (0.0).hex(), "x": (1.0).hex(), "vy": (1.0).hex()}
    lone = {"m": (1.0).hex(), "x": (0.25).hex(), "vx": (0.5).hex(), "vz": (-0.125).hex()}
    edge = []
    for integ, coord, _m in configs:
        for name, parts, dt_e, nst in (("N=0", [], 0.1, 3), ("N=1", [lone], 0.1, 3), ("N=1:massless", [{"m": (0.0).hex(), "vx": (0.5).hex()}], 0.1, 1),
                                       ("star_m=0", [{"m": (0.0).hex()}, tpz], 0.1, 1), ("coincident", [star, {"m": (1e-3).hex()}], 0.1, 1),
                                       ("dt=0", [star, pl], 0.0, 2), ("dt=-0", [star, pl], -0.0, 1), ("dt=subnormal", [star, pl], 1e-320, 2),
                                       ("dt=1e3_periods", [star, pl], 1e3 * 2 * math.pi, 1), ("dt=-1e3_periods", [star, pl], -1e3 * 2 * math.pi, 1)):
            # (NaN and +-inf are not time steps of the property - "steps shorter or longer than the orbital period" - and are
            #  not demanded of a full simulation step; the solver corners still compare them with the model bit for bit)
            if integ in ("mercurius", "trace") and name.startswith("dt=") and "periods" in name:
                continue                    # "away from encounters": a 1e3-period step switches TRACE/MERCURIUS to their encounter code
            edge.append({"integrator": integ, "coordinates": coord, "parts": parts, "dt": float(dt_e).hex(), "n": nst, "name": name})
    # one child per integrator configuration for the cases that are expected to return; the cases that are crash candidates
    # (empty simulation, infinite dt) each get their own child; a batch that dies is re-run case by case
    solo = [k for k, c in enumerate(edge) if c["name"] == "N=0"]
    groups = {}
    for k, c in enumerate(edge):
        if k not in solo:
            groups.setdefault((c["integrator"], c["coordinates"]), []).append(k)
    jobs_e = [[k] for k in solo] + list(groups.values())

    def run_group(idx):
        r, err = run_driver(libdir, "edge", [edge[k] for k in idx], timeout=30)
        if r is not None:
            return [(k, ([r[j]], None)) for j, k in enumerate(idx)]
        if len(idx) == 1:
            return [(idx[0], (None, err))]
        return [(k, run_driver(libdir, "edge", [edge[k]], timeout=20)) for k in idx]
    with ThreadPoolExecutor(max_workers=vlib.JOBS) as ex:
        flat = [x for part in ex.map(run_group, jobs_e) for x in part]
    edge_res = [None] * len(edge)
    for k, rr in flat:
        edge_res[k] = rr
    edge_hist = {}
    for c, (r, err) in zip(edge, edge_res):
        tag = c["integrator"] + ("/" + c["coordinates"] if c["coordinates"] else "")
        ctx.evaluations += 1
        ctx.case(key=("edge", tag, c["name"]))
        rep = {"how": "tools/c03_driver.py mode edge: add the particles, set the integrator, n steps, synchronize", "case": c}
        if r is None:
            kind = "nontermination" if err == "timeout" else "crash"
            key = KNOWN_N0 if (c["name"] == "N=0" and kind == "crash") else "kepler:edge_%s:%s" % (kind, c["name"])
            rep["error"] = err
            violations.append((key, rep, "%s step on a degenerate simulation (%s): %s" % (tag, c["name"], kind)))
            edge_hist[c["name"] + ":" + kind] = edge_hist.get(c["name"] + ":" + kind, 0) + 1
            continue
        r = r[0]
        if "error" in r:
            edge_hist[c["name"] + ":refused"] = edge_hist.get(c["name"] + ":refused", 0) + 1
            continue
        edge_hist[c["name"] + ":returned"] = edge_hist.get(c["name"] + ":returned", 0) + 1
        t_end = float.fromhex(r["t"]); dt_e = float.fromhex(c["dt"])
        st = [[float.fromhex(v) for v in row] for row in r["state"]]
        if c["name"] == "N=0":
            if st or abs(t_end - c["n"] * dt_e) > 1e-15:
                violations.append(("kepler:edge_empty_simulation_time", rep, "empty simulation: t = %r after %d steps of %r" % (t_end, c["n"], dt_e)))
        elif c["name"] == "N=1":
            p0_ = [float.fromhex(lone.get(k_, (0.0).hex())) for k_ in ("x", "y", "z", "vx", "vy", "vz")]
            exp = [p0_[i] + t_end * p0_[3 + i] for i in range(3)] + p0_[3:]
            if any(abs(a_ - b_) > 1e-14 for a_, b_ in zip(st[0], exp)) or abs(t_end - c["n"] * dt_e) > 1e-15:
                rep["state"] = st
                violations.append(("kepler:edge_single_body_not_uniform", rep, "%s: a single body does not move uniformly" % tag))
        elif c["name"] in ("dt=0", "dt=-0", "dt=subnormal"):
            init = [[0.0] * 6, [1.0, 0.0, 0.0, 0.0, 1.0, 0.0]]
            if any(abs(a_ - b_) > 1e-15 for row, irow in zip(st, init) for a_, b_ in zip(row, irow)) or abs(t_end) > 1e-300:
                rep["state"] = st
                violations.append(("kepler:edge_zero_step_changes_state", rep, "%s: %d steps of dt = %r changed the state" % (tag, c["n"], dt_e)))
    ctx.extra["degenerate_simulation_cases"] = edge_hist

    # ---------------- 3e. history vs fresh: an object with a history must continue exactly like a FRESH object holding the
    # same particles, time and settings (documented protocol respected).  WH-type integrators have no legitimate memory
    # of the past (warn-once counters, p_jh allocated for another N, stale gravity / ignore flags, cached coordinates ...):
    # the particle states after each of 2 further steps must agree bit for bit, the times within 2 ulp.
    nhvf = ctx.scale(140, 1500)
    hvf_cases = []
    hvf_cfgs = [("whfast", c_) for c_ in ("jacobi", "whds", "democraticheliocentric", "barycentric")] + \
               [("saba", None), ("mercurius", None), ("trace", None)]
    for k in range(nhvf):
        integ, coord = hvf_cfgs[k % len(hvf_cfgs)]
        while True:
            meta, p, mu, dt = gen_case(rng, hyp=(rng.random() < 0.3), max_rev=0.05, min_rev=1e-4, emax_ell=0.9)
            if meta["e"] < 1 or meta["e"] > 1.1:
                break
        G = 1.0 if rng.random() < 0.5 else 10 ** rng.uniform(-3, 3)
        q = rng.choice([0.0, 10 ** rng.uniform(-9, -2)])
        m0 = mu / G; m1 = m0 * q
        f0 = -m1 / (m0 + m1); f1 = m0 / (m0 + m1)
        P_like = 2 * math.pi * math.sqrt(meta["a"] ** 3 / mu)
        hdt = math.copysign(min(abs(dt), 0.002 * P_like), dt)
        hist = gen_history(rng, hdt, m0)
        for _ in range(rng.randint(1, 2)):
            u = rng.random()
            if u < 0.2:
                hist.append({"op": "flip_dt_steps", "integrator": rng.choice(["whfast", "saba", "mercurius"]), "n": rng.randint(1, 2),
                             "dt": hdt.hex(), "safe_mode": rng.choice([0, 1])})
            elif u < 0.4:
                hist.append({"op": "change_central_mass", "integrator": rng.choice(["whfast", "mercurius", "trace"]),
                             "factor": rng.uniform(0.5, 2.0), "n": rng.randint(1, 2), "dt": hdt.hex(), "safe_mode": rng.choice([0, 1])})
            elif u < 0.6:
                hist.append({"op": "replace_planet", "integrator": rng.choice(["whfast", "mercurius", "trace", "saba"]),
                             "sx": rng.uniform(0.9, 1.1), "sv": rng.uniform(0.9, 1.1), "n": rng.randint(1, 2), "dt": hdt.hex(),
                             "safe_mode": rng.choice([0, 1])})
            elif u < 0.7:
                hist.append({"op": "copy"})
            elif u < 0.8:
                hist.append({"op": "save_load"})
            else:       # a step longer than the period: the timestep warning has been raised once on this object
                hist.append({"op": "steps", "integrator": "whfast", "n": 1, "dt": math.copysign(3.0 * P_like, dt).hex(),
                             "coordinates": rng.choice(["jacobi", "democraticheliocentric", "whds", "barycentric"]),
                             "kernel": "default", "safe_mode": rng.choice([0, 1]), "corrector": 0})
        rng.shuffle(hist)
        case = {"integrator": integ, "coordinates": coord, "G": G.hex(), "m0": m0.hex(), "m1": m1.hex(),
                "p0": hexl([f0 * v for v in p]), "p1": hexl([f1 * v for v in p]), "dt": dt.hex(), "history": hist, "nsteps": 2,
                "safe_mode": rng.choice([0, 1]) if integ in ("whfast", "saba") else 1,
                "kernel": rng.choice(["default", "default", "lazy", "modifiedkick", "composition"]) if coord == "jacobi" else "default"}
        if integ == "saba":
            case["saba_type"] = rng.choice(SABA_TYPES)
        hvf_cases.append(case)
    hvf_out, err = run_driver(libdir, "hvf", hvf_cases, timeout=600)
    if hvf_out is None:
        ctx.violation("kepler:history_vs_fresh_%s" % ("nontermination" if err == "timeout" else "crash"), {"error": err}, False,
                      "history-vs-fresh driver did not return (%s)" % err)
        hvf_out = []
    hvf_stats = {"compared": 0, "refused": 0}
    for case, r in zip(hvf_cases, hvf_out):
        if "error" in r:
            hvf_stats["refused"] += 1
            hvf_stats.setdefault("first_error", r["error"][:160])
            continue
        hvf_stats["compared"] += 1
        ctx.evaluations += 1
        tag = case["integrator"] + ("/" + case["coordinates"] if case["coordinates"] else "")
        ctx.case(key=("hvf", tag, tuple(h["op"] + ":" + h.get("integrator", "") for h in case["history"])))
        diff = None
        for k_, (a_, b_) in enumerate(zip(r["A"], r["B"])):
            fa = [float.fromhex(v) for row in a_["state"] for v in row]; fb = [float.fromhex(v) for row in b_["state"] for v in row]
            ta = float.fromhex(a_["t"]); tb = float.fromhex(b_["t"])
            if len(fa) != len(fb) or not all(vlib.same_bits(x_, y_) for x_, y_ in zip(fa, fb)):
                worst_ = max((abs(x_ - y_) / max(abs(x_), abs(y_), 1e-300) for x_, y_ in zip(fa, fb) if x_ == x_ and y_ == y_), default=float("nan"))
                diff = "after measured step %d the particle states differ (largest relative difference %.3g)" % (k_ + 1, worst_)
                break
            if not (abs(ta - tb) <= 2 * math.ulp(max(abs(ta), abs(tb), 1e-300))):
                diff = "after measured step %d the times differ: %r vs %r" % (k_ + 1, ta, tb)
                break
        if diff:
            violations.append(("kepler:history_vs_fresh:%s" % tag,
                               {"how": "tools/c03_driver.py mode hvf: A = history then 2 steps; B = fresh simulation with A's particles, "
                                       "t, G and settings, same 2 steps", "case": case, "A": r["A"], "B": r["B"],
                                "meta": {"dt_over_P": 0.0}}, "%s: an object with a history does not continue like a fresh one: %s" % (tag, diff)))
    ctx.extra["history_vs_fresh"] = hvf_stats

    ctx.extra["full_step_cases"] = per_integ
    if errors:
        ctx.extra["full_step_errors"] = errors
    ctx.extra["oracle_could_not_judge"] = nos
    ctx.extra["oracle_could_not_judge_samples"] = nos_samples[:5]
    ctx.extra["worst_error_over_tolerance"] = {"%s:%s" % k: round(v, 5) for k, v in sorted(worst.items())}

    # report: one violation per distinct key (smallest |dt/P| first: the easiest input to look at)
    seen = set()
    for key, rep, what in sorted(violations, key=lambda v: abs(v[1].get("meta", {}).get("dt_over_P", 0.0))):
        if key in seen:
            continue
        seen.add(key)
        ctx.violation(key, rep, True, what)
    ctx.extra["searcher_failures_by_key"] = {k: sum(1 for v in violations if v[0] == k) for k in seen}

    ctx.rule = ("orbits by elements: e in {0,1e-8,...,0.999999} U random U 1+10^[-6,1.69]; a over 12 decades; mu over 9 decades; "
                "phase incl. exact peri/apocentre; |dt|/P log-uniform in [1e-8,1e3], both signs; random 3-D orientation; a case is "
                "distinct by (entry point, solver branch or integrator, decade of |dt|/P, elliptic/hyperbolic, ...)")
    ctx.extra["input_distribution"] = {"solver_cases_by_predicted_branch": {BRANCH_NAMES.get(k, str(k)): v for k, v in got.items()},
                                       "solver_random_extra": len(ecases), "full_step_per_config": nper}
    ctx.assumptions += [
        "theorems are over Coq reals: exactness of the f-g step is proved GIVEN that X solves the universal Kepler equation and "
        "that G0..G3 satisfy the Stumpff/Stiefel identities (closed forms do: proved); convergence of Newton/quartic/bisection "
        "in binary64 and the truncation error of the 13-term series are validated by the searcher, not proved",
        "the binary64 instance of the same Gallina terms is compared bit-for-bit with the compiled C function; 2.*M_PI, floor and "
        "copysign enter the model as a literal / an exact float routine / a sign test (coq/C03/Run.v)",
        "'to rounding error' is judged against the exact flow in 80-digit arithmetic with tolerance 64 u (1+theta) (for a full step: x4, x16 for SABA's 8 stages, and (1+theta)^2 because sub-steps compound) (first-order "
        "sensitivity of the exact flow to 1-roundoff input perturbations + rounding/cancellation terms of the f-g formulas + "
        "1e-15 bisection exit tolerance); theta = sqrt|beta| X is the phase advance",
        "democratic-heliocentric, barycentric, MERCURIUS, TRACE, WHFast512 are exercised with a (near-)massless secondary, as "
        "their splitting has an O(m1/m0) jump/interaction term for a massive one (DESIGN C03 reading)",
    ]


def replay(ctx, rep):
    """re-run one recorded failing input on the library built from the current tree and judge it again"""
    libdir = ctx.lib()
    r = rep["replay"]
    if "p" in r:
        p = [float.fromhex(v) for v in r["p"]]; mu = float.fromhex(r["M"]); dt = float.fromhex(r["dt"])
        out, err = run_driver(libdir, "solver", [{"p": r["p"], "M": r["M"], "dt": r["dt"], "var": None}], timeout=30)
        if out is None:
            print("library did not return:", err)
            return 1
        o = [float.fromhex(v) for v in out[0]]
        res = judge_job((p, mu, dt, o))
        print(json.dumps({"library_output": o, "judge": res}, indent=1))
        return 0 if res.get("ok") else 1
    print(json.dumps(r, indent=1))
    return 0
