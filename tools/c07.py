"""C07 — a crash during an archive write never loses completed snapshots.

1. proof obligations: coq/C07 (on top of the C06 model);
2. correspondence:
   (a) the ACTUAL write order of reb_simulation_save_to_file, observed with strace on a child process, is one
       sequential byte run at one offset, equal to write_trace of the Coq model;
   (b) for every cut offset k of every append (and a dense sample of cuts of the first write) the library opens the
       crash image in a child process; (error | corrupt warning, nblobs, offsets, times) must equal the model's
       open_archive (crash_image ...) evaluated in Coq;
3. library-only oracle on the same images: no signal exit; an error iff no snapshot was complete; otherwise exactly the
   completed snapshots, each with the same contents as in the uninterrupted archive; restart from the last intact
   snapshot + continue + append gives snapshots identical to the uninterrupted run (repeated crash/restart cycles in
   the thorough tier).
"""
import json, os, re, shutil, subprocess, sys, copy, hashlib
import vlib, c06_lib as L
import c06

SCENARIOS = [
    {"spec": {"n": 2, "integrator": "whfast", "dt": 0.05, "t0": 0.5},
     "segs": [[["step", 1]], [["step", 2]], [["reset_integrator"], ["add", 1e-4, 3.0], ["step", 1]], [["step", 1]]]},
    # variational equations are added between snapshots: a restart has to allocate and fill var_config again
    {"spec": {"n": 2, "integrator": "whfast", "dt": 0.05, "t0": 0.0},
     "segs": [[["step", 1]], [["add_variation"], ["step", 1]], [["step", 1]]]},
    # degenerate snapshots: empty deltas (snapshot byte-identical to snapshot 0: 28-byte blob), a snapshot identical to its predecessor,
    # the first append onto a one-snapshot archive being the smallest possible blob, later crashes behind empty deltas
    {"spec": {"n": 2, "integrator": "whfast", "dt": 0.05, "t0": 0.0},
     "segs": [[], [], [["step", 1]], [], [["set_t", 0.0]], [["step", 2]], []]},
    {"spec": {"n": 2, "integrator": "ias15", "dt": 0.01, "t0": 0.0},
     "segs": [[["step", 1]], [["step", 1]], [["integrator", "whfast"], ["step", 2]], [["remove_idx", 1, 1], ["add", 1e-3, 2.0], ["step", 1]]]},
    {"spec": {"n": 3, "integrator": "leapfrog", "dt": 0.02, "t0": 0.0},
     "segs": [[], [["step", 3]], [["remove_all"]], [["add", 1.0, 1.0], ["add", 1e-3, 2.0], ["step", 1]]]},
    {"spec": {"n": 2, "integrator": "janus", "dt": 0.01, "t0": 0.0},
     "segs": [[["step", 1]], [["step", 2]], [["step", 1]]]},
    {"spec": {"n": 3, "integrator": "mercurius", "dt": 0.02, "t0": 1.0},
     "segs": [[["step", 1]], [["step", 2]], [["collide"], ["step", 1]]]},
]


def build_scenario(rebound, sc, fname):
    """run the uninterrupted history in-process (benign); returns streams, files after each snapshot"""
    if os.path.exists(fname):
        os.remove(fname)
    sim = L.new_sim(rebound, sc["spec"])
    streams, files = [], []
    for seg in sc["segs"]:
        for op in seg:
            L.apply_op(rebound, sim, op, fname)
        streams.append(L.stream_of(rebound, sim))
        sim.save_to_file(fname)
        files.append(open(fname, "rb").read())
    return streams, files


def image(fa, fb, k):
    """crash image: the first k bytes of the write that turns fa into fb have reached the file"""
    off = len(fa) - 12 if fa else 0
    return fa[:off] + fb[off:off + k] + fa[off + k:]


def strace_writes(libdir, sc, tmpd):
    """run the scenario in a child under strace; returns per save_to_file call the list of (offset, bytes) writes"""
    fname = os.path.join(tmpd, "st.bin")
    script = os.path.join(tmpd, "st.py")
    open(script, "w").write(
        "import sys,json,warnings\nsys.path.insert(0,%r)\nimport c06_lib as L\nwarnings.simplefilter('ignore')\n"
        "import os\nrebound=L.load(os.environ['PYTHONPATH'].split(':')[0])\nsc=json.loads(%r)\n"
        "sim=L.new_sim(rebound,sc['spec'])\n"
        "i=0\nfor seg in sc['segs']:\n    for op in seg: L.apply_op(rebound,sim,op,%r)\n"
        "    open(%r+'.s%%d'%%i,'wb').write(L.stream_of(rebound,sim))\n    sim.save_to_file(%r)\n"
        "    open(%r+'.f%%d'%%i,'wb').write(open(%r,'rb').read())\n    i+=1\n"
        % (os.path.dirname(os.path.abspath(__file__)), json.dumps(sc), fname, fname, fname, fname, fname))
    if os.path.exists(fname):
        os.remove(fname)
    out = os.path.join(tmpd, "st.txt")
    r = subprocess.run(["strace", "-f", "-o", out, "-s", "200000", "-xx", "-e",
                        "trace=openat,read,write,lseek,pwrite64,pread64,ftruncate,truncate,close,rename,unlink,mmap", vlib.PY, script],
                       env=dict(vlib.pyenv(libdir), MALLOC_PERTURB_="85"), capture_output=True, text=True, timeout=300)
    if r.returncode != 0:
        return None, "strace/driver failed: " + r.stderr[-400:]
    sessions = []
    fd = None; pos = 0; cur = None; bad = []
    for line in open(out, errors="replace"):
        m = re.match(r"\d+\s+(\w+)\((.*)\)\s+=\s+(-?\d+)", line)
        if not m:
            continue
        call, args, ret = m.group(1), m.group(2), int(m.group(3))
        if call == "openat":
            hx = re.findall(r'"((?:\\x[0-9a-f]{2})*)"', args)
            name = bytes.fromhex(hx[0].replace("\\x", "")) if hx else b""
            if name.endswith(b"st.bin") and ret >= 0 and "O_RDONLY" not in args:
                fd = ret; pos = 0; cur = {"flags": args.split(",")[2].strip() if len(args.split(",")) > 2 else "", "writes": []}
            continue
        if fd is None:
            continue
        a0 = args.split(",")[0].strip()
        if not a0.isdigit() or int(a0) != fd:
            if call in ("truncate", "rename", "unlink") and "st.bin" in args:
                bad.append(line.strip()[:120])
            continue
        if call == "lseek":
            pos = ret
        elif call == "read":
            pos += max(ret, 0)
        elif call == "write":
            data = bytes.fromhex("".join(re.findall(r"\\x([0-9a-f]{2})", args)))
            if len(data) != ret:
                bad.append("short/unparsed write: " + line[:80])
            cur["writes"].append((pos, data)); pos += max(ret, 0)
        elif call in ("pwrite64", "ftruncate", "mmap"):
            bad.append(line.strip()[:120])
        elif call == "close":
            if cur["writes"] or "O_TRUNC" in cur["flags"] or "O_RDWR" in cur["flags"]:
                sessions.append(cur)
            fd = None; cur = None
    if bad:
        return None, "unexpected file operations: %s" % bad[:3]
    n = len(sc["segs"])
    streams = [open(fname + ".s%d" % i, "rb").read() for i in range(n)]
    files = [open(fname + ".f%d" % i, "rb").read() for i in range(n)]
    return sessions, (streams, files)


def run(ctx):
    libdir = ctx.lib()
    c06.layout_obligation(ctx)
    ctx.regen("translate_descriptors.py")
    proved = ctx.prove("C07", extra_targets=["C06/Run.vo", "C07/Attach.vo"])
    rebound = L.load(libdir)
    ft = L.field_types(rebound)
    E = ft["end"][0]
    rng = ctx.rng
    tmpd = os.path.join(vlib.BUILD, "c07_tmp_%d" % os.getpid())
    shutil.rmtree(tmpd, ignore_errors=True); os.makedirs(tmpd)
    try:
        _run(ctx, libdir, rebound, ft, E, rng, tmpd)
    finally:
        shutil.rmtree(tmpd, ignore_errors=True)


def _run(ctx, libdir, rebound, ft, E, rng, tmpd):
    import warnings
    warnings.simplefilter("ignore")
    scen = SCENARIOS[:ctx.scale(4, 7)]
    if ctx.thorough:
        for _ in range(6):
            h = c06.gen_history(rng, small=True)
            segs, cur = [], []
            for op in h["ops"]:
                if op == ["snap"]:
                    segs.append(cur); cur = []
                elif op[0] not in ("signed_zero",):
                    cur.append(op)
            if h["spec"]["integrator"] in ("whfast", "ias15", "leapfrog", "janus", "mercurius") and len(segs) >= 2:
                scen.append({"spec": h["spec"], "segs": segs})
    coq_jobs = []       # (name, body)
    coq_meta = []
    open_jobs = []      # library open of every image
    open_meta = []      # (scenario, append index a, cut k, n_complete)
    resume_jobs = []; resume_meta = []
    r1_jobs = []; r1_meta = []
    rr_jobs = []; rr_meta = []
    ref_hash = {}
    ref_relaxed = {}
    ref_noseed = {}
    uninit = []
    first_files = {}
    trace_ok = True; trace_detail = []
    ntraces = 0
    for si, sc in enumerate(scen):
        # the scenario runs ONCE, in a child under strace; that run provides the streams, the files and the write order
        sessions, got = strace_writes(libdir, sc, tmpd)
        if sessions is None:
            trace_ok = False; trace_detail.append("scenario %d: %s" % (si, got))
            continue
        streams, files = got
        filesm = [L.mask_padding(f, E, 64, True) for f in files]
        # reference: snapshots of the uninterrupted archive
        pth = os.path.join(tmpd, "ref%d.bin" % si); open(pth, "wb").write(files[-1])
        rr = c06.run_jobs(libdir, [[{"kind": "open", "file": pth, "load": True, "noseed": True}]])[0]
        if not isinstance(rr, list) or "snap_hashes" not in rr[0]:
            ctx.violation("open-intact", {"scenario": sc, "result": str(rr)[:400]}, True, "property=C07 the uninterrupted archive cannot be opened")
            continue
        ref_hash[si] = rr[0]["snap_hashes"]; ref_index = rr[0]["index"]; ref_relaxed[si] = rr[0]["snap_hashes_relaxed"]; ref_noseed[si] = rr[0].get("snap_hashes_noseed")
        first_files[si] = files[0]
        # ---- (a) strace tie
        if len(sessions) != len(files):
            trace_ok = False; trace_detail.append("scenario %d: %d write sessions for %d snapshots" % (si, len(sessions), len(files)))
        body = L.PRELUDE + L.rcfg_text(ft)
        body += ("Definition tr_ok (x : option (N * list N)) (o : N) (b : list N) : bool := "
                 "match x with Some (o', b') => (o' =? o) && leqb b' b | None => false end.\n")
        for i, s in enumerate(streams):
            body += "Definition s%d := %s.\n" % (i, L.nl(s))
        for i, f in enumerate(filesm):
            body += "Definition f%d := %s.\n" % (i, L.nl(f))
        tr_terms = []
        for a in range(1, len(files)):
            if a < len(sessions):
                ws = sessions[a]["writes"]
                seq = all(ws[i + 1][0] == ws[i][0] + len(ws[i][1]) for i in range(len(ws) - 1))
                if not ws or not seq:
                    trace_ok = False; trace_detail.append("scenario %d append %d: writes not one sequential run: %s" % (si, a, [(o, len(d)) for o, d in ws]))
                    continue
                data = b"".join(d for _, d in ws)
                data = data[:12] + L.mask_padding(data[12:], E)
                tr_terms.append("tr_ok (trace_of R f%d s%d) %d %s" % (a - 1, a, ws[0][0], L.nl(data)))
        if sessions:
            ws = sessions[0]["writes"]
            if not ws or ws[0][0] != 0 or b"".join(d for _, d in ws) != files[0] or "O_TRUNC" not in sessions[0]["flags"]:
                trace_ok = False; trace_detail.append("scenario %d: first write is not one sequential write of the stream at offset 0" % si)
        body_tr = body + "Eval vm_compute in (bad_from Bool.eqb 0 [%s]).\n" % ";".join("(%s, true)" % t for t in tr_terms)
        coq_jobs.append(("c07_trace_%d" % si, body_tr)); coq_meta.append(("trace", si, len(tr_terms)))
        ntraces += len(tr_terms)
        # ---- (b) crash images of every append, every cut
        for a in range(1, len(files)):
            fa, fb = files[a - 1], files[a]
            wlen = len(fb) - (len(fa) - 12)
            cuts = list(range(0, wlen + 1))
            if not ctx.thorough and not (si == 0 and a == 1) and wlen > 160:     # small writes (empty deltas: 40 bytes) are always swept completely
                cuts = sorted(set(list(range(0, 30)) + list(range(wlen - 45, wlen + 1)) + rng.sample(range(wlen), min(wlen, 40))))
            exp = []
            for k in cuts:
                p = os.path.join(tmpd, "img_%d_%d_%d.bin" % (si, a, k))
                open(p, "wb").write(image(fa, fb, k))
                open_jobs.append({"kind": "open", "file": p, "load": True}); open_meta.append((si, a, k, a if k < wlen else a + 1))
            for ci in range(0, len(cuts), 600):
                cc = cuts[ci:ci + 600]
                coq_jobs.append(("c07_cut_%d_%d_%d" % (si, a, ci), body + "Eval vm_compute in (crash_opens R f%d s%d [%s]).\n"
                                 % (a - 1, a, ";".join("%d%%nat" % k for k in cc))))
                coq_meta.append(("cut", si, a, cc))
            # restart from the last intact snapshot for a few cuts, continue the history, compare with the uninterrupted run
            for k in sorted(set(([1, 9, 11, 12, 13, wlen // 2, wlen - 29, wlen - 13, wlen - 11, wlen - 6, wlen - 1] if (ctx.thorough or si == 0) else [10, wlen - 13, wlen - 7, wlen - 2]) + [rng.randrange(wlen)])):
                if 0 <= k < wlen:
                    p = os.path.join(tmpd, "res_%d_%d_%d.bin" % (si, a, k))
                    open(p, "wb").write(image(fa, fb, k))
                    ops = []
                    for seg in sc["segs"][a:]:
                        ops += seg + [["snap"]]
                    resume_jobs.append({"kind": "resume", "file": p, "ops": ops}); resume_meta.append((si, a, k))
            if si == 2 and a >= 2:
                for k in sorted(set([10, wlen // 2, wlen - 2, rng.randrange(wlen)])):
                    p = os.path.join(tmpd, "r1_%d_%d_%d.bin" % (si, a, k))
                    open(p, "wb").write(image(fa, fb, k))
                    r1_jobs.append({"kind": "resume1", "file": p, "ops": list(sc["segs"][a])}); r1_meta.append((si, a, k))
        # first write: dense sample of cuts
        f0 = files[0]
        for k in sorted(set([0, 1, 16, 63, 64, 65, len(f0) // 2, len(f0) - 29, len(f0) - 13, len(f0) - 12, len(f0) - 7, len(f0) - 1])):
            p = os.path.join(tmpd, "rr_%d_%d.bin" % (si, k))
            open(p, "wb").write(f0[:k])
            rr_jobs.append({"kind": "rerun", "file": p, "spec": sc["spec"], "segs": sc["segs"]}); rr_meta.append((si, k, len(f0)))
        if si == 2:
            for k in (len(f0) - 12, len(f0) - 7, len(f0) - 1):
                p = os.path.join(tmpd, "r1f_%d_%d.bin" % (si, k))
                open(p, "wb").write(f0[:k])
                r1_jobs.append({"kind": "resume1", "file": p, "ops": list(sc["segs"][1])}); r1_meta.append((si, 0, k))
        cuts0 = sorted(set(list(range(0, 20)) + [63, 64, 65, 79, 80, 81] + list(range(len(f0) - 40, len(f0) + 1)) + rng.sample(range(len(f0)), ctx.scale(40, 600))))
        for k in cuts0:
            p = os.path.join(tmpd, "img_%d_0_%d.bin" % (si, k))
            open(p, "wb").write(f0[:k])
            open_jobs.append({"kind": "open", "file": p, "load": True}); open_meta.append((si, 0, k, 0 if k < len(f0) - 12 else 1))
        coq_jobs.append(("c07_cut_%d_0" % si, body + "Eval vm_compute in (crash_first_opens R s0 [%s]).\n" % ";".join("%d%%nat" % k for k in cuts0)))
        coq_meta.append(("cut", si, 0, cuts0))

    ctx.log("scenarios traced; %d crash images to open in child processes, %d restarts, %d Coq evaluations" % (len(open_jobs), len(resume_jobs), len(coq_jobs)))
    # ---- run library side (children) and Coq side concurrently
    from concurrent.futures import ThreadPoolExecutor
    with ThreadPoolExecutor(max_workers=2) as ex:
        fut_coq = ex.submit(vlib.coq_eval_many, coq_jobs, ctx.scale(600, 2400))
        per = 40
        batches = [open_jobs[i:i + per] for i in range(0, len(open_jobs), per)]
        lib_res = []
        for bi, r in enumerate(c06.run_jobs(libdir, batches, timeout=300)):
            if isinstance(r, list):
                lib_res += r
            else:
                for job in batches[bi]:
                    r1 = c06.run_jobs(libdir, [[job]], timeout=60)[0]
                    lib_res.append(r1[0] if isinstance(r1, list) else {"died": r1[0], "stderr": r1[1]})
        res_res = []
        rb = [resume_jobs[i:i + 6] for i in range(0, len(resume_jobs), 6)]
        # the reference run was made with MALLOC_PERTURB_=85, the restarted ones use another fill byte: a persisted member the library
        # never initialises then differs between the uninterrupted and the restarted archive (instead of depending on the allocator's mood)
        for bi, r in enumerate(c06.run_jobs(libdir, rb, timeout=300, env_extra={"MALLOC_PERTURB_": "170"})):
            if isinstance(r, list):
                res_res += r
            else:
                for job in rb[bi]:
                    r1 = c06.run_jobs(libdir, [[job]], timeout=60, env_extra={"MALLOC_PERTURB_": "170"})[0]
                    res_res.append(r1[0] if isinstance(r1, list) else {"died": r1[0], "stderr": r1[1]})
        coq_out = fut_coq.result()

    # ---- crash during the FIRST write (zero-length file, cut inside the header, inside the fields, inside the 12-byte trailer):
    #      restart from snapshot 0 if it is exposed, else run again from the start with the same file name
    rrres = c06.run_jobs(libdir, [rr_jobs[i:i + 4] for i in range(0, len(rr_jobs), 4)], timeout=200)
    rrres = [x for b in rrres for x in (b if isinstance(b, list) else [{"died": str(b)}] * 4)]
    rrbad = []; leak = []
    for (si, k, n0), r in zip(rr_meta, rrres):
        ctx.case(key=("rerun", si, k), sample={"first_write_cut": k, "of": n0, "scenario": si, "restarted_from_snapshot0": r.get("restarted_from_snapshot0")} if len(ctx.samples) < 6 else None)
        if k >= n0 - 12:
            # cut inside the trailer of snapshot 0: snapshot 0 is exposed; restart + continue + append must give the uninterrupted archive
            same = r.get("restarted_from_snapshot0") and r.get("snap_hashes") == ref_hash.get(si)
        else:
            # no complete snapshot exists: opening reports an error (checked by the sweep); re-running with the same file name is refused
            # with a warning and the user's file is left alone - accepted (outside the property); it must not crash or leak
            same = (not r.get("restarted_from_snapshot0")) and "died" not in r and "exception" not in r
        if si in ref_hash and not same:
            rrbad.append((si, k, n0, r))
        if r.get("fd_growth", 0) > 0:
            leak.append((si, k, n0, r))
    if rrbad:
        si, k, n0, r = rrbad[0]
        ctx.violation("restart-after-first-write-crash", {"scenario": scen[si], "first_write_cut": k, "first_write_length": n0, "result": {x: r[x] for x in r if "hash" not in x},
                                                          "n_cases": len(rrbad), "cuts": [x[1] - x[2] for x in rrbad], "how": "tools/c06_driver.py job_rerun"}, True,
                      "property=C07 crash %d bytes before the end of the FIRST snapshot write: %s, then continuing and appending gives %d readable snapshots instead of %d"
                      % (n0 - k, "snapshot 0 is exposed and restarted from" if r.get("restarted_from_snapshot0") else "no snapshot is exposed, the history is run again with the same file name",
                         len(r.get("snap_hashes", [])), len(ref_hash[si])))
    if leak:
        si, k, n0, r = leak[0]
        ctx.violation("failed-append-leaks-descriptor", {"scenario": scen[si], "first_write_cut": k, "fd_growth": r["fd_growth"], "n_cases": len(leak)}, True,
                      "property=C07 every refused append to a file without a complete first snapshot leaks an open FILE* (%d descriptors after %d saves); "
                      "when descriptors run out fopen returns NULL and fseek(NULL) crashes the process" % (r["fd_growth"], len(scen[si]["segs"])))

    # ---- trailer members / field sizes near the integer limits: opening must neither crash nor hang, and agree with the model
    cw = ["next_max", "next_neg", "next_m1", "prev_neg", "prev_max", "idx_neg", "size_big", "size_2_63", "size_m16", "size_m1", "last_next_max"]
    cres = c06.run_jobs(libdir, [[{"kind": "crafted", "what": w, "bytes": True}] for w in cw], timeout=60)
    cbody = L.PRELUDE + L.rcfg_text(ft); cterms = []
    for w, r in zip(cw, cres):
        r0 = r[0] if isinstance(r, list) else None
        ctx.case(key=("crafted", w))
        if r0 is None or "index" not in r0:
            ctx.violation("crafted-limits-open", {"what": w, "result": str(r)[:300], "how": "tools/c06_driver.py job_crafted"}, True,
                          "property=C07 opening an archive whose %s is near the integer limits kills or hangs the process: %s" % (w, str(r)[:120]))
            continue
        cbody += "Definition c_%s := %s.\n" % (w, L.nl(bytes.fromhex(r0["file"])))
        ok_, cw_, idx_ = r0["index"]
        cterms.append("(open_flat R c_%s, %s)" % (w, L.coq_open((ok_, cw_, [tuple(x) for x in idx_]))))
    cbody += "Eval vm_compute in (bad_open [%s]).\n" % ";".join(cterms)
    cok, cout = vlib.coq_eval("c07_crafted", cbody, timeout=300)
    cbad = vlib.parse_coq_list_nat(cout) if cok else None
    ctx.obligation("correspondence:C07 model open == library open on %d archives with trailer members / field sizes near the integer limits" % len(cterms),
                   len(cterms) >= 8 and cbad == [], "differing %s %s" % ([cw[i] for i in (cbad or [])], cout[-300:] if cbad is None else ""))

    # ---- the append performed ON a crash image (corruption test, repair walk, in-place patch, write): model save_append vs library
    r1res = c06.run_jobs(libdir, [[j] for j in r1_jobs], timeout=120)
    terms = []
    r1body = L.PRELUDE + L.rcfg_text(ft)
    for i, (job, r) in enumerate(zip(r1_jobs, r1res)):
        r0 = r[0] if isinstance(r, list) else {}
        if "after" not in r0:
            terms.append(None); continue
        r1body += "Definition i%d := %s.\nDefinition n%d := %s.\nDefinition a%d := %s.\n" % (
            i, L.nl(bytes.fromhex(r0["image"])), i, L.nl(bytes.fromhex(r0["stream"])), i, L.nl(bytes.fromhex(r0["after"])))
        terms.append("(append_file R i%d n%d, a%d)" % (i, i, i))
    good = [t for t in terms if t]
    r1body += "Eval vm_compute in (bad_bytes [%s]).\n" % ";".join(good)
    r1ok, r1out = vlib.coq_eval("c07_resume1", r1body, timeout=600) if good else (False, "no cases")
    r1bad = vlib.parse_coq_list_nat(r1out) if r1ok else None
    ctx.obligation("correspondence:C07 model save_append on crash images (repair walk incl. empty deltas) == file written by the library on %d restarts" % len(good),
                   len(good) >= 6 and len(good) == len(terms) and r1bad == [],
                   "differing cases %s %s" % (r1bad, [r1_meta[i] for i in (r1bad or [])[:4]] if r1bad else r1out[-300:] + str([x for x in r1res if not isinstance(x, list)][:1])))
    if r1bad == []:
        ctx.traces += len(good)

    # ---- attach logic (reb_simulation_save_to_file_{interval,step,walltime}): model vs library on the cadence state and file size
    ar = c06.run_jobs(libdir, [[{"kind": "attach", "presteps": rng.randint(0, 5), "restart_from": sorted(rng.sample(range(0, 4), 2))}]], timeout=120)[0]
    obs = ar[0].get("obs", []) if isinstance(ar, list) else []
    body = L.PRELUDE + "From RV Require Import C07.Attach.\n"
    body += "Definition sl (s : sa_state) : list N := [a_interval s; a_walltime s; a_step s; a_next s; a_next_step s; a_t s; a_wall s; a_steps_done s].\n"
    terms = []
    for o in obs:
        b = "(mkSA %s)" % " ".join(str(x) for x in o["before"])
        terms.append("(sl (attach_%s %d %s), %s)" % (o["mode"], o["val"], b, L.nl(o["after"])))
    body += "Eval vm_compute in (bad_bytes [%s]).\n" % ";".join(terms)
    aok, aout = vlib.coq_eval("c07_attach", body)
    abad = vlib.parse_coq_list_nat(aout) if aok else None
    size_bad = [i for i, o in enumerate(obs) if o["size_before"] != o["size_after"]]
    ctx.obligation("correspondence:C07 attach model == library on %d attach calls (auto_interval/auto_walltime/auto_step/next/next_step; no file write)" % len(obs),
                   len(obs) >= 30 and abad == [] and not size_bad,
                   "mismatching attach observations %s %s %s" % (abad, size_bad, [obs[i] for i in (abad or [])[:2]] if abad else (aout[-300:] if not aok else str(ar)[:300])))
    ctx.traces += len(obs) if abad == [] else 0

    # ---- automatic cadence x crash points x 1-3 crash/restart cycles: restarted archive == uninterrupted archive
    aj = []
    # both directions of time (the heartbeat uses sign(dt)), t0 = 0 and != 0
    for mode, val, dt, t0 in (("step", 25, 0.1313, 0.0), ("interval", 25 * 0.1313, 0.1313, 0.0), ("step", 7, -0.1313, 2.0), ("interval", 9.37 * 0.1313, 0.1313, -3.0),
                              ("interval", 25 * 0.1313, -0.1313, 0.0), ("interval", 9.37 * 0.1313, -0.1313, 5.0)):
        n_snap = 230 // 25 if val in (25, 25 * 0.1313) else 230 // 9
        for ncyc in (1, 2, 3):
            for rep in range(ctx.scale(1, 6)):
                js = sorted(rng.sample(range(1, n_snap), ncyc))
                aj.append({"kind": "autocrash", "mode": mode, "val": val, "nsteps": 230, "dt": dt, "t0": t0,
                           "crashes": [[j, rng.choice([0.0, 0.005, 0.012, rng.random(), rng.random(), 0.985, 0.999])] for j in js]})
    ares = c06.run_jobs(libdir, [[j] for j in aj], timeout=200)
    abadl = []
    for job, r in zip(aj, ares):
        r0 = r[0] if isinstance(r, list) else {"died": r[0], "stderr": r[1]}
        ctx.case(key=("autocrash", job["mode"], job["val"], tuple(tuple(x) for x in job["crashes"])),
                 sample={"autocrash": job, "cycles": r0.get("cycles")} if len(ctx.samples) < 5 else None)
        if not (r0.get("times_equal") and r0.get("hashes_equal") and r0.get("n") == r0.get("ref_n")):
            abadl.append((job, r0))
    if abadl:
        job, r0 = min(abadl, key=lambda jr: len(jr[0]["crashes"]))
        ctx.violation("restart-cadence-%s" % job["mode"], {"job": job, "result": {k: v for k, v in r0.items() if k not in ("ref_t", "t")},
                                                            "ref_t_bits": r0.get("ref_t"), "t_bits": r0.get("t"), "how": "tools/c06_driver.py job_autocrash", "n_cases": len(abadl)}, True,
                      "property=C07 %s cadence: after %d crash/restart cycle(s) (crash in the write of snapshot %s, restart from the last intact snapshot, re-attach with the same "
                      "cadence, run on) the archive has %s snapshots, the uninterrupted run %s; times equal: %s, contents equal: %s"
                      % (job["mode"], len(job["crashes"]), [c[0] for c in job["crashes"]], r0.get("n"), r0.get("ref_n"), r0.get("times_equal"), r0.get("hashes_equal")))
    ctx.extra["auto_cadence_crash_restart_jobs"] = len(aj)

    # ---- restart_spoof_refuted replayed on the real library (always run)
    sp = c06.run_jobs(libdir, [[{"kind": "spoof", "cut_delta": 0}], [{"kind": "spoof", "cut_delta": -1}]], timeout=120)
    spr = [x[0] if isinstance(x, list) else {"died": x} for x in sp]
    ctx.extra["spoof_replay"] = spr
    ctx.case(key=("spoof", 0), sample={"spoof": spr[0]} if len(ctx.samples) < 6 else None)
    if "nblobs_after_two_appends" not in spr[1] or spr[1]["nblobs_after_two_appends"] != 4:
        ctx.violation("restart-control", {"job": "spoof cut_delta=-1", "result": spr[1]}, True,
                      "property=C07 restart after a crash one byte before the spoof position does not recover both appended snapshots: %s" % (spr[1],))
    if "nblobs_after_two_appends" not in spr[0] or spr[0]["nblobs_after_two_appends"] != 4:
        ctx.violation("restart-spoofed-tail", {"job": {"kind": "spoof", "cut_delta": 0}, "result": spr[0],
                                               "how": "tools/c06_driver.py job_spoof: particle coordinates x=END-type bits, y=0, z=(128<<32|7) bits, vx=1.0, "
                                                      "previous particle y=(128<<32|0x1234) bits; crash 28 bytes behind that x in the append"}, True,
                      "property=C07 crafted particle coordinates defeat the corruption detection of reb_simulation_save_to_file: after the crash, restart + 2 appends "
                      "leave %s snapshots readable instead of 4 (no warning; the appended snapshots are lost)" % spr[0].get("nblobs_after_two_appends"))

    # ---- repeated crash / restart cycles (thorough tier)
    if ctx.thorough:
        cyc_jobs = []; cyc_meta = []
        for si, sc in enumerate(scen):
            if si not in ref_hash:
                continue
            for rep in range(6):
                p = os.path.join(tmpd, "cyc_%d_%d.bin" % (si, rep))
                open(p, "wb").write(first_files[si])
                ncr = rng.randint(2, 5)
                cyc_jobs.append({"kind": "cycle", "file": p, "segs": sc["segs"][1:], "cuts": [rng.random() for _ in range(ncr)]})
                cyc_meta.append((si, rep))
        cres = c06.run_jobs(libdir, [[j] for j in cyc_jobs], timeout=300)
        for (si, rep), job, r in zip(cyc_meta, cyc_jobs, cres):
            r0 = r[0] if isinstance(r, list) else {"died": r[0], "stderr": r[1]}
            ctx.case(key=("cycle", si, rep))
            if r0.get("snap_hashes") != ref_hash[si] and r0.get("snap_hashes_relaxed") == ref_relaxed[si]:
                uninit.append({"scenario": scen[si], "what": "crash/restart cycles"})
            elif r0.get("snap_hashes") != ref_hash[si]:
                ctx.violation("restart-cycles", {"scenario": scen[si], "cuts_as_fractions_of_each_write": job["cuts"], "result": str(r0)[:300]}, True,
                              "property=C07 after %d crash/restart cycles the archive differs from the uninterrupted run (%s)" % (len(job["cuts"]), str(r0)[:120]))
        ctx.extra["crash_restart_cycles"] = len(cyc_jobs)

    # ---- library-only oracle
    lib_by = {}
    viol = {}
    for (si, a, k, ncomplete), r in zip(open_meta, lib_res):
        lib_by[(si, a, k)] = r
        ctx.case(key=("open", si, a, k), sample={"scenario": si, "append": a, "cut": k, "result": r.get("index")} if len(ctx.samples) < 3 else None)
        what = None
        if "died" in r:
            what = "opening the crash image killed the process (status %s %s)" % (r["died"], r.get("stderr", "")[-80:])
        elif "exception" in r:
            what = "unexpected exception while opening/loading: %s" % r["exception"]
        else:
            ok, cw, idx = r["index"]
            if ncomplete == 0:
                if ok:
                    what = "no complete snapshot but no error reported (nblobs=%d)" % len(idx)
            elif not ok:
                what = "error reported although %d snapshots were complete" % ncomplete
            elif len(idx) != ncomplete:
                what = "%d snapshots exposed, %d were complete" % (len(idx), ncomplete)
            elif r.get("snap_hashes") != ref_hash[si][:ncomplete]:
                what = "exposed snapshots differ from those of the uninterrupted archive"
        if what:
            viol.setdefault(what.split("(")[0][:60], []).append(({"scenario": scen[si], "append": a, "cut_offset": k}, what))
    for (si, a, k), r in zip(resume_meta, res_res):
        ctx.case(key=("resume", si, a, k), sample={"scenario": si, "append": a, "cut": k, "restart_from": r.get("restart_from")} if len(ctx.samples) < 6 else None)
        what = None
        if "died" in r:
            what = "restart/append on the crash image killed the process (status %s)" % r["died"]
        elif "exception" in r:
            what = "restart/append raised %s" % r["exception"]
        elif r["index"][0] and r["snap_hashes"] != ref_hash[si] and r.get("snap_hashes_relaxed") == ref_relaxed[si]:
            uninit.append({"scenario": scen[si], "append": a, "cut_offset": k})
        elif not r["index"][0] or r["snap_hashes"] != ref_hash[si]:
            what = "archive after restart+append has %d snapshots; they differ from the uninterrupted run (%d snapshots)" % (
                len(r.get("snap_hashes", [])), len(ref_hash[si]))
        if what:
            viol.setdefault("restart: " + what[:40], []).append(({"scenario": scen[si], "append": a, "cut_offset": k, "then": "restart from last intact snapshot, continue, append"}, what))
    if uninit:
        ctx.violation("uninitialised-var-config-members", dict(uninit[0], n_cases=len(uninit)), True,
                      "property=C07 restart + continue differs from the uninterrupted run ONLY in index_1st_order_a/b of first-order var_config records: "
                      "reb_simulation_add_variation_1st_order never initialises them (heap garbage is persisted)")
    for key, lst in viol.items():
        rep, what = lst[0]
        ctx.violation(key.strip(), dict(rep, n_cases=len(lst), how="image = file before the append with the first cut_offset bytes of the write applied (tools/c07.py image())"), True,
                      "property=C07 " + what + " [scenario %s append %d cut %d]" % (json.dumps(rep["scenario"]["spec"]), rep["append"], rep["cut_offset"]))

    # ---- correspondence: model predictions
    nbad = []; ncmp = 0
    for (name, ok, out), meta in zip(coq_out, coq_meta):
        if meta[0] == "trace":
            l = vlib.parse_coq_list_nat(out) if ok else None
            if l is None or l:
                trace_ok = False; trace_detail.append("scenario %d: model write_trace differs from observed writes at appends %s %s" % (meta[1], l, "" if ok else out[-300:]))
            continue
        _, si, a, cuts = meta
        m = re.search(r"=\s*\[(.*)\]\s*:\s*list \(bool \* bool \* list \(N \* N\)\)", out, re.S) if ok else None
        if not m:
            nbad.append("scenario %d append %d: coq evaluation failed %s" % (si, a, out[-300:])); continue
        items = re.findall(r"\(\s*(true|false),\s*(true|false),\s*\[([^\]]*)\]\s*\)", m.group(1))
        if len(items) != len(cuts):
            nbad.append("scenario %d append %d: %d predictions for %d cuts" % (si, a, len(items), len(cuts))); continue
        for k, (o, cwm, lst) in zip(cuts, items):
            r = lib_by.get((si, a, k))
            if r is None or "index" not in r:
                nbad.append("scenario %d append %d cut %d: no library result" % (si, a, k)); continue
            pred = (o == "true", cwm == "true", [tuple(int(x) for x in p.split(",")) for p in re.findall(r"\(([^)]*)\)", lst)])
            got = (r["index"][0], r["index"][1], [tuple(x) for x in r["index"][2]])
            ncmp += 1
            if pred != got:
                nbad.append("scenario %d append %d cut %d: model %s library %s" % (si, a, k, str(pred)[:150], str(got)[:150]))
    ctx.traces = (ctx.traces or 0) + ncmp + ntraces
    ctx.obligation("correspondence:C07 observed write order (strace) == model write_trace on %d appends" % ntraces, trace_ok and ntraces > 0,
                   "; ".join(trace_detail[:4]))
    ctx.obligation("correspondence:C07 model open(crash_image) == library open on %d crash images" % ncmp, ncmp > 0 and not nbad, "; ".join(nbad[:5]))
    ctx.extra["crash_images"] = len(open_jobs); ctx.extra["restarts"] = len(resume_jobs)
    ctx.extra["exhaustive_over_cut_offsets_of_appends"] = True
    ctx.rule = ("scenarios (whfast/ias15/leapfrog/janus/mercurius, structural changes between snapshots); every byte offset of every append of scenario 0 "
                "(quick: dense sample for the others; thorough: all), dense sample of cuts of the first write; distinct by (scenario, append, cut offset); "
                "restart+continue+append for ~10 cuts per append")
    ctx.assumptions += [
        "writes reach the file in program order and a crash leaves a byte prefix of the write (the write order itself is observed with strace, not assumed)",
        "crash_prefix_safe and restart_equiv (under no_spoof) are proved for every cut offset of a single interrupted write on an intact archive; repeated "
        "crash/restart cycles with stale tails are covered by the searcher only",
        "known open finding restart-spoofed-tail: crafted payload bytes defeat the corruption test (replayed on every run)",
        "torn writes below byte granularity, fsync / page-cache reordering, MPI file names: not covered",
    ]
