import json,sys,subprocess,os
pid=sys.argv[1]; tag=sys.argv[2] if len(sys.argv)>2 else "a"
p=[json.loads(l) for l in open('/verif/properties.jsonl') if json.loads(l)['id']==pid][0]
wt="/tmp/mut_%s%s"%(pid.lower(),tag); out="/tmp/mutout_%s%s"%(pid.lower(),tag)
if not os.path.exists(wt):
    subprocess.run(["git","-C","/repo","worktree","add","-q","--detach",wt,"HEAD"],check=True)
t=open('/verif/tools/mut_prompt.txt').read()
t=t.replace("{WT}",wt).replace("{OUT}",out).replace("{PID}",pid).replace("{TITLE}",p['title']).replace("{STATEMENT}",p['statement']).replace("{QUANT}",p['quantifier']['text'])
open("/tmp/scratch/mutprompt_%s%s.txt"%(pid,tag),"w").write(t)
print(t)
