"""C09 — deferred synchronisation never changes the physics.

1. proof obligations: coq/C09 (drivers of WHFast / SABA / MERCURIUS / EOS over abstract operators; keep_unsynchronized
   transparency and idempotence of synchronize without any law, deferred = safe under the flow laws; refuted witnesses);
2. correspondence (model vs library, the library is never compared with itself):
   A. the sequence of operator calls (name + binary64 argument) the library executes for every API call of a random call
      sequence (gdb on a -O0 -g build of the CURRENT tree, tools/c09_driver.c + tools/c09_trace.gdb) == the operator
      word of the model's logging instance evaluated by vm_compute (arguments compared bit for bit);
   B. the flags is_synchronized / recalculate_coordinates_this_timestep / safe_mode / keep_unsynchronized after every
      API call on the PRODUCTION build == the model's flags;
3. searcher (library only, tools/c09_search.py, default and AVX512 build): bitwise transparency of inserted
   synchronize/save/copy/energy/read/integrate calls under keep_unsynchronized, safe vs deferred within rounding
   (EOS: within its truncation error), synchronize twice == once; failing call sequences are shrunk.
"""
import json, os, re, subprocess, sys, tempfile
from concurrent.futures import ThreadPoolExecutor
import vlib

HERE = os.path.dirname(os.path.abspath(__file__))
KERNELS = ["KDefault", "KModifiedKick", "KComposition", "KLazy"]
COORDS = ["CJacobi", "CDemocraticHeliocentric", "CWHDS", "CBarycentric"]


# ------------------------------------------------------------------------------------------ tables from the source
def parse_tables():
    src = open(os.path.join(vlib.REPO, "src", "integrator_saba.c")).read()
    src_nc = re.sub(r"//[^\n]*", "", src)

    def table(name, rows):
        m = re.search(r"static const double %s\[(\d+)\](?:\[(\d+)\])?\s*=\s*\{(.*?)\};" % name, src_nc, re.S)
        if not m: raise RuntimeError("table %s not found" % name)
        body = m.group(3)
        if m.group(2):
            rs = re.findall(r"\{([^{}]*)\}", body)
            out = [[float(x) for x in r.replace("\n", " ").split(",") if x.strip()] for r in rs]
            if len(out) != int(m.group(1)) or len(out) != rows: raise RuntimeError("table %s: %d rows" % (name, len(out)))
            return [r + [0.0] * (int(m.group(2)) - len(r)) for r in out]
        out = [float(x) for x in body.replace("\n", " ").split(",") if x.strip()]
        if len(out) != rows: raise RuntimeError("table %s: %d entries" % (name, len(out)))
        return out
    c = table("reb_saba_c", 10); d = table("reb_saba_d", 10); cc = table("reb_saba_cc", 4)
    hdr = open(os.path.join(vlib.REPO, "src", "rebound.h")).read()
    enum = {m.group(1): int(m.group(2), 16) for m in re.finditer(r"(REB_SABA_\w+)\s*=\s*(0x[0-9a-fA-F]+)", hdr)}
    m = re.search(r"static int reb_saba_stages\(const int type\)\{\s*switch\(type\)\{(.*?)default:", src_nc, re.S)
    if not m: raise RuntimeError("reb_saba_stages not found")
    stages = {}; pending = []
    for tok in re.finditer(r"case\s+(\w+)\s*:|return\s+(\d+)\s*;", m.group(1)):
        if tok.group(1): pending.append(enum[tok.group(1)])
        else:
            for t in pending: stages[t] = int(tok.group(2))
            pending = []
    if len(stages) != 18: raise RuntimeError("reb_saba_stages: %d types" % len(stages))
    eos = open(os.path.join(vlib.REPO, "src", "integrator_eos.c")).read()

    def const(name, idx=None):
        m = re.search(r"static const double %s(?:\[\d+\])?\s*=\s*\{?([^;]*?)\}?;" % name, eos)
        if not m: raise RuntimeError("constant %s not found" % name)
        vals = [float(x) for x in m.group(1).split(",") if x.strip()]
        return vals[idx or 0]
    K = {"lf4_a": const("lf4_a"), "lf6_a0": const("lf6_a", 0), "lf8_a0": const("lf8_a", 0), "lf4_2_a": const("lf4_2_a"),
         "lf8_6_4_a0": const("lf8_6_4_a", 0), "plf7_6_4_a0": const("plf7_6_4_a", 0), "pmlf6_a0": const("pmlf6_a", 0)}
    return {"c": c, "d": d, "cc": cc, "stages": stages, "eos": K}


def eos_a0dt(K, phi0, dt):
    """the argument of the first/last drift as reb_integrator_eos_synchronize computes it (C evaluation order)"""
    return [dt * 0.5, dt * K["lf4_a"], dt * K["lf6_a0"] * 0.5, dt * K["lf8_a0"] * 0.5, dt * K["lf4_2_a"],
            dt * K["lf8_6_4_a0"], dt * K["plf7_6_4_a0"], dt * 0.5, dt * K["pmlf6_a0"]][phi0]


# ------------------------------------------------------------------------------------------ builds
def build_driver(libdir, tag):
    exe = os.path.join(libdir, "c09_driver_" + tag)
    src = os.path.join(HERE, "c09_driver.c")
    if os.path.exists(exe) and os.path.getmtime(exe) >= os.path.getmtime(src):
        return exe
    tmp = exe + ".tmp%d" % os.getpid()
    r = subprocess.run(["gcc", "-O0", "-g", "-std=gnu99", "-I", os.path.join(vlib.REPO, "src"), src, "-o", tmp,
                        "-L", libdir, "-l:librebound" + vlib.SUFFIX, "-Wl,-rpath," + libdir, "-lm"], capture_output=True, text=True)
    if r.returncode != 0:
        raise RuntimeError("driver does not compile: " + r.stderr[-1500:])
    os.replace(tmp, exe)
    return exe


def run_trace(exe_dbg, argv, empty=False):
    r = subprocess.run(["timeout", "120", "gdb", "-batch", "-nx", "-x", os.path.join(HERE, "c09_trace.gdb"), "--args", exe_dbg] + argv,
                       capture_output=True, text=True, env=dict(os.environ, C09_EMPTY="1") if empty else None)
    calls = []; cur = None; state = None
    for line in r.stdout.splitlines():
        if line.startswith("OP MARK"):
            p = line.split()
            if cur is not None:
                calls.append((cur, [int(x) for x in p[3:7]]))
            cur = []
        elif line.startswith("OP ") and cur is not None:
            p = line.split()
            cur.append((p[1], p[2:]))
        elif line.startswith("STATE"):
            state = line
    if state is None:
        return None, (r.stdout[-600:] + r.stderr[-600:])
    return calls, ""


def run_prod(exe, argv, empty=False):
    r = subprocess.run(["timeout", "60", exe] + argv, capture_output=True, text=True, env=dict(os.environ, C09_EMPTY="1") if empty else None)
    marks = [[int(x) for x in l.split()[2:6]] for l in r.stdout.splitlines() if l.startswith("MARK")]
    if r.returncode != 0 or not marks:
        return None
    return marks[1:]


# ------------------------------------------------------------------------------------------ canonicalisation of traces
def fl(x):
    return vlib.fhex(float(x))


def collapse(evs, name):
    out = []
    for e in evs:
        if e == name and out and out[-1] == name: continue
        out.append(e)
    return out


def canon_wh(ops, kernel, saba=False):
    out = []
    i = 0
    while i < len(ops):
        o, a = ops[i]
        if o == "K": out.append("EK %s" % fl(a[0]))
        elif o == "C": out.append("EC %s" % fl(a[0]))
        elif o == "J": out.append("EJ %s" % fl(a[0]))
        elif o == "I": out.append("EI %s" % fl(a[0]))
        elif o == "JERK":
            if i + 1 < len(ops) and ops[i + 1][0] == "I":
                out.append("EIMK %s" % fl(ops[i + 1][1][0])); i += 1
            else: return None, "calculate_jerk not followed by an interaction step"
        elif o == "REPOS": out.append("EVTI1" if a[0] == "1" else "EREPOS")
        elif o == "TI": out.append("ETI")
        elif o == "FI": out.append("EFI")
        elif o == "POSVEL":
            if a[0] == "1": out.append("ETIS")
            elif a[1] == "1": out.append("EVTI")
            else: return None, "posvel transformation called from an unexpected place"
        elif o == "CORR":
            if float(a[0]) not in (1.0, -1.0): return None, "corrector inv = %s" % a[0]
            out.append("ECORR %s %s" % ("true" if float(a[0]) == 1.0 else "false", a[1]))
        elif o == "CORR2": out.append("ECORR2 %s" % ("true" if float(a[0]) == 1.0 else "false"))
        elif o == "SCORR": out.append("ESCORR %s" % fl(a[0]))
        else: return None, "unexpected operator %s" % o
        i += 1
    for nm in ("ETIS", "EVTI", "EVTI1"):
        out = collapse(out, nm)
    if kernel == 3 and not saba:        # LAZY kernel: displaced positions -> inertial, kick: one operator of the model
        o2 = []; i = 0
        while i < len(out):
            if out[i] == "EREPOS" and i + 1 < len(out) and out[i + 1].startswith("EI "):
                o2.append("EILAZY " + out[i + 1][3:]); i += 2
            else:
                o2.append(out[i]); i += 1
        out = o2
    return out, ""


def canon_merc(ops):
    m = {"MI": "EMI", "MJ": "EMJ", "MC": "EMC", "MK": "EMK", "MENC": "EMENC"}
    out = []
    for o, a in ops:
        if o in m: out.append("%s %s" % (m[o], fl(a[0])))
        elif o == "MDH": out.append("EMDH")
        elif o == "MIN": out.append("EMIN")
        else: return None, "unexpected operator %s" % o
    return out, ""


def canon_eos(ops, is_step):
    out = []; i = 0
    if is_step:
        if i < len(ops) and ops[i][0] == "PRE": out.append("EPRE"); i += 1
        if not (i < len(ops) and ops[i][0] == "D0"): return None, "part2 does not start with a drift"
        out.append("ED0 %s" % fl(ops[i][1][0])); i += 1
        j = i
        while j < len(ops) and ops[j][0] != "ESYNC": j += 1
        if j == i or any(o not in ("D0", "I0") for o, _ in ops[i:j]): return None, "unexpected operators in the arm of part2"
        out.append("EMID"); i = j
    while i < len(ops):
        o, a = ops[i]
        if o == "ESYNC": pass
        elif o == "D0": out.append("ED0 %s" % fl(a[0]))
        elif o == "POST": out.append("EPOST")
        else: return None, "unexpected operator %s in synchronize" % o
        i += 1
    return out, ""


# ------------------------------------------------------------------------------------------ case generation
TOK2CALL = {"s": "Step", "y": "Synchronize", "v": "Save", "c": "Copy", "e": "Energy", "g": "GetParticles",
            "Fs0": "SetFlag (FSafe false)", "Fs1": "SetFlag (FSafe true)", "Fk0": "SetFlag (FKeep false)",
            "Fk1": "SetFlag (FKeep true)", "Fr": "SetFlag FRecalc"}
STOK2CALL = {"s": "SStep", "y": "SSynchronize", "v": "SSave", "c": "SCopy", "e": "SEnergy", "g": "SGetParticles"}
MTOK2CALL = {"s": "MStep", "y": "MSync", "v": "MNop", "c": "MNop", "e": "MNop", "g": "MNop"}


def gen_calls(rng, maxlen, flags=False, integrate=True, exact=False):
    n = rng.randint(3, maxlen); out = []
    for _ in range(n):
        r = rng.random()
        if r < 0.07 and exact: out.append("x%d" % rng.randint(0, 3))
        elif r < 0.4: out.append("s")
        elif r < 0.55: out.append("y")
        elif r < 0.63 and integrate: out.append("i%d" % rng.randint(1, 3))
        elif r < 0.71 and flags: out.append(rng.choice(["Fs0", "Fs1", "Fk0", "Fk1", "Fr"]))
        else: out.append(rng.choice(["v", "c", "e", "g"]))
    return out


def gen_whfast(rng, maxlen):
    r = rng.random()
    if r < 0.45:
        kernel = 0; coord = rng.choice([0, 0, 1, 2, 3]); corr = rng.choice([0, 3, 5, 7, 11, 17]) if coord in (0, 3) else 0
        var = rng.choice([0, 0, 1, 2]) if coord == 0 else 0
    elif r < 0.85:
        kernel = rng.choice([1, 2, 3]); coord = 0; corr = rng.choice([0, 0, 3, 17]); var = 0
    else:   # configurations rejected by reb_integrator_whfast_init: every call returns early
        kernel, coord, corr, var = rng.choice([(1, 1, 0, 0), (0, 1, 3, 0), (0, 2, 0, 1), (0, 0, 4, 0), (2, 0, 0, 1)])
    corr2 = 1 if (coord == 0 and rng.random() < 0.15) else 0
    safe = rng.choice([0, 0, 1]); keep = rng.choice([0, 1]) if safe == 0 else rng.choice([0, 0, 0, 1])
    ok = not ((var and coord != 0) or (kernel != 0 and coord != 0) or (var and kernel != 0) or (corr and coord not in (0, 3))
              or corr not in (0, 3, 5, 7, 11, 17))
    calls = gen_calls(rng, maxlen, flags=ok, integrate=ok, exact=ok)
    # reb_simulation_integrate returns at once while an error message is pending (keep_unsynchronized with safe_mode
    # reports one at every step and the driver never pops it): no integrate calls from the first such moment on
    s_, k_, poisoned, kept = safe, keep, False, []
    for t in calls:
        if t == "Fs0": s_ = 0
        elif t == "Fs1": s_ = 1
        elif t == "Fk0": k_ = 0
        elif t == "Fk1": k_ = 1
        if s_ and k_: poisoned = True
        if t[0] in "ix" and poisoned: continue
        kept.append(t)
    calls = kept or ["s"]
    dt = rng.choice([0.125, 0.07, -0.05, 0.2])
    return {"integ": "whfast", "kernel": kernel, "corr": corr, "corr2": corr2, "coord": coord, "var": var, "safe": safe,
            "keep": keep, "dt": dt, "calls": calls, "ok": ok}


def gen_saba(rng, maxlen, T):
    typ = rng.choice(list(range(10)) + [0x100, 0x101, 0x102, 0x103, 0x200, 0x201, 0x202, 0x203])
    safe = rng.choice([0, 0, 1]); keep = rng.choice([0, 1]) if safe == 0 else 0
    calls = gen_calls(rng, maxlen, exact=True)      # incl. synchronize / integrate before the first step (once a NULL dereference; see probes)
    return {"integ": "saba", "type": typ, "safe": safe, "keep": keep, "dt": rng.choice([0.125, 0.07, -0.05]), "calls": calls}


def argv_of(c):
    base = [repr(c["dt"]), ",".join(c["calls"]), c["integ"]]
    if c["integ"] == "whfast":
        return base + [str(c[k]) for k in ("kernel", "corr", "corr2", "coord", "var", "safe", "keep")]
    if c["integ"] == "saba": return base + [hex(c["type"]), str(c["safe"]), str(c["keep"])]
    if c["integ"] == "mercurius": return base + [str(c["safe"])]
    return base + [str(c["phi0"]), str(c["phi1"]), str(c["n"]), str(c["safe"])]


def b(x):
    return "true" if x else "false"


def exact_dts(c):
    """the shortened last step of every x<N> call: dt' = tmax - t with tmax = t + (N + 0.5)*dt, the time being advanced
    exactly as the integrators do it (WHFast: t += dt/2 twice per step; SABA: t += dt)"""
    t = 0.0; dt = c["dt"]; out = {}
    def adv(t, h):
        if c["integ"] == "whfast": return (t + h / 2.) + h / 2.
        return t + h
    for k, tok in enumerate(c["calls"]):
        if tok == "s":
            if c.get("ok", True): t = adv(t, dt)
        elif tok[0] == "i":
            for _ in range(int(tok[1:])): t = adv(t, dt)
        elif tok[0] == "x":
            n = int(tok[1:]); tmax = t + (n + 0.5) * dt
            for _ in range(n): t = adv(t, dt)
            d2 = tmax - t; out[k] = d2; t = adv(t, d2)
    return out


def wcall(c, k, tok, xd):
    if tok[0] == "x": return "WXExact %d %s" % (int(tok[1:]), vlib.fhex(xd[k]))
    if tok[0] == "i": return "WX (Integrate %d)" % int(tok[1:])
    return "WX (%s)" % TOK2CALL[tok]


def scall(c, k, tok, xd):
    if tok[0] == "x": return "SXExact %d %s" % (int(tok[1:]), vlib.fhex(xd[k]))
    if tok[0] == "i": return "SX (SIntegrate %d)" % int(tok[1:])
    return "SX %s" % STOK2CALL[tok]


def coq_case(c, per_call, flags, T):
    """per_call: list of canonical event lists (or None = do not compare the trace of this call); flags: list of lists"""
    nflags = {"whfast": 4, "saba": 4, "mercurius": 3, "eos": 2}[c["integ"]]
    exp = "[" + "; ".join("([%s], [%s], %s)" % ("; ".join(ev or []), "; ".join(b(f) for f in fs[:nflags]), b(ev is not None))
                          for ev, fs in zip(per_call, flags)) + "]"
    dt = vlib.fhex(c["dt"])
    if c["integ"] == "whfast":
        cfg = ("{| w_safe := %s; w_keep := %s; w_kernel := %s; w_corr := %d; w_corr2 := %s; w_coord := %s; w_var := %s |}"
               % (b(c["safe"]), b(c["keep"]), KERNELS[c["kernel"]], c["corr"], b(c["corr2"]), COORDS[c["coord"]], b(c["var"])))
        xd = exact_dts(c)
        calls = "[" + "; ".join(wcall(c, k, t, xd) for k, t in enumerate(c["calls"])) + "]"
        return "(%s %s %s %s %s)" % ("w_bad_empty" if c.get("empty") else "w_bad", dt, cfg, calls, exp)
    if c["integ"] == "saba":
        lo = c["type"] % 0x100
        cfg = ("{| s_safe := %s; s_keep := %s; s_corr_on := %s; s_stages := %d; s_c := %s; s_d := %s; s_cc := %s; s_ok := true |}"
               % (b(c["safe"]), b(c["keep"]), b(c["type"] >= 0x100), T["stages"][c["type"]], vlib.flist(T["c"][lo]), vlib.flist(T["d"][lo]),
                  vlib.fhex(T["cc"][lo] if lo < 4 else 0.0)))
        xd = exact_dts(c)
        calls = "[" + "; ".join(scall(c, k, t, xd) for k, t in enumerate(c["calls"])) + "]"
        return "(%s %s %s %s %s)" % ("s_bad_empty" if c.get("empty") else "s_bad", dt, cfg, calls, exp)
    calls = "[" + "; ".join(MTOK2CALL[t] for t in c["calls"]) + "]"
    if c["integ"] == "mercurius":
        return "(%s %s %s %s %s)" % ("m_bad_empty" if c.get("empty") else "m_bad", dt, b(c["safe"]), calls, exp)
    return "(e_bad %s %s %s %s)" % (vlib.fhex(eos_a0dt(T["eos"], c["phi0"], c["dt"])), b(c["safe"]), calls, exp)


def safe_keep_track(c):
    """(safe, keep) in force during each call (SetFlag calls change them)"""
    s, k = c.get("safe", 0), c.get("keep", 0); out = []
    for t in c["calls"]:
        if t == "Fs0": s = 0
        elif t == "Fs1": s = 1
        elif t == "Fk0": k = 0
        elif t == "Fk1": k = 1
        out.append((s, k))
    return out


def correspondence(ctx, libdir, T):
    try:
        dbg = vlib.build_lib("default", extra_flags=["-O0", "-g", "-fno-inline"], tag="c09dbg")
        exe_dbg = build_driver(dbg, "dbg"); exe_prod = build_driver(libdir, "prod")
    except RuntimeError as e:
        ctx.obligation("correspondence:C09 debug build of the current tree", False, str(e)[-1500:]); return
    rng = ctx.rng
    cases = []
    nwh, nsa, nme, neo = ctx.scale(160, 800), ctx.scale(100, 500), ctx.scale(20, 60), ctx.scale(27, 90)
    maxlen = ctx.scale(14, 30)
    for _ in range(nwh): cases.append(gen_whfast(rng, maxlen))
    for _ in range(nsa): cases.append(gen_saba(rng, maxlen, T))
    for _ in range(nme):
        cases.append({"integ": "mercurius", "safe": rng.choice([0, 1]), "dt": rng.choice([0.125, 0.07]),
                      "calls": gen_calls(rng, 10, integrate=False)})
    for k in range(neo):
        cases.append({"integ": "eos", "phi0": k % 9, "phi1": rng.choice([0, 1, 4]), "n": rng.choice([1, 2, 3]), "safe": rng.choice([0, 1]),
                      "dt": rng.choice([0.125, 0.07, -0.05]), "calls": gen_calls(rng, 10, integrate=False)})
    # empty simulations (N = 0): reb_integrator_part1/part2 do not enter the integrator: no operator may be called
    for k in range(ctx.scale(9, 30)):
        calls = [t for t in gen_calls(rng, 10, flags=(k % 3 == 0), integrate=False) ]
        if k % 3 == 0:
            cases.append({"integ": "whfast", "kernel": rng.choice([0, 1, 2, 3]), "corr": rng.choice([0, 3]), "corr2": 0, "coord": 0, "var": 0,
                          "safe": rng.choice([0, 1]), "keep": 0, "dt": 0.125, "calls": calls, "ok": True, "empty": True})
        elif k % 3 == 1:
            cases.append({"integ": "saba", "type": rng.choice([0x0, 0x6, 0x102]), "safe": rng.choice([0, 1]), "keep": rng.choice([0, 1]), "dt": 0.07,
                          "calls": calls, "empty": True})
        else:
            cases.append({"integ": "mercurius", "safe": rng.choice([0, 1]), "dt": 0.125, "calls": calls, "empty": True})
    with ThreadPoolExecutor(max_workers=vlib.JOBS) as ex:
        traces = list(ex.map(lambda c: run_trace(exe_dbg, argv_of(c), c.get("empty", False)), cases))
        prods = list(ex.map(lambda c: run_prod(exe_prod, argv_of(c), c.get("empty", False)), cases))
    terms = []; bad = []; flag_mismatch = []; hist = {}
    for c, (tr, err), pf in zip(cases, traces, prods):
        lab = {k: v for k, v in c.items() if k != "calls"}
        if tr is None or pf is None or len(tr) != len(c["calls"]) or len(pf) != len(c["calls"]):
            bad.append((lab, c["calls"], "driver run failed: %s" % (err or "production run")[:300])); continue
        if [f for _, f in tr] != pf:
            flag_mismatch.append((lab, c["calls"], "flags of the -O0 build %r, of the production build %r" % ([f for _, f in tr], pf)))
        per_call = []; why = ""
        sk = safe_keep_track(c)
        for (ops, _), tok, (s_, k_) in zip(tr, c["calls"], sk):
            if c["integ"] in ("whfast", "saba"):
                ev, why = canon_wh(ops, c.get("kernel", 0), saba=c["integ"] == "saba")
            elif c["integ"] == "mercurius": ev, why = canon_merc(ops)
            else: ev, why = canon_eos(ops, tok == "s")
            if ev is None: break
            # keep_unsynchronized together with safe_mode (error path): the library synchronizes twice in a row, the second
            # result overwrites the first; the model's dataflow log only shows the surviving computation: flags only
            if c["integ"] == "whfast" and s_ and k_: ev = None
            per_call.append(ev)
        if why:
            bad.append((lab, c["calls"], why)); continue
        terms.append((c, coq_case(c, per_call, pf, T)))
        key = (c["integ"], c.get("kernel"), c.get("corr"), c.get("coord"), c.get("var"), c.get("type"), c.get("phi0"), c["safe"], c.get("keep"), c.get("empty", False))
        hist[str(key)] = hist.get(str(key), 0) + 1
        ctx.case(key=key, sample={"case": lab, "calls": c["calls"], "library_trace_of_first_calls": [o for o, _ in tr[:2]]} if len(ctx.samples) < 3 else None)
    jobs = []; chunk = 12
    for i in range(0, len(terms), chunk):
        body = ("From Coq Require Import ZArith List Bool PrimFloat.\nFrom RV Require Import Common.Num Common.FloatNum C09.Model C09.Run.\n"
                "Import ListNotations.\nOpen Scope float_scope.\n" +
                "".join("Eval vm_compute in %s.\n" % t for _, t in terms[i:i + chunk]))
        jobs.append(("c09_%d" % (i // chunk), body))
    n_ok = 0
    for (name, ok, out), i in zip(vlib.coq_eval_many(jobs), range(0, len(terms), chunk)):
        res = re.findall(r"=\s*(\[[^\]]*\])\s*:\s*list nat", out, re.S)
        if not ok or len(res) != len(terms[i:i + chunk]):
            bad.append(("coq", name, out[-800:])); continue
        for (c, _), r in zip(terms[i:i + chunk], res):
            idx = [int(x.replace("%nat", "")) for x in re.split(r"\s*;\s*", r.strip()[1:-1].replace("\n", " ")) if x.strip()]
            if idx:
                bad.append(({k: v for k, v in c.items() if k != "calls"}, c["calls"], "model and library differ at call(s) %s" % idx))
            else:
                n_ok += 1
    ctx.traces = n_ok
    ctx.obligation("correspondence:C09 operator calls (gdb trace of the -O0 build) and flags (production build) after every API call "
                   "== model, %d call sequences" % len(cases), not bad, "; ".join(str(x) for x in bad[:4]))
    ctx.obligation("correspondence:C09 flags after every API call agree between the traced -O0 build and the production build",
                   not flag_mismatch, "; ".join(str(x) for x in flag_mismatch[:3]))
    ctx.extra["input_distribution"] = dict(sorted(hist.items(), key=lambda kv: -kv[1])[:40])
    ctx.extra["correspondence_mismatches"] = [str(x) for x in bad[:10]]


# ------------------------------------------------------------------------------------------ probes of refuted statements
PROBE = r'''
import sys, json, warnings
warnings.simplefilter("ignore")
import rebound
what = sys.argv[1]
if what == "saba_null":
    sim = rebound.Simulation(); sim.add(m=1); sim.add(m=1e-3, a=1); sim.integrator = "saba"
    sim.ri_saba.safe_mode = 0; sim.ri_saba.keep_unsynchronized = 1
    sim.synchronize()
    print("SURVIVED")
elif what == "keep_safe":
    def run(keep):
        sim = rebound.Simulation(); sim.add(m=1); sim.add(m=1e-3, a=1, e=0.05); sim.add(m=1e-4, a=1.7); sim.move_to_com()
        sim.integrator = "whfast"; sim.dt = 0.1; sim.ri_whfast.safe_mode = 1; sim.ri_whfast.keep_unsynchronized = keep
        err = 0
        for _ in range(5):
            try: sim.step()
            except Exception: err += 1
        return err, sim.particles[1].x
    e0, x0 = run(0); e1, x1 = run(1)
    print("KEEPSAFE", json.dumps({"errors_plain": e0, "errors_keep": e1, "dx": abs(x0 - x1)}))
'''


def probes(ctx, libdir):
    with tempfile.NamedTemporaryFile("w", suffix=".py", delete=False) as f:
        f.write(PROBE); path = f.name
    try:
        r = vlib.run_py(libdir, path, ["saba_null"], timeout=60)
        ctx.case(key=("probe", "saba_null"))
        if r.returncode != 0 or "SURVIVED" not in r.stdout:
            ctx.violation("saba-synchronize-keep_unsynchronized-before-first-step-crash",
                          {"script": "SABA, safe_mode=0, keep_unsynchronized=1, sim.synchronize() before the first step", "returncode": r.returncode},
                          True, "reb_integrator_saba_synchronize copies the NULL cache when keep_unsynchronized is set (process died with status %d)" % r.returncode)
        # the model's statement (C09_whfast_keep_with_safe_mode_refuted): keep_unsynchronized with safe_mode reports an error and drifts too far
        r = vlib.run_py(libdir, path, ["keep_safe"], timeout=60)
        m = re.search(r"KEEPSAFE (.*)", r.stdout)
        ok = False
        if m:
            d = json.loads(m.group(1)); ok = d["errors_plain"] == 0 and d["errors_keep"] > 0 and d["dx"] > 1e-6
        ctx.case(key=("probe", "keep_safe"))
        ctx.obligation("correspondence:C09 keep_unsynchronized with safe_mode: the library reports an error and continues on a different trajectory (as the model)",
                       ok, r.stdout[-400:] + r.stderr[-400:])
    finally:
        os.remove(path)
    # directed probe of the recorded input of the open finding deferred-sync-differs:whfast-corrector2 (so that it is
    # reported on every run, whatever the random configurations drawn by the searcher)
    rec = {"replay": {"check": "safe_vs_unsafe", "nsteps": 2, "keep": 0,
                      "cfg": {"integ": "whfast", "corrector2": 1, "dt": 0.3141592653589793, "sysseed": 793908, "nplanets": 3}}}
    with tempfile.NamedTemporaryFile("w", suffix=".json", delete=False) as f:
        json.dump(rec, f); rpath = f.name
    try:
        r = vlib.run_py(libdir, os.path.join(HERE, "c09_search.py"), ["--replay", rpath], timeout=120)
    finally:
        os.remove(rpath)
    ctx.case(key=("probe", "corrector2"))
    m = re.search(r"REPLAY: (.*)", r.stdout)
    if r.returncode not in (0, 1) or not m:
        ctx.obligation("probe:C09 corrector2 recorded input ran", False, (r.stdout + r.stderr)[-400:])
    elif r.returncode == 1:
        ctx.violation("deferred-sync-differs:whfast-corrector2", rec["replay"], True,
                      "WHFast corrector2=1, dt=0.05 orbits, 2 steps: safe_mode=1 and safe_mode=0+synchronize " + m.group(1))


# ------------------------------------------------------------------------------------------ WHFast512 flags (AVX512 build)
W512 = r'''
import sys, json, random, warnings, os, tempfile
warnings.simplefilter("ignore")
import rebound
rng = random.Random(int(sys.argv[1])); n = int(sys.argv[2]); out = []
for _ in range(n):
    keep = rng.choice([0, 1]); gr = rng.choice([0, 1])
    sim = rebound.Simulation(); sim.add(m=1.0)
    for k in range(8): sim.add(m=1e-5, a=1.0 + 0.4 * k, e=0.02, f=k)
    sim.move_to_com(); sim.integrator = "whfast512"; sim.dt = 0.05; sim.exact_finish_time = 0
    sim.ri_whfast512.keep_unsynchronized = keep; sim.ri_whfast512.gr_potential = gr
    calls = []; flags = []
    for _ in range(rng.randint(3, 14)):
        r = rng.random()
        if r < 0.4: c = "s"; sim.steps(1)
        elif r < 0.6: c = "y"; sim.synchronize()
        elif r < 0.7:
            k = rng.randint(1, 3); c = "i%d" % k; sim.integrate(sim.t + (k - 0.5) * sim.dt, exact_finish_time=0)
        elif r < 0.8: c = "c"; sim.copy()
        elif r < 0.9: c = "e"; sim.energy()
        else:
            c = "v"; fn = os.path.join(tempfile.gettempdir(), "c09x_%d.bin" % os.getpid()); sim.save_to_file(fn, delete_file=True); os.remove(fn)
        calls.append(c); flags.append(int(sim.ri_whfast512.is_synchronized))
    out.append({"keep": keep, "gr": gr, "calls": calls, "flags": flags})
print("W512 " + json.dumps(out))
'''


def w512_flags(ctx, libavx):
    with tempfile.NamedTemporaryFile("w", suffix=".py", delete=False) as f:
        f.write(W512); path = f.name
    try:
        r = vlib.run_py(libavx, path, [ctx.seed, ctx.scale(40, 300)], timeout=300)
    finally:
        os.remove(path)
    m = re.search(r"^W512 (.*)$", r.stdout, re.M)
    if not m:
        ctx.obligation("correspondence:C09 WHFast512 flags (AVX512 build)", False, (r.stdout + r.stderr)[-800:]); return
    cases = json.loads(m.group(1))
    X = {"s": "XStep", "y": "XSync", "c": "XNop", "e": "XNop", "v": "XNop"}
    body = ("From Coq Require Import ZArith List Bool PrimFloat.\nFrom RV Require Import Common.Num Common.FloatNum C09.Model C09.Run.\n"
            "Import ListNotations.\n" +
            "".join("Eval vm_compute in (x_bad %s %s [%s] [%s]).\n" % (
                b(c["keep"]), b(c["gr"]), "; ".join("XIntegrate %s" % t[1:] if t[0] == "i" else X[t] for t in c["calls"]),
                "; ".join(b(f) for f in c["flags"])) for c in cases))
    ok, out = vlib.coq_eval("c09_w512", body)
    res = re.findall(r"=\s*(\[[^\]]*\])\s*:\s*list nat", out, re.S)
    bad = [(c, r_) for c, r_ in zip(cases, res) if r_.strip() != "[]"]
    for c in cases: ctx.case(key=("w512flags", c["keep"], c["gr"], len(c["calls"])))
    ctx.obligation("correspondence:C09 WHFast512 is_synchronized after every API call (AVX512 production build) == model, %d call sequences" % len(cases),
                   ok and len(res) == len(cases) and not bad, str(bad[:3]) + out[-300:] if (bad or not ok) else "")
    if ok and not bad: ctx.traces += len(cases)


# ------------------------------------------------------------------------------------------ searcher
def search(ctx, libdir, variant):
    out = os.path.join(vlib.BUILD, "c09_search_%s_%d.json" % (variant, os.getpid()))
    args = [ctx.seed, ctx.tier, out] + (["avx512"] if variant == "avx512" else [])
    try:
        r = vlib.run_py(libdir, os.path.join(HERE, "c09_search.py"), args, timeout=3000)
    except subprocess.TimeoutExpired:
        ctx.obligation("searcher:C09 (%s build) finished" % variant, False, "timeout"); return
    if r.returncode != 0 or not os.path.exists(out):
        ctx.violation("searcher-crash:" + variant, {"returncode": r.returncode, "stderr": r.stderr[-1500:], "args": args}, False,
                      "the searcher process died (status %d) while exercising the library" % r.returncode)
        return
    rep = json.load(open(out)); os.remove(out)
    for k in rep["keys"]:
        ctx.case(key=(variant, k))
    ctx.evaluations += max(0, rep["evaluations"] - len(rep["keys"]))
    ctx.extra.setdefault("searcher_stats", {})[variant] = rep["stats"]
    seen = set()
    for f in rep["fails"]:
        if f["key"] in seen: continue
        seen.add(f["key"])
        ctx.violation(f["key"], dict(f["replay"], variant=variant), True, f["why"])
    ctx.obligation("searcher:C09 (%s build) ran %d evaluations" % (variant, rep["evaluations"]), rep["evaluations"] > 0, "")


def corners(ctx, libdir):
    """degenerate corners of the quantified space + reuse after an error path (tools/c09_search.py --corners); one child
    process per degenerate system (N = 0: one per integrator configuration), so that a crash of the library is attributed"""
    import c09_search as S_     # only for the lists of names (the library is not touched in this process)
    jobs = [(sysn, None) for sysn in S_.corner_systems() if sysn != "N0"] + [("N0", i) for i in range(len(S_.CORNER_INTEGS))] + [("REUSE", None)]

    def one(job):
        sysn, idx = job
        out = os.path.join(vlib.BUILD, "c09_corner_%d_%s_%s.json" % (os.getpid(), sysn.replace("=", "").replace(".", "_"), idx))
        args = ["--corners", out, sysn] + ([idx] if idx is not None else [])
        try:
            r = vlib.run_py(libdir, os.path.join(HERE, "c09_search.py"), args, timeout=900)
        except subprocess.TimeoutExpired:
            return job, None, "timeout", None
        rep = json.load(open(out)) if os.path.exists(out) else None
        cur = json.load(open(out + ".cur")) if os.path.exists(out + ".cur") else None
        for f in (out, out + ".cur"):
            if os.path.exists(f): os.remove(f)
        return job, rep, r.returncode, cur
    with ThreadPoolExecutor(max_workers=8) as ex:
        results = list(ex.map(one, jobs))
    n = 0; seen = set()
    for (sysn, idx), rep, rc, cur in results:
        if rep is None:
            integ = S_.CORNER_INTEGS[idx]["integ"] if idx is not None else (cur or {}).get("cfg", {}).get("integ", "?")
            key = ("step-without-particles-crashes:%s" % integ) if sysn == "N0" else "corner-crash:%s:%s" % (sysn, integ)
            if key not in seen:
                seen.add(key)
                ctx.violation(key, {"check": "corner", "system": sysn, "last_case": cur, "status": rc}, True,
                              "the library process died (status %s) on the degenerate system %s: %s" % (rc, sysn, json.dumps(cur)[:300]))
            ctx.case(key=("corner-crash", sysn, idx))
            continue
        n += rep["evaluations"]
        for k in rep["keys"]: ctx.case(key=k)
        for f in rep["fails"]:
            if f["key"] in seen: continue
            seen.add(f["key"])
            ctx.violation(f["key"], f["replay"], True, f["why"])
    ctx.obligation("searcher:C09 corners of the quantified space ran %d configurations" % n, n > 0, "")


def history(ctx, libdir):
    """history versus fresh object (tools/c09_search.py --history), in a child process"""
    out = os.path.join(vlib.BUILD, "c09_history_%d.json" % os.getpid())
    try:
        r = vlib.run_py(libdir, os.path.join(HERE, "c09_search.py"), ["--history", out, ctx.seed], timeout=900)
    except subprocess.TimeoutExpired:
        ctx.obligation("searcher:C09 history versus fresh object finished", False, "timeout"); return
    rep = json.load(open(out)) if os.path.exists(out) else None
    cur = json.load(open(out + ".cur")) if os.path.exists(out + ".cur") else None
    for f in (out, out + ".cur"):
        if os.path.exists(f): os.remove(f)
    if rep is None:
        ctx.violation("history-crash", {"check": "history", "last_case": cur, "status": r.returncode}, True,
                      "the library process died (status %s) in a history-versus-fresh scenario: %s" % (r.returncode, json.dumps(cur)[:300]))
        return
    for k in rep["keys"]: ctx.case(key=k)
    seen = set()
    for f in rep["fails"]:
        if f["key"] in seen: continue
        seen.add(f["key"])
        ctx.violation(f["key"], f["replay"], True, f["why"])
    ctx.obligation("searcher:C09 history versus fresh object ran %d scenarios" % rep["evaluations"], rep["evaluations"] > 0, "")


def run(ctx):
    libdir = ctx.lib()
    T = parse_tables()
    ctx.regen("translate_c09_getsim.py")
    ctx.regen("translate_c09_access.py")
    ctx.regen("translate_schemes.py")        # Gen/Schemes.v: the corrector2 word used by C09_corrector2_inverse_defect_is_eps2_h4
    ctx.log("regenerated"); ctx.prove("C09", extra_targets=["C09/Run.vo"]); ctx.log("proved")
    sys.path.insert(0, libdir)
    correspondence(ctx, libdir, T); ctx.log("correspondence done")
    probes(ctx, libdir)
    corners(ctx, libdir); ctx.log("corners done")
    history(ctx, libdir)
    search(ctx, libdir, "default"); ctx.log("searcher (default build) done")
    have_avx = False
    try:
        have_avx = "avx512f" in open("/proc/cpuinfo").read()
    except OSError:
        pass
    if have_avx:
        try:
            libavx = ctx.lib("avx512")
            w512_flags(ctx, libavx)
            search(ctx, libavx, "avx512")
        except RuntimeError as e:
            ctx.obligation("searcher:C09 AVX512 build", False, str(e)[-800:])
    else:
        ctx.assumptions.append("this machine has no AVX512: WHFast512 not exercised in this run")
    ctx.rule = ("random API call sequences (step / synchronize / save / copy / energy / read / integrate / flag changes, length <= %d) over the "
                "option lattice (WHFast kernel x corrector x corrector2 x coordinates x variational/MEGNO x safe_mode x keep_unsynchronized incl. "
                "configurations rejected by init; all 18 SABA types; MERCURIUS; all 9 EOS outer schemes); distinct by configuration"
                % ctx.scale(14, 30))
    ctx.assumptions += [
        "operator laws (merged drift, inverse coordinate maps, inverse correctors) are hypotheses of the refinement theorems; they hold in exact "
        "arithmetic for the Kepler/com drift and the first correctors (C03/C12/C01), only to truncation error for EOS and for WHFast's corrector2",
        "save/copy/energy/particle access are the identity in the model; that they call no operator and leave the flags alone is checked by the trace",
        "exact_finish_time=1, pre/post timestep modifications, MERCURIUS encounters, messages and MEGNO accumulators are outside the model",
        "the model's dataflow log cannot show a result that is overwritten before it is read: calls made with keep_unsynchronized AND safe_mode "
        "(error path) are compared on flags only",
    ]


def replay(ctx, rep):
    libdir = ctx.lib("avx512" if rep.get("replay", {}).get("variant") == "avx512" else "default")
    with tempfile.NamedTemporaryFile("w", suffix=".json", delete=False) as f:
        json.dump(rep, f); path = f.name
    r = vlib.run_py(libdir, os.path.join(HERE, "c09_search.py"), ["--replay", path], timeout=600)
    os.remove(path)
    print(r.stdout + r.stderr[-500:])
    return r.returncode
