"""C17 library-only oracles: sim == sim.copy(), independence of the copy, and the
exact semantics of Simulation.__eq__ / reb_simulation_diff / reb_binary_diff.

Every public function takes the imported ``rebound`` module as first argument.
Nothing prints except under ``__main__``.

Public functions
    eq_oracle(rebound, recipe)                        -> list[dict]
    independence_oracle(rebound, recipe, rng)         -> list[dict]
    perturbation_oracle(rebound, rng, recipe)         -> (n_checked, failures, skipped)
    nan_probe(rebound)                                -> dict
    signed_zero_probe(rebound)                        -> dict
    diff_pairs(rebound, rng, recipe, n)               -> list[(bytes1, bytes2, ret)]
    binary_diff(rebound, b1, b2)                      -> int
    heap_pointers(rebound, sim)                       -> dict name -> address
"""
import ctypes
import os
import struct
import sys
import warnings

sys.path.insert(0, os.path.dirname(os.path.abspath(__file__)))
import c05_gen as g  # noqa: E402


def _eq(a, b):
    with warnings.catch_warnings():
        warnings.simplefilter("ignore")
        return bool(a == b)


def _fail(recipe, check, detail, key=None, **kw):
    d = {"recipe": recipe, "check": check, "detail": detail,
         "key": key or ("eq:%s:%s" % (check, recipe.get("integrator") if recipe else "-"))}
    d.update(kw)
    return d


def binary_diff(rebound, b1, b2):
    """clibrebound.reb_binary_diff(buf1,size1,buf2,size2,NULL,NULL,2) on two byte strings."""
    f = rebound.clibrebound.reb_binary_diff
    f.restype = ctypes.c_int
    f.argtypes = [ctypes.c_char_p, ctypes.c_size_t, ctypes.c_char_p, ctypes.c_size_t,
                  ctypes.c_void_p, ctypes.c_void_p, ctypes.c_int]
    try:
        return int(f(b1, len(b1), b2, len(b2), None, None, 2))
    finally:
        f.argtypes = None   # do not leave argtypes behind for other users of the handle


def _sim_diff(rebound, a, b):
    f = rebound.clibrebound.reb_simulation_diff
    f.restype = ctypes.c_int
    return int(f(ctypes.byref(a), ctypes.byref(b), ctypes.c_int(2)))


def _library_view_difference(rebound, a, b):
    """Field names that differ when compared the way reb_binary_diff compares them:
    particles and var_config without their address members, every other field (also
    ri_whfast.p_jh with its pointer members and padding) byte-wise, walltime ignored."""
    names = {d["id"]: d["name"] for d in g.descriptors(rebound)}
    pspans, psize = g._particle_pointer_spans(rebound)
    P = rebound.Particle
    pspans = pspans + [(P._hash.offset + P._hash.size, P.ap.offset - P._hash.offset - P._hash.size)]
    vspan, vsize = g._varconfig_pointer_span(rebound)
    V = rebound.Variation
    vpad = (V.index_1st_order_b.offset + V.index_1st_order_b.size,
            V._lrescale.offset - V.index_1st_order_b.offset - V.index_1st_order_b.size)
    views = []
    for s in (a, b):
        v = []
        for t, payload in g.parse(g.save_bytes(rebound, s))[1]:
            n = names.get(t, "unknown:%d" % t)
            if n.startswith("walltime"):
                continue
            if n == "particles":
                payload = g._zero_spans(payload, psize, pspans)
            elif n == "var_config":
                payload = g._zero_spans(payload, vsize, [vspan, vpad])
            v.append((t, n, payload))
        views.append(v)
    return g.diff_fields(views[0], views[1])


def _stream_difference(rebound, a, b, mask_unread=False):
    return g.diff_fields(g.canon(rebound, g.save_bytes(rebound, a), mask_unread),
                         g.canon(rebound, g.save_bytes(rebound, b), mask_unread))


# ----------------------------------------------------------------------------
# eq_oracle
# ----------------------------------------------------------------------------

def eq_oracle(rebound, recipe, evolve=3):
    """sim == copy in every direction and through every route.

    checks: "copy" (sim == sim.copy()), "symmetric" (copy == sim), "load"
    (sim == load(save(sim)) and the reverse), "copycopy" (copy == copy.copy()),
    "diff" (reb_simulation_diff(sim, copy, 2) == 0), "self" (sim == sim), and
    "evolved": after `evolve` more steps on both sim and copy (callbacks re-attached),
    sim == copy must still hold.  When "evolved" fails, the failure says whether the
    two streams differ only in never-read uninitialised bytes (key eq:uninit:<field>)
    or in real state (key eq:evolved:<integrator>).
    """
    fails = []
    sim = g.build(rebound, recipe)
    c = g.reattach(rebound, recipe, g.copy_sim(rebound, sim))
    if not _eq(sim, sim):
        fails.append(_fail(recipe, "self", "sim != sim", fields=[]))
    if not _eq(sim, c):
        fails.append(_fail(recipe, "copy", "sim != sim.copy()", fields=_stream_difference(rebound, sim, c)))
    if not _eq(c, sim):
        fails.append(_fail(recipe, "symmetric", "copy != sim", fields=_stream_difference(rebound, c, sim)))
    ret = _sim_diff(rebound, sim, c)
    if ret != 0:
        fails.append(_fail(recipe, "diff", "reb_simulation_diff(sim, copy, 2) = %d" % ret))
    ret = _sim_diff(rebound, c, sim)
    if ret != 0:
        fails.append(_fail(recipe, "diff", "reb_simulation_diff(copy, sim, 2) = %d" % ret))
    r = g.reattach(rebound, recipe, g.load_bytes(rebound, g.save_bytes(rebound, sim)))
    if not _eq(sim, r):
        fails.append(_fail(recipe, "load", "sim != load(save(sim))", fields=_stream_difference(rebound, sim, r)))
    if not _eq(r, sim):
        fails.append(_fail(recipe, "load", "load(save(sim)) != sim", fields=_stream_difference(rebound, r, sim)))
    cc = g.reattach(rebound, recipe, g.copy_sim(rebound, c))
    if not _eq(c, cc):
        fails.append(_fail(recipe, "copycopy", "copy != copy.copy()", fields=_stream_difference(rebound, c, cc)))
    if not _eq(sim, cc):
        fails.append(_fail(recipe, "copycopy", "sim != copy.copy()", fields=_stream_difference(rebound, sim, cc)))
    if evolve and recipe["integrator"] != "whfast512":
        for s in (sim, c):
            g.apply_after(rebound, recipe, s)
            g.steps(s, evolve)
        if not _eq(sim, c):
            strict = _stream_difference(rebound, sim, c)
            masked = _stream_difference(rebound, sim, c, mask_unread=True)
            if masked:
                key = g._key_for(recipe, "continue", "copy", masked)
                if key.startswith("continue:%s:copy" % recipe["integrator"]):
                    key = "eq:evolved:%s" % recipe["integrator"]
                fails.append(_fail(recipe, "evolved", "sim != copy after %d identical steps; real state differs" % evolve,
                                   key=key, fields=masked))
            else:
                fails.append(_fail(recipe, "evolved",
                                   "sim != copy after %d identical steps, although every byte the library ever reads is "
                                   "identical: the streams differ only in uninitialised, never-read heap bytes" % evolve,
                                   key="eq:uninit:%s" % ((strict or _library_view_difference(rebound, sim, c) or ["?"])[0]),
                                   fields=strict or _library_view_difference(rebound, sim, c)))
    return fails


# ----------------------------------------------------------------------------
# independence_oracle
# ----------------------------------------------------------------------------

def heap_pointers(rebound, sim):
    """name -> address for every data-pointer member (not function pointers) of the
    Simulation struct and its nested structs, read straight from memory."""
    out = {}
    base = ctypes.addressof(sim)

    def walk(prefix, ct, off, depth):
        for n, t in ct._fields_:
            f = getattr(ct, n)
            name = prefix + "." + n if prefix else n
            if isinstance(t, type) and issubclass(t, ctypes._CFuncPtr):
                continue
            if isinstance(t, type) and (issubclass(t, ctypes._Pointer) or t in (ctypes.c_void_p, ctypes.c_char_p)):
                out[name] = ctypes.c_void_p.from_address(base + off + f.offset).value or 0
            elif isinstance(t, type) and issubclass(t, ctypes.Structure) and depth < 3:
                walk(name, t, off + f.offset, depth + 1)

    walk("", rebound.Simulation, 0, 0)
    return out


def _shared_pointers(rebound, a, b):
    pa = heap_pointers(rebound, a)
    pb = heap_pointers(rebound, b)
    return sorted(n for n in pa if pa[n] and pb.get(n) and pa[n] == pb[n])


_OPS = ("steps", "add", "remove", "move_to_com", "dt", "integrator", "options", "add_variation",
        "edit", "synchronize", "reset_integrator", "save", "copy")


def _random_op(rebound, recipe, sim, rng):
    """One random user operation on sim.  Errors the library reports for illegal
    operations are swallowed (they are legitimate outcomes)."""
    op = rng.choice(_OPS)
    try:
        with warnings.catch_warnings():
            warnings.simplefilter("ignore")
            if op in ("add", "remove", "move_to_com", "edit", "integrator", "add_variation", "reset_integrator"):
                # documented usage: with safe_mode off, synchronize before touching particles.  (Without it the
                # library has memory-unsafe paths, e.g. MERCURIUS: add + synchronize reads dcrit[N-1] before
                # part1 has grown dcrit -- AddressSanitizer heap-buffer-overflow in gravity.c.)
                sim.synchronize()
            if op == "steps":
                if sim._integrator != 21:        # whfast512 cannot step in a build without AVX512
                    dt0 = float(recipe["sim"].get("dt", 0.05))
                    if not abs(sim.dt) <= 10 * abs(dt0):
                        sim.dt = dt0             # adaptive integrators may have left an enormous dt behind
                    sim.steps(rng.choice((1, 2, 5)))
            elif op == "add":
                kw = dict(m=1e-4, x=rng.uniform(-0.4, 0.4), y=rng.uniform(-0.4, 0.4), z=rng.uniform(-0.1, 0.1),
                          vx=rng.uniform(-0.1, 0.1), vy=rng.uniform(-0.1, 0.1), vz=0.0, r=1e-4)
                if recipe["integrator"] != "sei":
                    kw["x"] += 2.3
                    kw["vy"] += 0.6
                sim.add(**kw)
            elif op == "remove":
                # (not for MERCURIUS/TRACE: reb_simulation_remove_particle shifts ri_mercurius.dcrit[i+1] for
                #  i up to N-2 although dcrit only has N_allocated_dcrit entries -- heap over-read after an add
                #  between steps, reported by AddressSanitizer; belongs to the remove_particle property)
                if sim.N > 2 and sim._integrator not in (9, 25):
                    # never the central body (index 0): a system without it turns into NaNs under the
                    # Wisdom-Holman type integrators, and NaN coordinates are undefined behaviour in tree.c
                    sim.remove(index=rng.randrange(1, sim.N), keep_sorted=rng.choice((True, False)))
            elif op == "move_to_com":
                sim.move_to_com()
            elif op == "dt":
                sim.dt = float(recipe["sim"].get("dt", 0.05)) * rng.choice((0.5, 1.0, -1.0, 1.5))
            elif op == "integrator" and sim.N_var == 0 and sim._N_odes == 0:
                # (switching away from BS while its N-body ODE is still registered makes
                #  reb_integrator_part2 integrate that stale ODE as a "user ODE"; after a particle is
                #  removed that loop never terminates -- observed hang, outside C17's scope)
                # (with variational particles present, a gravity routine without variational support
                #  makes the library call exit(): gravity.c "Variational gravity calculation not yet implemented")
                # reset first: an inconsistent leftover setting (e.g. SABA with non-Jacobi ri_whfast.coordinates)
                # makes part1 return early with an error while part2 still runs on arrays of the old size
                sim.reset_integrator()
                sim.integrator = rng.choice(("ias15", "whfast", "leapfrog", "mercurius", "saba", "eos", "bs", "janus", "trace", "none"))
            elif op == "options":
                path, val = rng.choice((("ri_whfast.safe_mode", 0), ("ri_ias15.epsilon", 1e-8),
                                        ("ri_mercurius.r_crit_hill", 2.5), ("ri_saba.safe_mode", 0), ("ri_eos.n", 3),
                                        ("G", 1.5), ("softening", 0.01), ("t", 12.5), ("gravity", "compensated"),
                                        ("ri_bs.eps_rel", 1e-6), ("ri_janus.order", 4), ("exit_max_distance", 77.0)))
                g._setpath(sim, path, val)
            elif op == "add_variation":
                # ias15/leapfrog with none/basic/compensated gravity and no tree: variational particles start at
                # identical (zero) coordinates, which the tree code cannot hold (observed hang)
                if sim._integrator in (0, 4) and sim._gravity in (0, 1, 2) and sim._collision in (0, 1, 4) and not sim._tree_root:
                    sim.add_variation()
            elif op == "edit":
                if sim.N > 0:
                    p = sim.particles[rng.randrange(sim.N)]
                    p.x += 0.01
                    p.vz -= 0.02
                    p.m *= 1.5
                    p.r = 0.003
                    p.hash = rng.randrange(1, 2 ** 31)
            elif op == "synchronize":
                # (after an add/remove the SABA/WHFast keep_unsynchronized path memcpy's N entries out of a
                #  p_jh that still has the old length -- AddressSanitizer over-read in reb_integrator_saba_synchronize)
                if sim.ri_whfast._N_allocated in (0, sim.N):
                    sim.synchronize()
            elif op == "reset_integrator":
                sim.reset_integrator()
            elif op == "save":
                g.save_bytes(rebound, sim)
            elif op == "copy":
                g.copy_sim(rebound, sim)
    except Exception as e:   # library-reported user errors (RuntimeError etc.)
        return op + "!" + type(e).__name__
    return op


def _finite(sim):
    for i in range(sim.N):
        p = sim.particles[i]
        for v in (p.x, p.y, p.z, p.vx, p.vy, p.vz, p.m):
            if v != v or v in (float("inf"), float("-inf")):
                return False
    return sim.dt == sim.dt and sim.t == sim.t


def independence_oracle(rebound, recipe, rng, n_ops=8):
    """The copy and the source share nothing.

    b0 = save(src); c = src.copy().  A random sequence of user operations is applied
    to the copy; after each one canon(save(src)) must equal canon(b0).  Then the
    reverse (operate on src, a second copy must keep its stream).  Also no data
    pointer that is non-NULL in both structs may hold the same address.
    """
    fails = []
    src = g.build(rebound, recipe)
    b0 = g.save_bytes(rebound, src)
    c0 = g.canon(rebound, b0)
    c = g.reattach(rebound, recipe, g.copy_sim(rebound, src))
    sh = _shared_pointers(rebound, src, c)
    if sh:
        fails.append(_fail(recipe, "shared", "src and copy share heap pointers: %s" % sh, key="indep:shared:%s" % sh[0]))
    done = []
    for _ in range(n_ops):
        if not _finite(c):
            break       # the random edits drove the copy to NaN/inf: stop before the library's tree code sees it
        done.append(_random_op(rebound, recipe, c, rng))
        d = g.diff_fields(c0, g.canon(rebound, g.save_bytes(rebound, src)))
        if d:
            fails.append(_fail(recipe, "copy-ops", "operating on the copy changed the source", key="indep:src-changed:%s" % d[0],
                               fields=d, ops=list(done)))
            break
        sh = _shared_pointers(rebound, src, c)
        if sh:
            fails.append(_fail(recipe, "shared", "after %s: shared heap pointers %s" % (done, sh), key="indep:shared:%s" % sh[0]))
            break
    # reverse direction
    c2 = g.reattach(rebound, recipe, g.copy_sim(rebound, src))
    b2 = g.save_bytes(rebound, c2)
    cc2 = g.canon(rebound, b2)
    done = []
    for _ in range(n_ops):
        if not _finite(src):
            break
        done.append(_random_op(rebound, recipe, src, rng))
        d = g.diff_fields(cc2, g.canon(rebound, g.save_bytes(rebound, c2)))
        if d:
            fails.append(_fail(recipe, "src-ops", "operating on the source changed the copy", key="indep:copy-changed:%s" % d[0],
                               fields=d, ops=list(done)))
            break
        sh = _shared_pointers(rebound, src, c2)
        if sh:
            fails.append(_fail(recipe, "shared", "after %s on src: shared heap pointers %s" % (done, sh), key="indep:shared:%s" % sh[0]))
            break
    return fails


# ----------------------------------------------------------------------------
# perturbation_oracle
# ----------------------------------------------------------------------------

def _flip(addr, bit=0):
    c = ctypes.c_ubyte.from_address(addr)
    c.value = c.value ^ (1 << bit)


def _ptr_at(addr):
    return ctypes.c_void_p.from_address(addr).value or 0


def _perturb(rebound, sim, d, what="value"):
    """Perturb exactly the persisted quantity described by descriptor dict d inside sim.
    what: "value" (a non-address byte) | "pointer:<member>" (an address-valued member of
    the first struct in the array).  Returns a description or None if not applicable."""
    base = ctypes.addressof(sim)
    dt = d["dtype"]
    name = d["name"]
    P = rebound.Particle
    if dt in g.SCALAR_DTYPES:
        if what != "value":
            return None
        if name == "N":
            # flipping the low bit could increase N beyond the allocation: drop one particle instead
            n = ctypes.c_uint.from_address(base + d["offset"])
            if n.value == 0:
                return None
            n.value -= 1
            return "N -= 1"
        _flip(base + d["offset"])
        return "low bit of %s flipped" % name
    if dt == g.DTYPE["VEC3D"]:
        if what != "value":
            return None
        _flip(base + d["offset"])
        return "low bit of %s.x flipped" % name
    if dt == g.DTYPE["PARTICLE4"]:
        if what == "value":
            _flip(base + d["offset"] + P.x.offset)
            return "low bit of %s[0].x flipped" % name
        member = what.split(":", 1)[1]
        _flip(base + d["offset"] + getattr(P, member).offset)
        return "low bit of %s[0].%s flipped" % (name, member)
    if dt in (g.DTYPE["POINTER"], g.DTYPE["POINTER_ALIGNED"], g.DTYPE["POINTER_FIXED_SIZE"]):
        p = _ptr_at(base + d["offset"])
        if not p:
            return None
        if name in ("particles", "ri_whfast.p_jh"):
            if what == "value":
                _flip(p + P.x.offset)
                return "low bit of %s[0].x flipped" % name
            member = what.split(":", 1)[1]
            _flip(p + getattr(P, member).offset)
            return "low bit of %s[0].%s flipped" % (name, member)
        if name == "var_config":
            V = rebound.Variation
            if what == "value":
                _flip(p + V.index.offset)
                return "low bit of var_config[0].index flipped"
            _flip(p + V._sim.offset)
            return "low bit of var_config[0].sim flipped"
        if what != "value":
            return None
        _flip(p)
        return "low bit of first byte of %s flipped" % name
    if dt == g.DTYPE["DP7"]:
        if what != "value":
            return None
        p = _ptr_at(base + d["offset"])     # dp7.p0
        if not p:
            return None
        _flip(p)
        return "low bit of %s.p0[0] flipped" % name
    return None


_SEI_CACHES = ("ri_sei.lastdt", "ri_sei.sindt", "ri_sei.tandt", "ri_sei.sindtz", "ri_sei.tandtz")


def perturbation_oracle(rebound, rng, recipe):
    """For every descriptor row that appears in the save stream of build(recipe): copy,
    perturb exactly that persisted quantity in the copy through ctypes, and require
    `sim == copy` to be False -- or True for walltime fields and for address-valued
    members (c, ap of particles[0]; sim of var_config[0]).

    Returns (n_checked, failures, skipped); a failure is
    {"field", "what", "expected_differ", "got_equal", "key", "recipe_id"}.
    """
    sim = g.build(rebound, recipe)
    b = g.save_bytes(rebound, sim)
    present = set(t for t, _ in g.parse(b)[1])
    fails = []
    skipped = []
    n = 0

    def run(d, what, expect_differ):
        nonlocal n
        c = g.reattach(rebound, recipe, g.copy_sim(rebound, sim))
        if not _eq(sim, c):
            fails.append({"field": d["name"], "what": "unperturbed copy", "expected_differ": False, "got_equal": False,
                          "key": "perturb:copy-differs", "recipe_id": recipe["id"]})
            return
        desc = _perturb(rebound, c, d, what)
        if desc is None:
            return
        n += 1
        got_equal = _eq(sim, c)
        sym_equal = _eq(c, sim)
        if got_equal == expect_differ or sym_equal == expect_differ:
            kind = "missed" if expect_differ else "spurious"
            fails.append({"field": d["name"], "what": desc, "expected_differ": expect_differ, "got_equal": got_equal,
                          "got_equal_reversed": sym_equal, "key": "perturb:%s:%s%s" % (kind, d["name"], "" if what == "value" else ":" + what.split(":")[1]),
                          "recipe_id": recipe["id"]})

    for d in g.descriptors(rebound):
        name = d["name"]
        if d["dtype"] in (g.DTYPE["FIELD_END"],) or name in ("header", "sablob"):
            continue
        if name == "functionpointers":
            # not a struct member: the flag is computed from the callback pointers at save time
            c = g.copy_sim(rebound, sim)          # callbacks NOT re-attached: flag 0 in the copy
            flag = [p for t, p in g.parse(b)[1] if t == g.FUNCTIONPOINTERS_TYPE]
            if flag and struct.unpack("<i", flag[0][:4])[0] == 0:
                c.collision_resolve = "merge"     # source has no callback: attach one to the copy only
            n += 1
            if _eq(sim, c):
                fails.append({"field": name, "what": "callback attached on one side only", "expected_differ": True,
                              "got_equal": True, "key": "perturb:missed:functionpointers", "recipe_id": recipe["id"]})
            continue
        if d["id"] not in present:
            skipped.append("%s: not in the save stream of this recipe" % name)
            continue
        if name.startswith("walltime"):
            run(d, "value", False)
            continue
        if name in _SEI_CACHES and recipe["integrator"] == "sei":
            skipped.append("%s: derived cache; with integrator SEI saving (and therefore ==) recomputes it from dt/OMEGA "
                           "(reb_integrator_sei_init), so it cannot differ on its own" % name)
            continue
        run(d, "value", True)
        if name == "particles":
            run(d, "pointer:c", False)
            run(d, "pointer:ap", False)
        if name == "var_config":
            run(d, "pointer:sim", False)
        if name in ("ri_whfast.p_jh", "ri_whfast512.pjh0"):
            # address-valued members inside integrator-internal particle arrays
            run(d, "pointer:c", False)
            run(d, "pointer:ap", False)
    return n, fails, skipped


# ----------------------------------------------------------------------------
# probes: observed semantics of ==
# ----------------------------------------------------------------------------

def _two_body(rebound):
    sim = rebound.Simulation()
    sim.rand_seed = 7
    sim.add(m=1.0)
    sim.add(m=1e-3, x=1.0, vy=1.0)
    return sim


def nan_probe(rebound):
    """What == says when a NaN is stored.  Particles are compared member-wise with the C
    operator != (reb_particle_diff), every other field with memcmp."""
    nan = float("nan")
    out = {}
    sim = _two_body(rebound)
    sim.particles[1].x = nan
    c = g.copy_sim(rebound, sim)
    out["particle_x_nan_bits_identical"] = bytes(sim.particles[1])[:8] == bytes(c.particles[1])[:8]
    out["particle_x_nan_sim_eq_copy"] = _eq(sim, c)
    out["particle_x_nan_sim_eq_sim"] = _eq(sim, sim)
    out["particle_x_nan_stream_equal"] = g.diff_fields(g.canon(rebound, g.save_bytes(rebound, sim)),
                                                      g.canon(rebound, g.save_bytes(rebound, c))) == []
    sim = _two_body(rebound)
    sim.particles[1].m = nan
    out["particle_m_nan_sim_eq_copy"] = _eq(sim, g.copy_sim(rebound, sim))
    sim = _two_body(rebound)
    sim.G = nan
    out["scalar_G_nan_sim_eq_copy"] = _eq(sim, g.copy_sim(rebound, sim))
    sim = _two_body(rebound)
    sim.integrator = "whfast"
    sim.dt = 0.01
    sim.steps(1)
    ctypes.c_double.from_address(ctypes.addressof(sim.ri_whfast._p_jh.contents) + rebound.Particle.x.offset).value = nan
    out["whfast_p_jh_x_nan_sim_eq_copy"] = _eq(sim, g.copy_sim(rebound, sim))
    out["summary"] = ("a NaN in any member of particles[] makes sim != sim.copy() and even sim != sim "
                      "(C '!=' on doubles in reb_particle_diff); a NaN in memcmp-compared fields does not"
                      if not out["particle_x_nan_sim_eq_copy"] else "NaN in particles[] did not break equality")
    return out


def signed_zero_probe(rebound):
    """+0.0 versus -0.0: different bits, equal under C '!='."""
    out = {}
    sim = _two_body(rebound)
    sim.particles[1].z = 0.0
    c = g.copy_sim(rebound, sim)
    c.particles[1].z = -0.0
    out["particle_z_bits_differ"] = bytes(sim.particles[1])[16:24] != bytes(c.particles[1])[16:24]
    out["particle_z_pm0_sim_eq_copy"] = _eq(sim, c)
    out["particle_z_pm0_binary_diff"] = binary_diff(rebound, g.save_bytes(rebound, sim), g.save_bytes(rebound, c))
    out["particle_z_pm0_stream_fields_differ"] = g.diff_fields(g.canon(rebound, g.save_bytes(rebound, sim)),
                                                              g.canon(rebound, g.save_bytes(rebound, c)))
    sim = _two_body(rebound)
    sim.softening = 0.0
    c = g.copy_sim(rebound, sim)
    c.softening = -0.0
    out["scalar_softening_pm0_sim_eq_copy"] = _eq(sim, c)
    sim = _two_body(rebound)
    sim.integrator = "whfast"
    sim.dt = 0.01
    sim.steps(1)
    c = g.copy_sim(rebound, sim)
    a = ctypes.c_double.from_address(ctypes.addressof(c.ri_whfast._p_jh.contents) + rebound.Particle.z.offset)
    ao = ctypes.c_double.from_address(ctypes.addressof(sim.ri_whfast._p_jh.contents) + rebound.Particle.z.offset)
    ao.value = 0.0
    a.value = -0.0
    out["whfast_p_jh_z_pm0_sim_eq_copy"] = _eq(sim, c)
    out["summary"] = ("+0.0 vs -0.0 in a member of particles[] is NOT reported by == (C '!='), although the persisted bytes "
                      "differ; in memcmp-compared fields (scalars, ri_whfast.p_jh) it IS reported"
                      if out["particle_z_pm0_sim_eq_copy"] else "+0.0 vs -0.0 in particles[] is reported by ==")
    return out


# ----------------------------------------------------------------------------
# diff_pairs
# ----------------------------------------------------------------------------

def diff_pairs(rebound, rng, recipe, n):
    """n self-contained triples (bytes1, bytes2, ret) with ret = reb_binary_diff(bytes1,
    len, bytes2, len, NULL, NULL, 2) evaluated on exactly these byte strings.

    Kinds (cycled): (state, copy); (state, copy with one random persisted field
    perturbed); (state, state after reb_simulation_reset_integrator: integrator arrays
    vanish); the same swapped (fields appear); (state, particles removed / all removed);
    (state, variational configuration added: var_config appears) and swapped; (state,
    walltime-only change); (state, particle pointer member changed); (stream, stream
    with two fields swapped in order).
    """
    sim = g.build(rebound, recipe)
    b0 = g.save_bytes(rebound, sim)
    descs = [d for d in g.descriptors(rebound)]
    present = set(t for t, _ in g.parse(b0)[1])
    cand = [d for d in descs if d["id"] in present and d["name"] not in ("functionpointers",)]
    out = []
    kinds = ("copy", "perturb", "perturb", "reset", "reset_swapped", "remove", "remove_all", "addvar", "addvar_swapped",
             "walltime", "pointer", "reorder", "perturb")
    i = 0
    guard = 0
    while len(out) < n and guard < 20 * n + 50:
        guard += 1
        kind = kinds[i % len(kinds)]
        i += 1
        c = g.reattach(rebound, recipe, g.copy_sim(rebound, sim))
        b1 = b0
        b2 = None
        with warnings.catch_warnings():
            warnings.simplefilter("ignore")
            try:
                if kind == "copy":
                    b2 = g.save_bytes(rebound, c)
                elif kind == "perturb":
                    d = rng.choice(cand)
                    if _perturb(rebound, c, d, "value") is None:
                        continue
                    b2 = g.save_bytes(rebound, c)
                elif kind in ("reset", "reset_swapped"):
                    c.reset_integrator()
                    b2 = g.save_bytes(rebound, c)
                elif kind == "remove":
                    if c.N < 1 or c._calculate_megno:
                        continue
                    c.remove(index=c.N - 1)
                    b2 = g.save_bytes(rebound, c)
                elif kind == "remove_all":
                    del c.particles
                    b2 = g.save_bytes(rebound, c)
                elif kind in ("addvar", "addvar_swapped"):
                    c.add_variation()
                    b2 = g.save_bytes(rebound, c)
                elif kind == "walltime":
                    c.walltime = c.walltime + 1.5
                    b2 = g.save_bytes(rebound, c)
                elif kind == "pointer":
                    d = [x for x in descs if x["name"] == "particles"][0]
                    if d["id"] not in present or _perturb(rebound, c, d, "pointer:ap") is None:
                        continue
                    b2 = g.save_bytes(rebound, c)
                elif kind == "reorder":
                    h, fields, tr = g.parse(b0)
                    if len(fields) < 4:
                        continue
                    j = rng.randrange(len(fields) - 1)
                    fields[j], fields[j + 1] = fields[j + 1], fields[j]
                    b2 = g.unparse(h, fields, tr)
            except Exception:
                continue
        if b2 is None:
            continue
        if kind.endswith("_swapped"):
            b1, b2 = b2, b1
        out.append((b1, b2, binary_diff(rebound, b1, b2)))
    return out


# ----------------------------------------------------------------------------
# self test
# ----------------------------------------------------------------------------

if __name__ == "__main__":
    import collections
    import random
    import time
    import rebound

    seed = int(sys.argv[1]) if len(sys.argv) > 1 else 1
    nrec = int(sys.argv[2]) if len(sys.argv) > 2 else 150
    rng = random.Random(seed)
    recs = g.recipes(rng, nrec)
    summary = collections.Counter()
    t0 = time.time()
    for rec in recs:
        for f in eq_oracle(rebound, rec):
            summary["eq_oracle " + f["key"]] += 1
    t1 = time.time()
    for rec in recs:
        for f in independence_oracle(rebound, rec, rng):
            summary["independence_oracle " + f["key"]] += 1
    t2 = time.time()
    npert = 0
    for rec in recs:
        nn, ff, _ = perturbation_oracle(rebound, rng, rec)
        npert += nn
        for f in ff:
            summary["perturbation_oracle " + f["key"]] += 1
    t3 = time.time()
    npairs = 0
    ret_hist = collections.Counter()
    for rec in recs[:40]:
        for b1, b2, ret in diff_pairs(rebound, rng, rec, 13):
            npairs += 1
            ret_hist[ret] += 1
    t4 = time.time()
    print("recipes: %d (seed %d)" % (len(recs), seed))
    print("eq_oracle            %6.2fs" % (t1 - t0))
    print("independence_oracle  %6.2fs" % (t2 - t1))
    print("perturbation_oracle  %6.2fs  (%d perturbations)" % (t3 - t2, npert))
    print("diff_pairs           %6.2fs  (%d pairs, return values %s)" % (t4 - t3, npairs, dict(ret_hist)))
    print("nan_probe:", nan_probe(rebound))
    print("signed_zero_probe:", signed_zero_probe(rebound))
    print("failures by key:")
    for k in sorted(summary):
        print("  %5d  %s" % (summary[k], k))
    if not summary:
        print("  none")
