"""C12 child process: the Jacobi transformations called with N_active = 0 (the split the library itself produces when the
only active particle is removed).  Runs in a child because a library that loops out of bounds here dies with SIGSEGV.
stdin: JSON list of systems {n, ms, vals{x..vz,ax..az}}; stdout: JSON list of results per system:
  {fwd: [[x,y,z,vx,vy,vz] per particle], m0, back_posvel: [...], back_pos: [...], back_acc: [...]} with floats as hex."""
import sys, json, ctypes, os, glob
libdir = sys.argv[1]
sys.path.insert(0, libdir)
import rebound
from rebound import Particle
clib = rebound.clibrebound
U = ctypes.c_uint
COMPS = ["x", "y", "z", "vx", "vy", "vz", "ax", "ay", "az"]
def mk(n, ms, vals):
    arr = (Particle * n)()
    for i in range(n):
        arr[i].m = ms[i]
        for c in COMPS: setattr(arr[i], c, vals[c][i])
    return arr
out = []
for s in json.load(sys.stdin):
    n, ms = s["n"], [float.fromhex(x) for x in s["ms"]]
    vals = {c: [float.fromhex(x) for x in s["vals"][c]] for c in COMPS}
    zero = {c: [1234.5] * n for c in COMPS}
    src = mk(n, ms, vals); mid = mk(n, [0.0] * n, zero)
    clib.reb_particles_transform_inertial_to_jacobi_posvelacc(src, mid, src, U(n), U(0))
    res = {"fwd": [[getattr(mid[i], c).hex() for c in COMPS] for i in range(n)], "m0": mid[0].m.hex()}
    for name, comps in (("posvel", COMPS[:6]), ("pos", COMPS[:3]), ("acc", COMPS[6:])):
        back = mk(n, ms, zero)
        getattr(clib, "reb_particles_transform_jacobi_to_inertial_" + name)(back, mid, src, U(n), U(0))
        res["back_" + name] = [[getattr(back[i], c).hex() for c in comps] for i in range(n)]
    out.append(res)
json.dump(out, sys.stdout)
