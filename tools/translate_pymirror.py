#!/venv/bin/python
"""C18 translator (Python side): $VERIF_REPO/rebound/**/*.py  ->  coq/Gen/PyMirror.v

Reads the CURRENT python sources with the `ast` module (nothing is imported or executed) and emits
  py_classes  : every ctypes.Structure subclass with its ordered _fields_ (name, ctype expression), in an
                order where a class embedded by value comes before its user (the layout model needs that);
  py_dicts    : every module-level  NAME = {"str": int, ...}  dictionary (INTEGRATORS, GRAVITIES, ...);
  py_binary_warnings : BINARY_WARNINGS as (major, id);
  py_props    : per class, every @property name, whether it has a setter, and the attributes  self.X = ...  that
                the setter assigns directly;  py_getter_reads : per property, the attribute names its getter reads;
  py_symbols  : every clibrebound.<name> / getattr(clibrebound, "lit"+...) / T.in_dll(clibrebound,"lit") reference
                with the module that contains it;  py_symbol_prefixes : dynamic getattr(clibrebound, "prefix"+expr);
  py_imported_modules : package modules imported by some module of the package (anywhere, also inside functions).
Fail closed: any construct in a _fields_ list, a ctypes type expression or a class header that is not understood
makes the translator exit non-zero (the check then reports a broken obligation).
"""
import ast, glob, os, sys

ROOT = os.path.dirname(os.path.dirname(os.path.abspath(__file__)))
REPO = os.environ.get("VERIF_REPO", "/repo")
PKG = os.path.join(REPO, "rebound")
OUT = os.path.join(ROOT, "coq", "Gen", "PyMirror.v")

PRIMS = {"c_double", "c_float", "c_int", "c_uint", "c_long", "c_ulong", "c_longlong", "c_ulonglong", "c_short",
         "c_ushort", "c_int8", "c_uint8", "c_int16", "c_uint16", "c_int32", "c_uint32", "c_int64", "c_uint64",
         "c_size_t", "c_ssize_t", "c_char", "c_byte", "c_ubyte", "c_bool", "c_void_p", "c_char_p", "c_longdouble"}


class Fail(Exception):
    pass


def fail(msg):
    raise Fail(msg)


def qs(s):
    if any(ord(c) < 32 or ord(c) > 126 for c in s):
        fail("non printable-ascii string %r" % s)
    return '"' + s.replace('"', '""') + '"'


def is_structure_base(b):
    return (isinstance(b, ast.Name) and b.id == "Structure") or \
           (isinstance(b, ast.Attribute) and b.attr == "Structure" and isinstance(b.value, ast.Name) and b.value.id == "ctypes")


def is_union_base(b):
    return (isinstance(b, ast.Name) and b.id == "Union") or (isinstance(b, ast.Attribute) and b.attr == "Union")


class Module:
    def __init__(self, path):
        self.path = path
        rel = os.path.relpath(path, PKG)[:-3].replace(os.sep, ".")
        self.name = rel
        self.tree = ast.parse(open(path).read(), path)
        self.alias = {}        # local name -> original class name (from .. import X as Y)


def type_expr(e, classes, mod):
    """ctypes type expression -> Coq term of type pytype."""
    if isinstance(e, ast.Constant) and e.value is None:
        return "PNone"
    if isinstance(e, ast.Attribute) and isinstance(e.value, ast.Name) and e.value.id == "ctypes":
        e = ast.Name(id=e.attr)
        if e.id not in PRIMS:
            fail("%s: unknown ctypes.%s" % (mod.name, e.id))
    if isinstance(e, ast.Name):
        if e.id in PRIMS:
            return "PPrim %s" % qs(e.id)
        nm = mod.alias.get(e.id, e.id)
        if nm in classes:
            return "PStruct %s" % qs(nm)
        fail("%s: type name '%s' is neither a ctypes scalar nor a known Structure class" % (mod.name, e.id))
    if isinstance(e, ast.Call):
        f = e.func
        fname = f.id if isinstance(f, ast.Name) else (f.attr if isinstance(f, ast.Attribute) and isinstance(f.value, ast.Name) and f.value.id == "ctypes" else None)
        if e.keywords:
            fail("%s: keywords in type constructor" % mod.name)
        if fname == "POINTER" and len(e.args) == 1:
            return "PPtr (%s)" % type_expr(e.args[0], classes, mod)
        if fname == "CFUNCTYPE" and len(e.args) >= 1:
            return "PFun (%s) [%s]" % (type_expr(e.args[0], classes, mod),
                                       "; ".join(type_expr(a, classes, mod) for a in e.args[1:]))
        fail("%s: unsupported type constructor %s" % (mod.name, ast.dump(e)[:120]))
    if isinstance(e, ast.BinOp) and isinstance(e.op, ast.Mult):
        if isinstance(e.right, ast.Constant) and isinstance(e.right.value, int) and not isinstance(e.right.value, bool):
            return "PArr %d (%s)" % (e.right.value, type_expr(e.left, classes, mod))
        fail("%s: array length is not an integer literal" % mod.name)
    fail("%s: unsupported type expression %s" % (mod.name, ast.dump(e)[:160]))


def fields_of(listnode, classes, mod, cname):
    if not isinstance(listnode, ast.List):
        fail("%s.%s: _fields_ is not a list literal" % (mod.name, cname))
    out = []
    for el in listnode.elts:
        if not (isinstance(el, ast.Tuple) and len(el.elts) == 2 and isinstance(el.elts[0], ast.Constant)
                and isinstance(el.elts[0].value, str)):
            fail("%s.%s: _fields_ entry is not a (\"name\", type) pair (bit fields are not supported): %s"
                 % (mod.name, cname, ast.dump(el)[:120]))
        out.append((el.elts[0].value, el.elts[1]))
    return out


def eval_platform_test(test):
    """The only platform switch the sources use:  sizeof(c_void_p)==4   (False on x86-64)."""
    if (isinstance(test, ast.Compare) and len(test.ops) == 1 and isinstance(test.ops[0], ast.Eq)
            and isinstance(test.left, ast.Call) and isinstance(test.left.func, ast.Name) and test.left.func.id == "sizeof"
            and len(test.left.args) == 1 and isinstance(test.left.args[0], ast.Name) and test.left.args[0].id == "c_void_p"
            and isinstance(test.comparators[0], ast.Constant) and isinstance(test.comparators[0].value, int)):
        return 8 == test.comparators[0].value
    return None


def loop_shape(fn, where):
    """Shape of the loops of a property accessor.  Returns (exits, tests):
       exits: [(kind, guarded)] for every return/break/continue inside a `for` body; guarded = an `if` lies between the
              innermost enclosing `for` and the statement (an unguarded exit makes the loop inspect only its first element);
       tests: ast dumps of the `if` tests that sit directly in a `for` body (the search condition).
    Fail closed on `while` loops (no accessor of the pinned sources uses one)."""
    exits = []; tests = []
    def walk(stmts, in_for, guarded, direct):
        for st in stmts:
            if isinstance(st, (ast.FunctionDef, ast.AsyncFunctionDef, ast.ClassDef)):
                continue
            if isinstance(st, ast.While):
                fail("%s: `while` loop in a property accessor is not supported" % where)
            if isinstance(st, ast.For):
                walk(st.body, True, False, True)
                walk(st.orelse, in_for, guarded, False)
            elif isinstance(st, ast.If):
                if in_for and direct:
                    tests.append(ast.dump(st.test))
                walk(st.body, in_for, True, False)
                walk(st.orelse, in_for, True, False)
            elif isinstance(st, (ast.With, ast.Try)):
                for blk in ([st.body] + ([h.body for h in st.handlers] + [st.orelse, st.finalbody] if isinstance(st, ast.Try) else [])):
                    walk(blk, in_for, guarded, direct)
            elif isinstance(st, (ast.Return, ast.Break, ast.Continue)):
                if in_for:
                    exits.append((type(st).__name__.lower(), guarded))
    walk(fn.body, False, False, False)
    return exits, tests


def main():
    files = sorted(glob.glob(os.path.join(PKG, "*.py")) + glob.glob(os.path.join(PKG, "integrators", "*.py")))
    if not files:
        fail("no python sources under %s" % PKG)
    mods = [Module(f) for f in files]

    # ---- pass 1: classes
    classes = {}      # name -> dict(mod, node)
    for m in mods:
        for node in ast.walk(m.tree):
            if isinstance(node, ast.ClassDef):
                if any(is_union_base(b) for b in node.bases):
                    fail("%s.%s: ctypes.Union is not supported" % (m.name, node.name))
                if any(is_structure_base(b) for b in node.bases):
                    if node.name in classes:
                        fail("duplicate Structure class name %s" % node.name)
                    if node not in m.tree.body:
                        fail("%s.%s: Structure class not at module level" % (m.name, node.name))
                    classes[node.name] = {"mod": m, "node": node, "fields": None}
        for node in ast.walk(m.tree):
            if isinstance(node, ast.ImportFrom):
                for a in node.names:
                    if a.asname:
                        m.alias[a.asname] = a.name
    # subclasses of Structure subclasses would inherit fields: not supported
    for m in mods:
        for node in ast.walk(m.tree):
            if isinstance(node, ast.ClassDef):
                for b in node.bases:
                    if isinstance(b, ast.Name) and m.alias.get(b.id, b.id) in classes:
                        fail("%s.%s derives from Structure class %s (inherited fields not supported)" % (m.name, node.name, b.id))

    # ---- pass 2: _fields_ (class body, or  Class._fields_ = [...] at module level, possibly under the pointer-size switch)
    def set_fields(cname, listnode, m):
        if cname not in classes:
            fail("%s: _fields_ assigned to unknown class %s" % (m.name, cname))
        if classes[cname]["fields"] is not None:
            fail("%s: _fields_ of %s assigned twice" % (m.name, cname))
        classes[cname]["fields"] = (listnode, m)

    def scan_stmts(stmts, m):
        for st in stmts:
            if isinstance(st, ast.If):
                touches = any(isinstance(n, ast.Attribute) and n.attr in ("_fields_", "_pack_", "_anonymous_") for n in ast.walk(st))
                if touches:
                    v = eval_platform_test(st.test)
                    if v is None:
                        fail("%s: _fields_ assigned under a condition that is not understood (line %d)" % (m.name, st.lineno))
                    scan_stmts(st.body if v else st.orelse, m)
                continue
            if isinstance(st, (ast.Assign, ast.AugAssign, ast.AnnAssign)):
                tgts = st.targets if isinstance(st, ast.Assign) else [st.target]
                for t in tgts:
                    if isinstance(t, ast.Attribute) and t.attr in ("_pack_", "_anonymous_", "_layout_", "_align_"):
                        fail("%s: %s is not supported" % (m.name, t.attr))
                    if isinstance(t, ast.Attribute) and t.attr == "_fields_":
                        if not (isinstance(st, ast.Assign) and len(st.targets) == 1 and isinstance(t.value, ast.Name)):
                            fail("%s: unsupported _fields_ assignment at line %d" % (m.name, st.lineno))
                        set_fields(m.alias.get(t.value.id, t.value.id), st.value, m)
            elif isinstance(st, (ast.For, ast.While, ast.With, ast.Try, ast.FunctionDef)):
                for n in ast.walk(st):
                    if isinstance(n, ast.Attribute) and n.attr == "_fields_" and isinstance(n.ctx, ast.Store):
                        fail("%s: _fields_ assigned inside a compound statement (line %d)" % (m.name, st.lineno))
            elif isinstance(st, ast.Expr):
                # e.g.  X._fields_.append(...)  would change the layout
                for n in ast.walk(st):
                    if isinstance(n, ast.Attribute) and n.attr == "_fields_":
                        fail("%s: _fields_ used in an expression statement (line %d)" % (m.name, st.lineno))

    for m in mods:
        scan_stmts(m.tree.body, m)
    for cname, c in classes.items():
        for st in c["node"].body:
            if isinstance(st, ast.Assign):
                for t in st.targets:
                    if isinstance(t, ast.Name) and t.id in ("_pack_", "_anonymous_", "_layout_", "_align_"):
                        fail("%s: %s is not supported" % (cname, t.id))
                    if isinstance(t, ast.Name) and t.id == "_fields_":
                        if len(st.targets) != 1:
                            fail("%s: unsupported _fields_ assignment" % cname)
                        set_fields(cname, st.value, c["mod"])
            elif isinstance(st, (ast.AugAssign, ast.AnnAssign)):
                if isinstance(st.target, ast.Name) and st.target.id == "_fields_":
                    fail("%s: _fields_ built incrementally" % cname)
    for cname, c in classes.items():
        if c["fields"] is None:
            fail("Structure class %s has no _fields_" % cname)
        listnode, m = c["fields"]
        c["flist"] = [(n, type_expr(t, classes, m), t) for n, t in fields_of(listnode, classes, m, cname)]
        names = [n for n, _, _ in c["flist"]]
        if len(set(names)) != len(names):
            fail("%s: duplicate field name" % cname)

    # ---- order: by-value dependencies first
    def byvalue_deps(t):
        if isinstance(t, ast.BinOp):
            return byvalue_deps(t.left)
        if isinstance(t, ast.Name):
            return [t.id] if t.id in classes else []
        return []
    order = []; state = {}
    def visit(c):
        if state.get(c) == 2: return
        if state.get(c) == 1: fail("by-value cycle through %s" % c)
        state[c] = 1
        m = classes[c]["fields"][1]
        for _, _, t in classes[c]["flist"]:
            for d in byvalue_deps(t):
                visit(m.alias.get(d, d))
        state[c] = 2; order.append(c)
    for c in sorted(classes):
        visit(c)

    # ---- dictionaries, BINARY_WARNINGS
    dicts = []
    binwarn = None
    for m in mods:
        for st in m.tree.body:
            if isinstance(st, ast.Assign) and len(st.targets) == 1 and isinstance(st.targets[0], ast.Name):
                nm = st.targets[0].id
                if isinstance(st.value, ast.Dict) and st.value.keys and all(
                        isinstance(k, ast.Constant) and isinstance(k.value, str) for k in st.value.keys) and all(
                        isinstance(v, ast.Constant) and isinstance(v.value, int) and not isinstance(v.value, bool) for v in st.value.values):
                    dicts.append((m.name, nm, [(k.value, v.value) for k, v in zip(st.value.keys, st.value.values)]))
                if nm == "BINARY_WARNINGS":
                    if not isinstance(st.value, ast.List):
                        fail("BINARY_WARNINGS is not a list literal")
                    binwarn = []
                    for el in st.value.elts:
                        if not (isinstance(el, ast.Tuple) and len(el.elts) == 3 and isinstance(el.elts[0], ast.Constant)
                                and isinstance(el.elts[0].value, bool) and isinstance(el.elts[1], ast.Constant)
                                and isinstance(el.elts[1].value, int)):
                            fail("BINARY_WARNINGS entry not understood")
                        binwarn.append((el.elts[0].value, el.elts[1].value))
    if binwarn is None:
        fail("BINARY_WARNINGS not found")
    dn = [d[1] for d in dicts]
    if len(set(dn)) != len(dn):
        fail("two option dictionaries with the same name")

    # ---- module-level function-pointer type aliases  NAME = CFUNCTYPE(...)
    functypes = {}
    for m in mods:
        for st in m.tree.body:
            if isinstance(st, ast.Assign) and len(st.targets) == 1 and isinstance(st.targets[0], ast.Name) and isinstance(st.value, ast.Call):
                f = st.value.func
                fname = f.id if isinstance(f, ast.Name) else (f.attr if isinstance(f, ast.Attribute) else None)
                if fname == "CFUNCTYPE":
                    nm = st.targets[0].id
                    if nm in functypes:
                        fail("two function-pointer type aliases named %s" % nm)
                    functypes[nm] = (m.name, type_expr(st.value, classes, m))

    # ---- properties and setter targets
    props = []
    for cname in order:
        node = classes[cname]["node"]
        plist = {}
        for st in node.body:
            if isinstance(st, ast.FunctionDef):
                for d in st.decorator_list:
                    if isinstance(d, ast.Name) and d.id == "property":
                        p = plist.setdefault(st.name, {"setter": False, "targets": []})
                        if not st.args.args:
                            fail("%s.%s getter without self" % (cname, st.name))
                        selfname = st.args.args[0].arg
                        p.setdefault("reads", [])
                        p["gshape"] = loop_shape(st, "%s.%s getter" % (cname, st.name))
                        for n in ast.walk(st):
                            # attribute names read on self OR on another instance reached from self (Variation.lrescale reads
                            # sim.var_config[i]._lrescale): the Coq side intersects this set with the class's fields
                            if isinstance(n, ast.Attribute) and isinstance(n.ctx, ast.Load) and n.attr not in p["reads"]:
                                p["reads"].append(n.attr)
                    elif isinstance(d, ast.Attribute) and d.attr == "setter" and isinstance(d.value, ast.Name):
                        p = plist.setdefault(d.value.id, {"setter": False, "targets": []})
                        p["setter"] = True
                        p["sshape"] = loop_shape(st, "%s.%s setter" % (cname, st.name))
                        if not st.args.args:
                            fail("%s.%s setter without self" % (cname, st.name))
                        selfname = st.args.args[0].arg
                        p.setdefault("wrappers", []); p.setdefault("ssyms", []); p.setdefault("named", [])
                        argname = st.args.args[1].arg if len(st.args.args) > 1 else None
                        for n in ast.walk(st):
                            # branches  if <arg> == "name": ... clibrebound.<symbol> ...   (built-in callbacks stored by name)
                            if isinstance(n, ast.If) and isinstance(n.test, ast.Compare) and len(n.test.ops) == 1 \
                                    and isinstance(n.test.ops[0], ast.Eq) and isinstance(n.test.left, ast.Name) and n.test.left.id == argname \
                                    and isinstance(n.test.comparators[0], ast.Constant) and isinstance(n.test.comparators[0].value, str):
                                syms = []
                                for b in n.body:
                                    for x in ast.walk(b):
                                        if isinstance(x, ast.Attribute) and isinstance(x.value, ast.Name) and x.value.id == "clibrebound" \
                                                and x.attr not in syms:
                                            syms.append(x.attr)
                                if syms:
                                    p["named"].append((n.test.comparators[0].value, syms))
                        for n in ast.walk(st):
                            if isinstance(n, ast.Call):
                                f = n.func
                                fname = f.id if isinstance(f, ast.Name) else (f.attr if isinstance(f, ast.Attribute) else None)
                                if fname == "CFUNCTYPE":
                                    fail("%s.%s setter builds a CFUNCTYPE inline (not supported)" % (cname, st.name))
                                if isinstance(f, ast.Name) and f.id in functypes and f.id not in p["wrappers"]:
                                    p["wrappers"].append(f.id)
                                if fname == "cast" and len(n.args) == 2 and isinstance(n.args[1], ast.Name) and n.args[1].id in functypes \
                                        and n.args[1].id not in p["wrappers"]:
                                    p["wrappers"].append(n.args[1].id)
                            if isinstance(n, ast.Attribute) and isinstance(n.value, ast.Name) and n.value.id == "clibrebound" \
                                    and n.attr not in p["ssyms"]:
                                p["ssyms"].append(n.attr)
                        for n in ast.walk(st):
                            tg = []
                            if isinstance(n, ast.Assign): tg = n.targets
                            elif isinstance(n, (ast.AugAssign, ast.AnnAssign)): tg = [n.target]
                            for t in tg:
                                for tt in (t.elts if isinstance(t, ast.Tuple) else [t]):
                                    if isinstance(tt, ast.Attribute) and isinstance(tt.value, ast.Name) and tt.value.id == selfname:
                                        if tt.attr not in p["targets"]:
                                            p["targets"].append(tt.attr)
                    elif isinstance(d, ast.Attribute) and d.attr in ("getter", "deleter"):
                        plist.setdefault(d.value.id, {"setter": False, "targets": []})
            elif isinstance(st, ast.Assign) and isinstance(st.value, ast.Call) and isinstance(st.value.func, ast.Name) \
                    and st.value.func.id == "property":
                fail("%s: property(...) call form is not supported" % cname)
        props.append((cname, plist))

    # ---- clibrebound symbols
    symbols = []; prefixes = []
    imported = set()
    modnames = {m.name for m in mods}
    for m in mods:
        for n in ast.walk(m.tree):
            if isinstance(n, ast.Attribute) and isinstance(n.value, ast.Name) and n.value.id == "clibrebound":
                if (m.name, n.attr) not in symbols:
                    symbols.append((m.name, n.attr))
            if isinstance(n, ast.Call):
                f = n.func
                isget = isinstance(f, ast.Name) and f.id == "getattr"
                isdll = isinstance(f, ast.Attribute) and f.attr == "in_dll"
                if (isget or isdll) and len(n.args) >= 2 and isinstance(n.args[0], ast.Name) and n.args[0].id == "clibrebound":
                    a = n.args[1]
                    if isinstance(a, ast.Constant) and isinstance(a.value, str):
                        if (m.name, a.value) not in symbols:
                            symbols.append((m.name, a.value))
                    else:
                        # "literal" + expr (+ ...): record the literal prefix
                        b = a
                        while isinstance(b, ast.BinOp) and isinstance(b.op, ast.Add):
                            b = b.left
                        if isinstance(b, ast.Constant) and isinstance(b.value, str):
                            if (m.name, b.value) not in prefixes:
                                prefixes.append((m.name, b.value))
                        else:
                            fail("%s: dynamic clibrebound symbol lookup not understood (line %d)" % (m.name, n.lineno))
            if isinstance(n, ast.ImportFrom) and n.level >= 1:
                base = m.name.split(".")[:-1] if n.level == 1 else m.name.split(".")[:-n.level]
                if n.module:
                    cand = ".".join(base + n.module.split("."))
                    if cand in modnames: imported.add(cand)
                    for a in n.names:
                        c2 = cand + "." + a.name
                        if c2 in modnames: imported.add(c2)
                else:
                    for a in n.names:
                        cand = ".".join(base + [a.name])
                        if cand in modnames: imported.add(cand)
            if isinstance(n, ast.Import):
                for a in n.names:
                    if a.name.startswith("rebound."):
                        cand = a.name[len("rebound."):]
                        if cand in modnames: imported.add(cand)

    # ---- emit
    L = []
    w = L.append
    w("(* GENERATED by tools/translate_pymirror.py from %s/rebound — do not edit. *)" % REPO)
    w("From Coq Require Import ZArith String List.")
    w("From RV Require Import C18.Types.")
    w("Import ListNotations.")
    w("Open Scope string_scope. Open Scope Z_scope.")
    w("")
    for cname in order:
        c = classes[cname]
        w("Definition pyc_%s : pyclass := {| pc_name := %s; pc_module := %s; pc_fields := [" % (cname, qs(cname), qs(c["mod"].name)))
        w(";\n".join("   (%s, %s)" % (qs(n), t) for n, t, _ in c["flist"]))
        w(" ] |}.")
    w("Definition py_classes : list pyclass := [%s]." % "; ".join("pyc_" + c for c in order))
    w("")
    w("Definition py_dicts : list pydict := [")
    w(";\n".join(" {| pd_name := %s; pd_module := %s; pd_items := [%s] |}" %
                 (qs(nm), qs(mn), "; ".join("(%s, %d)" % (qs(k), v) for k, v in items)) for mn, nm, items in dicts))
    w("].")
    w("Definition py_binary_warnings : list (bool * Z) := [%s]." %
      "; ".join("(%s, %d)" % ("true" if a else "false", b) for a, b in binwarn))
    w("")
    w("Definition py_props : list pyprops := [")
    w(";\n".join(" {| pp_class := %s; pp_props := [%s] |}" %
                 (qs(cn), "; ".join("(%s, %s, [%s])" % (qs(p), "true" if d["setter"] else "false",
                                                       "; ".join(qs(t) for t in d["targets"])) for p, d in pl.items()))
                 for cn, pl in props))
    w("].")
    w("(* class, property, every attribute name the GETTER reads (on self or on an object reached from self) *)")
    w("Definition py_getter_reads : list (string * string * list string) := [")
    w(";\n".join(" (%s, %s, [%s])" % (qs(cn), qs(p), "; ".join(qs(t) for t in d.get("reads", [])))
                 for cn, pl in props for p, d in pl.items()))
    w("].")
    w("(* function-pointer type aliases: name, module, type *)")
    w("Definition py_functypes : list (string * string * pytype) := [")
    w(";\n".join(" (%s, %s, %s)" % (qs(nm), qs(v[0]), v[1]) for nm, v in functypes.items())); w("].")
    w("(* class, property, aliases the SETTER wraps its argument with / casts to, clibrebound symbols the setter references *)")
    w("Definition py_setter_callbacks : list (string * string * list string * list string) := [")
    w(";\n".join(" (%s, %s, [%s], [%s])" % (qs(cn), qs(p), "; ".join(qs(x) for x in d.get("wrappers", [])),
                                            "; ".join(qs(x) for x in d.get("ssyms", [])))
                 for cn, pl in props for p, d in pl.items() if d.get("wrappers") or d.get("ssyms"))); w("].")
    w("(* class, property, name, symbols: setter branches  if value == name: ... clibrebound.symbol ... *)")
    w("Definition py_named_callbacks : list (string * string * string * list string) := [")
    w(";\n".join(" (%s, %s, %s, [%s])" % (qs(cn), qs(p), qs(nm), "; ".join(qs(x) for x in sy))
                 for cn, pl in props for p, d in pl.items() for nm, sy in d.get("named", []))); w("].")
    w("(* class, property, accessor, statement, guarded: every return/break/continue inside a `for` body of an accessor, and")
    w("   whether an `if` lies between the innermost `for` and it *)")
    le = []
    for cn, pl in props:
        for p, d in pl.items():
            for acc, key in (("getter", "gshape"), ("setter", "sshape")):
                for kind, g in d.get(key, ([], []))[0]:
                    le.append(" (%s, %s, %s, %s, %s)" % (qs(cn), qs(p), qs(acc), qs(kind), "true" if g else "false"))
    w("Definition py_loop_exits : list (string * string * string * string * bool) := [")
    w(";\n".join(le)); w("].")
    w("(* class, property, has_search_g, has_search_s, same: getter / setter contain a `for` whose body tests a condition; same =")
    w("   the two accessors test syntactically the same condition(s) *)")
    ls = []
    for cn, pl in props:
        for p, d in pl.items():
            tg = d.get("gshape", ([], []))[1]; ts = d.get("sshape", ([], []))[1]
            if tg or ts:
                ls.append(" (%s, %s, %s, %s, %s)" % (qs(cn), qs(p), "true" if tg else "false", "true" if ts else "false",
                                                    "true" if sorted(set(tg)) == sorted(set(ts)) else "false"))
    w("Definition py_loop_search : list (string * string * bool * bool * bool) := [")
    w(";\n".join(ls)); w("].")
    w("")
    w("Definition py_symbols : list (string * string) := [")
    w(";\n".join(" (%s, %s)" % (qs(a), qs(b)) for a, b in symbols))
    w("].")
    w("Definition py_symbol_prefixes : list (string * string) := [%s]." % "; ".join("(%s, %s)" % (qs(a), qs(b)) for a, b in prefixes))
    w("Definition py_imported_modules : list string := [%s]." % "; ".join(qs(x) for x in sorted(imported)))
    os.makedirs(os.path.dirname(OUT), exist_ok=True)
    tmp = OUT + ".tmp"
    open(tmp, "w").write("\n".join(L) + "\n")
    os.replace(tmp, OUT)
    print("translate_pymirror: %d classes, %d fields, %d dicts, %d symbols" %
          (len(order), sum(len(classes[c]["flist"]) for c in order), len(dicts), len(symbols)))


if __name__ == "__main__":
    try:
        main()
    except Fail as e:
        print("translate_pymirror: FAIL: %s" % e, file=sys.stderr)
        try: os.remove(OUT)
        except OSError: pass
        sys.exit(2)
