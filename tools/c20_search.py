"""C20 searcher: library-only algebraic oracles (exact / high-precision arithmetic judges; tolerances are amplification-aware).
Everything here runs on the library built from the current tree through its Python layer (rebound.Rotation, Simulation.units,
convert_particle_units, move_to_com, move_to_hel, *=, +=, -=, rotate); nothing refers to the Coq model."""
import math
from fractions import Fraction as F

EPS = 2.0 ** -52

# ----------------------------------------------------------------------------- independent SI reference data
# lengths in m, times in s (IAU 2012 au, Julian year, day = 86400 s), GM in km^3/s^2 (JPL DE values quoted by rebound), CODATA-2014 G
AU = F(149597870700)
G_REF = F("6.67408e-11")
GM_KM = {"sun": "1.3271244004193938E+11", "mercury": "2.2031780000000021E+04", "venus": "3.2485859200000006E+05",
         "earth": "3.9860043543609598E+05", "mars": "4.282837362069909E+04", "jupiter": "1.266865349218008E+08",
         "saturn": "3.793120749865224E+07", "uranus": "5.793951322279009E+06", "neptune": "6.835099502439672E+06",
         "pluto": "8.696138177608748E+02"}
REF_L = {"m": F(1), "cm": F(1, 100), "km": F(1000), "au": AU, "aus": AU, "pc": F("3.085677581e16"), "parsec": F("3.085677581e16")}
DAY = F(86400); YR = DAY * F("365.25")
YR2PI_SQ = AU ** 3 / (F(GM_KM["sun"]) * 10 ** 9)          # square of the time unit that makes G = 1 with au and msun
REF_T = {"s": F(1), "hr": F(3600), "day": DAY, "days": DAY, "d": DAY, "yr": YR, "year": YR, "years": YR, "yrs": YR, "jyr": YR,
         "sidereal_yr": F("31558149.7635"), "yr2pi": None, "kyr": YR * 10 ** 3, "myr": YR * 10 ** 6, "gyr": YR * 10 ** 9}
REF_M = {"kg": F(1), "g": F(1, 1000), "gram": F(1, 1000)}
for _n in ("msun", "solarmass", "sunmass", "msolar"):
    REF_M[_n] = F(GM_KM["sun"]) * 10 ** 9 / G_REF
for _p in ("mercury", "venus", "earth", "mars", "jupiter", "saturn", "uranus", "neptune", "pluto"):
    REF_M["m" + _p] = F(GM_KM[_p]) * 10 ** 9 / G_REF
REF_M["massist"] = F("4.48485856027459e+14") * 10 ** 9 / G_REF     # G = 1 for au / day (ASSIST)
PC_TRUE = AU * 648000 / F(math.pi)                                  # IAU 2015 parsec (sanity: table value within 1e-9)


def tsq(t):
    return YR2PI_SQ if REF_T[t] is None else REF_T[t] ** 2


def tval(t):
    return math.sqrt(float(YR2PI_SQ)) if REF_T[t] is None else float(REF_T[t])


def relerr(a, b):
    if a == b:
        return 0.0
    if not (math.isfinite(a) and math.isfinite(b)):
        return float("inf")
    return abs(a - b) / max(abs(a), abs(b))


class Finder:
    def __init__(self, ctx):
        self.ctx = ctx
        self.found = {}

    def fail(self, key, replay, what):
        if key not in self.found:
            self.found[key] = (replay, what)

    def flush(self):
        for key, (replay, what) in self.found.items():
            self.ctx.violation(key, replay, True, what)


# ----------------------------------------------------------------------------- units
def search_units(ctx, fd, rebound):
    U = rebound.units
    rng = ctx.rng
    # table entries against SI
    for name, tbl, ref in (("lengths_SI", U.lengths_SI, REF_L), ("times_SI", U.times_SI, REF_T), ("masses_SI", U.masses_SI, REF_M)):
        if set(tbl) != set(ref):
            fd.fail("units:table-keys:" + name, {"table": name, "keys": sorted(tbl), "expected": sorted(ref)},
                    "the set of supported %s units changed (reference data of the check covers exactly the documented units)" % name)
            continue
        for k, v in tbl.items():
            ctx.evaluations += 1
            r = math.sqrt(float(YR2PI_SQ)) if ref[k] is None else float(ref[k])
            if not (v > 0) or relerr(v, r) > 1e-12:
                fd.fail("units:table:%s[%s]" % (name, k), {"table": name, "unit": k, "value": v, "SI_reference": r},
                        "unit table entry is not the SI value of the unit")
    if relerr(U.G_SI, float(G_REF)) > 1e-15:
        fd.fail("units:G_SI", {"G_SI": U.G_SI}, "G_SI is not the CODATA value")
    if set(U.lengths_SI) == set(REF_L) and relerr(U.lengths_SI["pc"], float(PC_TRUE)) > 1e-9:
        fd.fail("units:table:pc-vs-IAU", {"pc": U.lengths_SI["pc"], "IAU": float(PC_TRUE)}, "parsec differs from 648000/pi au")
    if fd.found:
        return
    L, T, M = list(U.lengths_SI), list(U.times_SI), list(U.masses_SI)
    # G for every triple
    for l in L:
        for t in T:
            for m in M:
                sim = rebound.Simulation()
                sim.units = (m, l, t)
                ctx.evaluations += 1
                gref = float(G_REF * REF_M[m] * tsq(t) / REF_L[l] ** 3)
                un = sim.units
                if relerr(sim.G, gref) > 1e-12 or (un["length"], un["time"], un["mass"]) != (l, t, m):
                    fd.fail("units:G", {"units": (l, t, m), "G": sim.G, "G_from_SI": gref, "units_read_back": un},
                            "sim.G after sim.units=... is not G_SI*m*t^2/l^3, or the unit names do not read back")
    # every unit name written in the docstring of Simulation.units is accepted in any letter case and reads back as its lower-case key
    import re as _re
    doc = rebound.Simulation.units.__doc__ or ""
    docnames, sect = [], None
    for line in doc.splitlines():
        t = line.strip()
        if t in ("Times:", "Lengths:", "Masses:"):
            sect = {"Times:": "time", "Lengths:": "length", "Masses:": "mass"}[t]; continue
        if t.startswith("Examples"): sect = None
        mm = _re.fullmatch(r"([A-Za-z0-9_]+)\s*:\s*\S.*", t)
        if sect and mm: docnames.append((sect, mm.group(1)))
    base = {"length": "au", "time": "yr", "mass": "msun"}
    for kind, nm in docnames:
        for v in (nm, nm.lower(), nm.upper(), nm.swapcase()):
            ctx.evaluations += 1
            u = dict(base); u[kind] = v
            try:
                sim = rebound.Simulation(); sim.units = (u["mass"], u["length"], u["time"])
                back = sim.units[kind]
            except Exception as e:
                back = repr(e)
            if back != nm.lower():
                fd.fail("units:documented-name", {"documented_as": nm, "kind": kind, "given": v, "read_back": back},
                        "a unit name listed in the documentation of Simulation.units is not accepted (case-insensitively) as that %s unit" % kind)
    if len(docnames) < 10:
        fd.fail("units:documented-list", {"found": docnames}, "the list of supported units disappeared from the docstring of Simulation.units")
    sim = rebound.Simulation(); sim.units = ("AU", "yr2pi", "Msun")
    if relerr(sim.G, 1.0) > 1e-14:
        fd.fail("units:G=1", {"G": sim.G}, "G(au,yr2pi,msun) != 1")
    # conversions of particle data: round trip, transitivity, SI value, orbital period
    n = ctx.scale(300, 4000)
    members = ["m", "x", "y", "z", "r", "vx", "vy", "vz", "ax", "ay", "az"]
    for k in range(n):
        u = [(rng.choice(L), rng.choice(T), rng.choice(M)) for _ in range(3)]
        vals = {c: rng.gauss(0, 1) * 10 ** rng.uniform(-3, 3) for c in members}
        vals["m"] = abs(vals["m"]); vals["r"] = abs(vals["r"])
        if rng.random() < 0.2:
            vals[rng.choice(members)] = 0.0

        def mk(u0):
            s = rebound.Simulation()
            s.units = u0
            s.add(m=vals["m"], x=vals["x"], y=vals["y"], z=vals["z"], vx=vals["vx"], vy=vals["vy"], vz=vals["vz"], r=vals["r"])
            p = s.particles[0]
            p.ax, p.ay, p.az = vals["ax"], vals["ay"], vals["az"]
            return s

        def rd(s):
            return {c: getattr(s.particles[0], c) for c in members}
        ctx.evaluations += 1
        s1 = mk(u[0]); s1.convert_particle_units(*u[1])
        mid = rd(s1)
        g_mid = s1.G
        # value in the new units against SI
        (l0, t0, m0), (l1, t1, m1) = u[0], u[1]
        fl = float(REF_L[l0] / REF_L[l1]); ft = tval(t0) / tval(t1); fm = float(REF_M[m0] / REF_M[m1])
        exp = {"m": fm, "x": fl, "y": fl, "z": fl, "r": fl, "vx": fl / ft, "vy": fl / ft, "vz": fl / ft,
               "ax": fl / ft / ft, "ay": fl / ft / ft, "az": fl / ft / ft}
        bad = [c for c in members if relerr(mid[c], vals[c] * exp[c]) > 1e-12]
        gref = float(G_REF * REF_M[m1] * tsq(t1) / REF_L[l1] ** 3)
        if bad or relerr(g_mid, gref) > 1e-12:
            fd.fail("units:convert", {"from": u[0], "to": u[1], "particle": vals, "converted": mid, "wrong_members": bad, "G": g_mid},
                    "convert_particle_units does not scale %s by the SI ratio of the units" % (bad or "G"))
        s1.convert_particle_units(*u[0])
        back = rd(s1)
        bad = [c for c in members if relerr(back[c], vals[c]) > 64 * EPS]
        if bad or relerr(s1.G, mk(u[0]).G) > 8 * EPS:
            fd.fail("units:roundtrip", {"units": u[:2], "particle": vals, "back": back, "wrong_members": bad},
                    "unit conversion there and back is not the identity to rounding error")
        s2 = mk(u[0]); s2.convert_particle_units(*u[1]); s2.convert_particle_units(*u[2])
        s3 = mk(u[0]); s3.convert_particle_units(*u[2])
        a, b = rd(s2), rd(s3)
        bad = [c for c in members if relerr(a[c], b[c]) > 64 * EPS]
        if bad or relerr(s2.G, s3.G) > 8 * EPS:
            fd.fail("units:transitive", {"units": u, "particle": vals, "via": a, "direct": b, "wrong_members": bad},
                    "unit conversion is not transitive to rounding error")
    # orbital period does not depend on the unit system
    for k in range(ctx.scale(150, 2000)):
        u0 = (rng.choice(L), rng.choice(T), rng.choice(M)); u1 = (rng.choice(L), rng.choice(T), rng.choice(M))
        Msi = float(REF_M["msun"]) * rng.uniform(0.1, 3); asi = float(AU) * 10 ** rng.uniform(-1, 1.5); e = rng.uniform(0, 0.8)
        s = rebound.Simulation(); s.units = u0
        s.add(m=Msi / float(REF_M[u0[2]]))
        s.add(a=asi / float(REF_L[u0[0]]), e=e, f=rng.uniform(0, 6))
        ctx.evaluations += 1
        P0 = s.particles[1].orbit(primary=s.particles[0]).P * tval(u0[1])
        s.convert_particle_units(*u1)
        o1 = s.particles[1].orbit(primary=s.particles[0])
        P1 = o1.P * tval(u1[1])
        Pk = 2 * math.pi * math.sqrt(asi ** 3 / (float(G_REF) * Msi))
        if relerr(P0, P1) > 1e-11 or relerr(P0, Pk) > 1e-11 or relerr(o1.a * float(REF_L[u1[0]]), asi) > 1e-11 or abs(o1.e - e) > 1e-11:
            fd.fail("units:period", {"units0": u0, "units1": u1, "M_SI": Msi, "a_SI": asi, "e": e, "P0_s": P0, "P1_s": P1, "kepler_s": Pk},
                    "the orbital period (in seconds) depends on the unit system")


# ----------------------------------------------------------------------------- rotations
def fr(v):
    return [F(x) for x in v]


def xrot(q, v):
    """exact v + 2 r (u x v) + 2 u x (u x v) for float inputs"""
    ix, iy, iz, r = [F(x) for x in q]
    x, y, z = fr(v)
    tx, ty, tz = 2 * (iy * z - iz * y), 2 * (iz * x - ix * z), 2 * (ix * y - iy * x)
    return [x + r * tx + (iy * tz - iz * ty), y + r * ty + (iz * tx - ix * tz), z + r * tz + (ix * ty - iy * tx)]


def qn2(q):
    return float(sum(F(x) ** 2 for x in q))


def nrm(v):
    return math.sqrt(float(sum(F(x) ** 2 for x in v)))


def unit(v):
    n = nrm(v)
    return [x / n for x in v]


def gvec(rng, wide=False):
    sc = 10 ** (rng.uniform(-148, 148) if wide and rng.random() < 0.1 else rng.uniform(-3, 3))
    u = rng.random()
    if u < 0.1:
        v = [0.0, 0.0, 0.0]; v[rng.randrange(3)] = rng.choice([1.0, -1.0]) * sc
    elif u < 0.2:
        v = [rng.gauss(0, 1) * sc for _ in range(3)]; v[rng.randrange(3)] = 0.0
        if all(x == 0 for x in v): v[0] = sc
    elif u < 0.3:
        v = [float(rng.randint(-3, 3)) for _ in range(3)]
        if all(x == 0 for x in v): v[rng.randrange(3)] = 1.0
    else:
        v = [rng.gauss(0, 1) * sc for _ in range(3)]
    return v


def search_rot(ctx, fd, rebound):
    rng = ctx.rng
    R = rebound.Rotation

    def ql(q):
        return [q.ix, q.iy, q.iz, q.r]

    def app(q, v):
        w = q * v
        return [w.x, w.y, w.z]

    def vdiff(a, b):
        return max(abs(x - y) for x, y in zip(a, b))

    n = ctx.scale(6000, 60000)
    for k in range(n):
        ctx.evaluations += 1
        kind = k % 6
        desc = None
        if kind in (0, 1):
            a = gvec(rng, True)
            u = rng.random()
            if kind == 1 and u < 0.45:
                s = rng.choice([1.0, 2.0, 0.25, 3.0, 10 ** rng.uniform(-3, 3)])
                b = [-x * s for x in a]
            elif kind == 1 and u < 0.75:
                e = 10 ** rng.uniform(-18, -5) * nrm(a)
                b = [-x + rng.gauss(0, 1) * e for x in a]
                if all(x == 0 for x in b): b = [-x for x in a]
            elif kind == 1:
                e = 10 ** rng.uniform(-18, -5) * nrm(a)
                b = [x + rng.gauss(0, 1) * e for x in a]
            else:
                b = gvec(rng, True)
            if rng.random() < 0.5: a, b = b, a
            q = R.from_to(a, b)
            desc = {"constructor": "from_to", "from": a, "to": b}
            if not all(math.isfinite(x) for x in ql(q)):
                fd.fail("from_to:nan", dict(desc, q=ql(q)), "Rotation.from_to returns a non-finite quaternion for non-zero vectors")
                continue
            if abs(qn2(ql(q)) - 1.0) > 1e-14:
                fd.fail("from_to:not-unit", dict(desc, q=ql(q), norm_squared=qn2(ql(q))), "Rotation.from_to returns a non-unit quaternion")
                continue
            got = app(q, unit(a))
            err = vdiff(got, unit(b))
            if not (err <= 1e-13):
                anti = vdiff(unit(a), [-x for x in unit(b)]) <= 4e-16
                fd.fail("from_to:antiparallel-identity" if anti else "from_to:maps",
                        dict(desc, q=ql(q), rotated_from_hat=got, to_hat=unit(b), error=err),
                        "Rotation.from_to(from, to) does not map from/|from| to to/|to|")
                continue
        elif kind == 2:
            ang = rng.choice([rng.uniform(-10, 10), math.pi, 0.0, rng.gauss(0, 1e-6)])
            ax = gvec(rng, True)
            q = R(angle=ang, axis=ax)
            desc = {"constructor": "angle_axis", "angle": ang, "axis": ax}
            # the axis is fixed, a perpendicular vector turns by the angle
            ah = unit(ax)
            if vdiff(app(q, ah), ah) > 1e-14:
                fd.fail("angle_axis:axis", dict(desc, q=ql(q)), "Rotation(angle, axis) does not fix its axis")
            w = gvec(rng); d = sum(x * y for x, y in zip(w, ah)); p = [x - d * y for x, y in zip(w, ah)]
            if nrm(p) > 1e-3 * nrm(w):
                ph = unit(p); rp = app(q, ph)
                c = sum(x * y for x, y in zip(rp, ph))
                cr = [ph[1] * rp[2] - ph[2] * rp[1], ph[2] * rp[0] - ph[0] * rp[2], ph[0] * rp[1] - ph[1] * rp[0]]
                s = sum(x * y for x, y in zip(cr, ah))
                if abs(c - math.cos(ang)) > 1e-13 or abs(s - math.sin(ang)) > 1e-13:
                    fd.fail("angle_axis:angle", dict(desc, q=ql(q), cos=c, sin=s), "Rotation(angle, axis) turns by a different angle (counter-clockwise expected)")
        elif kind == 3:
            Om, inc, om = rng.uniform(-7, 7), rng.uniform(-4, 4), rng.uniform(-7, 7)
            q = R.orbit(Omega=Om, inc=inc, omega=om)
            desc = {"constructor": "orbit", "Omega": Om, "inc": inc, "omega": om}
            v = gvec(rng)

            def rz(t, v): return [math.cos(t) * v[0] - math.sin(t) * v[1], math.sin(t) * v[0] + math.cos(t) * v[1], v[2]]
            def rx(t, v): return [v[0], math.cos(t) * v[1] - math.sin(t) * v[2], math.sin(t) * v[1] + math.cos(t) * v[2]]
            expv = rz(Om, rx(inc, rz(om, v)))
            if vdiff(app(q, v), expv) > 1e-13 * nrm(v):
                fd.fail("orbit:matrix", dict(desc, q=ql(q), v=v, got=app(q, v), expected=expv), "Rotation.orbit is not Rz(Omega) Rx(inc) Rz(omega)")
            i0 = rng.uniform(0.01, math.pi - 0.01); O0 = rng.uniform(0, 2 * math.pi); o0 = rng.uniform(0, 2 * math.pi)
            q0 = R.orbit(Omega=O0, inc=i0, omega=o0)
            O1, i1, o1 = q0.orbital()
            q1 = R.orbit(Omega=O1, inc=i1, omega=o1)
            if abs(i1 - i0) > 1e-9 or vdiff(app(q1, v), app(q0, v)) > 1e-9 * nrm(v):
                fd.fail("orbit:angles-roundtrip", {"Omega": O0, "inc": i0, "omega": o0, "orbital()": [O1, i1, o1]},
                        "orbital() of Rotation.orbit(Omega, inc, omega) does not describe the same rotation")
        elif kind == 4:
            z = gvec(rng, True); x = gvec(rng)
            zh = unit(z); xn = [c / nrm(x) for c in x]
            d = sum(a * b for a, b in zip(xn, zh)); xp = [a - d * b for a, b in zip(xn, zh)]
            if nrm(xp) < 1e-3:
                continue
            q = R.to_new_axes(newz=z, newx=x)
            desc = {"constructor": "to_new_axes", "newz": z, "newx": x}
            # conditioning of the two-stage construction: the second stage is from_to(q1*newx_perp, x); its axis is determined only up to
            # eps/|q1*newx_perp_hat + x| (see the directed probe below for the degenerate end of this)
            x1 = app(R.from_to(z, [0.0, 0.0, 1.0]), unit(xp))
            d2 = max(nrm([x1[0] + 1.0, x1[1], x1[2]]), 1e-300)
            if d2 < 1e-6:
                continue
            tolz = 1e-13 / nrm(xp) / min(1.0, d2)
            if vdiff(app(q, zh), [0.0, 0.0, 1.0]) > tolz or vdiff(app(q, unit(xp)), [1.0, 0.0, 0.0]) > 10 * tolz:
                fd.fail("to_new_axes:maps", dict(desc, q=ql(q), z_image=app(q, zh), x_image=app(q, unit(xp))),
                        "Rotation.to_new_axes does not take newz to z and the perpendicular part of newx to x")
        else:
            raw = [rng.gauss(0, 1) * 10 ** rng.uniform(-3, 3) for _ in range(4)]
            q0 = R(ix=raw[0], iy=raw[1], iz=raw[2], r=raw[3])
            qi = q0.inverse()
            pr = ql(q0 * qi)
            pl = ql(qi * q0)
            if vdiff(pr, [0, 0, 0, 1]) > 1e-14 or vdiff(pl, [0, 0, 0, 1]) > 1e-14:
                fd.fail("inverse:law", {"q": raw, "q*q^-1": pr, "q^-1*q": pl}, "q * q.inverse() is not the identity")
            q = q0.normalize()
            desc = {"constructor": "normalize", "q": raw}
        # ---- laws every constructed rotation must satisfy
        qv = ql(q)
        if not all(math.isfinite(x) for x in qv):
            fd.fail("nan:" + desc["constructor"], dict(desc, q=qv), "constructed rotation has non-finite components for non-degenerate input")
            continue
        if abs(qn2(qv) - 1.0) > 1e-14:
            fd.fail("unit:" + desc["constructor"], dict(desc, q=qv, norm_squared=qn2(qv)), "constructed rotation is not a unit quaternion")
            continue
        a, b = gvec(rng), gvec(rng)
        ra, rb = app(q, a), app(q, b)
        na, nb = nrm(a), nrm(b)
        # the arithmetic of irotate against the exact formula
        ex = xrot(qv, a)
        if max(abs(F(x) - y) for x, y in zip(ra, ex)) > 32 * EPS * na:
            fd.fail("rotate:formula", dict(desc, q=qv, v=a, got=ra, exact=[float(x) for x in ex]), "q*v is not v + 2r(u x v) + 2u x (u x v)")
        if abs(nrm(ra) - na) > 1e-13 * na:
            fd.fail("rotate:norm", dict(desc, q=qv, v=a, rotated=ra), "rotation changes the length of a vector")
        d0 = float(sum(F(x) * F(y) for x, y in zip(a, b))); d1 = float(sum(F(x) * F(y) for x, y in zip(ra, rb)))
        if abs(d0 - d1) > 1e-13 * na * nb:
            fd.fail("rotate:dot", dict(desc, q=qv, a=a, b=b, dot=d0, dot_rotated=d1), "rotation changes a scalar product")
        cr = [a[1] * b[2] - a[2] * b[1], a[2] * b[0] - a[0] * b[2], a[0] * b[1] - a[1] * b[0]]
        c1 = [ra[1] * rb[2] - ra[2] * rb[1], ra[2] * rb[0] - ra[0] * rb[2], ra[0] * rb[1] - ra[1] * rb[0]]
        if vdiff(app(q, cr), c1) > 1e-13 * na * nb:
            fd.fail("rotate:cross", dict(desc, q=qv, a=a, b=b), "rotation does not commute with the vector product")
        # composition and inverse
        p = R.from_to(gvec(rng), gvec(rng))
        pq = p * q
        if vdiff(app(pq, a), app(p, ra)) > 1e-13 * na or abs(qn2(ql(pq)) - 1.0) > 1e-14:
            fd.fail("compose", dict(desc, q=qv, p=ql(p), v=a), "(p*q)*v differs from p*(q*v)")
        if vdiff(app(q.inverse(), ra), a) > 1e-13 * na:
            fd.fail("inverse:rotate", dict(desc, q=qv, v=a), "q.inverse()*(q*v) differs from v")
    # ---- directed probes of to_new_axes (orthonormal frame -> frame is a perfectly conditioned problem)
    for z, x in (([0.0, 0.0, -0.30497348956448517], [3.0290501012922735, 0.0, -194.77077542992063]),
                 ([0.0, 0.0, -1.0], [1.0, 0.0, 0.0]), ([0.0, 0.0, 2.0], [1.0, 0.0, 1.0]), ([0.0, 0.0, 1.0], [-1.0, 0.0, 0.0]),
                 ([0.0, 0.0, 1.0], [-1.0, 1e-15, 0.0]), ([1.0, 0.0, 0.0], [0.0, 0.0, -1.0]), ([1.0, 2.0, 2.0], [2.0, -2.0, 1.0])):
        ctx.evaluations += 1
        q = R.to_new_axes(newz=z, newx=x)
        zh = unit(z); d = sum(a * b for a, b in zip(x, zh)); xp = unit([a - d * b for a, b in zip(x, zh)])
        ez, ex = vdiff(app(q, zh), [0.0, 0.0, 1.0]), vdiff(app(q, xp), [1.0, 0.0, 0.0])
        if not (ez <= 1e-9 and ex <= 1e-9):
            fd.fail("to_new_axes:unstable-antiparallel-x", {"newz": z, "newx": x, "q": ql(q), "z_image": app(q, zh), "x_image": app(q, xp)},
                    "Rotation.to_new_axes does not take newz to z / newx to x (second stage nearly antiparallel to x)")
    # ---- rotating a simulation: relative geometry, energy, |L|
    for k in range(ctx.scale(60, 1000)):
        ctx.evaluations += 1
        sim = rebound.Simulation()
        nb = rng.randint(2, 5)
        for i in range(nb):
            sim.add(m=rng.uniform(0.01, 2), x=rng.gauss(0, 1), y=rng.gauss(0, 1), z=rng.gauss(0, 1), vx=rng.gauss(0, 1), vy=rng.gauss(0, 1), vz=rng.gauss(0, 1))
        a = gvec(rng); b = [-x for x in a] if rng.random() < 0.3 else gvec(rng)
        q = R.from_to(a, b)
        ps = [(p.m, [p.x, p.y, p.z], [p.vx, p.vy, p.vz]) for p in sim.particles]
        kin = sum(0.5 * m * sum(c * c for c in v) for m, _, v in ps)
        pot = sum(ps[i][0] * ps[j][0] / nrm([x - y for x, y in zip(ps[i][1], ps[j][1])]) for i in range(nb) for j in range(i))
        lsc = sum(m * nrm(x) * nrm(v) for m, x, v in ps)
        E0 = sim.energy(); L0 = sim.angular_momentum()
        sim.rotate(q)
        E1 = sim.energy(); L1 = sim.angular_momentum()
        ps1 = [(p.m, [p.x, p.y, p.z], [p.vx, p.vy, p.vz]) for p in sim.particles]
        dist_bad = any(abs(nrm([x - y for x, y in zip(ps1[i][1], ps1[j][1])]) - nrm([x - y for x, y in zip(ps[i][1], ps[j][1])])) > 1e-13 * (nrm(ps[i][1]) + nrm(ps[j][1]))
                       for i in range(nb) for j in range(i))
        if abs(E1 - E0) > 1e-13 * (kin + pot * _cond(ps)) or abs(nrm(list(L1)) - nrm(list(L0))) > 1e-13 * lsc or dist_bad:
            fd.fail("simulation:rotate", {"q": ql(q), "particles": ps, "E": [E0, E1], "L": [list(L0), list(L1)], "distances_changed": dist_bad},
                    "rotating a simulation changes its energy, |L| or the mutual distances")


def _cond(ps):
    """conditioning of the potential energy w.r.t. relative position errors: max over pairs of (typical |x|) / separation"""
    c = 1.0
    for i in range(len(ps)):
        for j in range(i):
            d = nrm([x - y for x, y in zip(ps[i][1], ps[j][1])])
            c = max(c, (nrm(ps[i][1]) + nrm(ps[j][1])) / d)
    return c


# ----------------------------------------------------------------------------- frames
def bmul(a, b):
    return (a[0] * b[0], a[0] * b[1] + a[1] * b[0], a[0] * b[2] + a[2] * b[0], a[0] * b[3] + a[3] * b[0] + a[1] * b[2] + a[2] * b[1])


def binv(a):
    i = 1 / a[0]
    return (i, -a[1] * i * i, -a[2] * i * i, -a[3] * i * i + 2 * a[1] * a[2] * i ** 3)


def badd(a, b):
    return tuple(x + y for x, y in zip(a, b))


COMPS = ["x", "y", "z", "vx", "vy", "vz"]

SHAPES = ["generic", "generic", "generic", "centred_pairs", "single_origin", "single_generic", "star_massless", "star_origin", "already_com", "already_hel"]
VARKINDS = ["generic", "generic", "zero", "mass_only", "coord_only", "one_coordinate"]


def real_shape(rng, shape):
    """list of (m, x, y, z, vx, vy, vz) for the real particles; the degenerate shapes are the edges of the frame operations:
    centre of mass exactly (or to the last bit) zero, a single particle, only massless companions, particle 0 already at rest at the origin"""
    sc = 10 ** rng.uniform(-2, 2)
    g = lambda s=1.0: rng.gauss(0, 1) * s
    if shape == "centred_pairs":
        out = []
        if rng.random() < 0.4:
            out.append((rng.uniform(0.1, 3), 0.0, 0.0, 0.0, 0.0, 0.0, 0.0))
        for _ in range(rng.randint(1, 2)):
            m = rng.uniform(0.1, 3); r = [g(sc), g(sc), g(sc), g(), g(), g()]
            out.append((m,) + tuple(r)); out.append((m,) + tuple(-x for x in r))
        return out
    if shape == "single_origin":
        return [(rng.uniform(0.1, 3), 0.0, 0.0, 0.0, 0.0, 0.0, 0.0)]
    if shape == "single_generic":
        return [(rng.uniform(0.1, 3), g(sc), g(sc), g(sc), g(), g(), g())]
    if shape == "star_massless":
        return [(rng.uniform(0.1, 3), 0.0, 0.0, 0.0, 0.0, 0.0, 0.0)] + [(0.0, g(sc), g(sc), g(sc), g(), g(), g()) for _ in range(rng.randint(1, 3))]
    if shape == "star_origin":
        return [(rng.uniform(0.1, 3), 0.0, 0.0, 0.0, 0.0, 0.0, 0.0)] + [(10 ** rng.uniform(-6, 0), g(sc), g(sc), g(sc), g(), g(), g()) for _ in range(rng.randint(1, 3))]
    n = rng.randint(1, 6)
    off = [g(sc * 10) for _ in range(6)] if rng.random() < 0.5 else [0.0] * 6
    out = []
    for i in range(n):
        u = rng.random()
        m = rng.uniform(0.1, 10) if i == 0 else (0.0 if u < 0.15 else (10 ** rng.uniform(-10, -1) if u < 0.5 else rng.uniform(1e-3, 2)))
        out.append((m, off[0] + g(sc), off[1] + g(sc), off[2] + g(sc), off[3] + g(), off[4] + g(), off[5] + g()))
    return out


def build_real(rebound, rng, shape):
    sim = rebound.Simulation()
    for (m, x, y, z, vx, vy, vz) in real_shape(rng, shape):
        sim.add(m=m, x=x, y=y, z=z, vx=vx, vy=vy, vz=vz)
    if shape == "already_com":
        sim.move_to_com()
    if shape == "already_hel":
        sim.move_to_hel()
    return sim


def fill_variations(rng, sim, kind, n_real, mscale=0.1):
    """values of all variational particles: generic, all zero, a variation of the masses only, of the coordinates only, of one coordinate of one body"""
    for i in range(n_real, sim.N):
        p = sim.particles[i]
        p.m = 0.0
        for c in COMPS:
            setattr(p, c, 0.0)
        if kind == "generic":
            p.m = 0.0 if rng.random() < 0.3 else rng.gauss(0, mscale)
            for c in COMPS:
                setattr(p, c, rng.gauss(0, 1))
        elif kind == "mass_only":
            p.m = rng.choice([-1, 1]) * rng.uniform(0.01, 0.3)
        elif kind == "coord_only":
            for c in COMPS:
                setattr(p, c, rng.gauss(0, 1))
        elif kind == "one_coordinate" and (i - n_real) % n_real == 0:
            setattr(p, rng.choice(COMPS), 1.0)


def search_frames(ctx, fd, rebound):
    rng = ctx.rng

    def snap(sim):
        return [[getattr(sim.particles[i], c) for c in ["m"] + COMPS] for i in range(sim.N)]

    for k in range(ctx.scale(600, 6000)):
        ctx.evaluations += 1
        shape = SHAPES[k % len(SHAPES)] if k % 2 == 0 else "generic"
        sim = build_real(rebound, rng, shape)
        n = sim.N
        mode = k % 3
        v1 = v1b = v2 = vt = None
        directed = mode != 2 and k < 60     # two first-order sets, both with mass variations of every particle, + their mixed second-order set
        vkind = "generic"
        if directed or rng.random() < 0.7:
            v1 = sim.add_variation()
            if directed or rng.random() < 0.6:
                v1b = sim.add_variation() if (directed or rng.random() < 0.5) else v1
                v2 = sim.add_variation(order=2, first_order=v1, first_order_2=v1b)
            if rng.random() < 0.3:
                vt = sim.add_variation(testparticle=rng.randrange(n))
            vkind = "generic" if directed else rng.choice(VARKINDS)
            fill_variations(rng, sim, vkind, n)
            if directed:
                for i in range(n, sim.N):
                    sim.particles[i].m = rng.choice([-1, 1]) * rng.uniform(0.01, 0.3)
        b = snap(sim)
        ms = [F(b[i][0]) for i in range(n)]
        Mt = sum(ms)
        rep = {"N_real": n, "shape": shape, "variation_kind": vkind, "particles_before": b,
               "variations": [(v.order, v.index, v.testparticle) for v in (v1, v1b, v2, vt) if v is not None]}
        if mode in (0, 1):
            sim.move_to_com()
            a = snap(sim)
            for ci, c in enumerate(COMPS):
                qb = [b[i][1 + ci] for i in range(n)]; qa = [a[i][1 + ci] for i in range(n)]
                big = max(abs(x) for x in qb)
                com_after = sum(ms[i] * F(qa[i]) for i in range(n)) / Mt
                if abs(com_after) > 8 * (n + 4) * EPS * big:
                    fd.fail("move_to_com:com-" + ("pos" if ci < 3 else "vel"), dict(rep, component=c, com_after=float(com_after), particles_after=a),
                            "after move_to_com the centre of mass is not at rest at the origin (%s)" % c)
                if any(abs((F(qa[i]) - F(qa[j])) - (F(qb[i]) - F(qb[j]))) > 8 * EPS * big for i in range(n) for j in range(i)):
                    fd.fail("move_to_com:relative-" + ("pos" if ci < 3 else "vel"), dict(rep, component=c, particles_after=a),
                            "move_to_com changed relative coordinates (%s)" % c)
                # variational particles: the variation of the shifted system is the shifted variation
                if v1 is not None:
                    def poly(i):
                        m = (F(b[i][0]), F(b[v1.index + i][0]), F(b[v1b.index + i][0]) if v2 is not None else F(0), F(b[v2.index + i][0]) if v2 is not None else F(0))
                        q = (F(b[i][1 + ci]), F(b[v1.index + i][1 + ci]), F(b[v1b.index + i][1 + ci]) if v2 is not None else F(0),
                             F(b[v2.index + i][1 + ci]) if v2 is not None else F(0))
                        return m, q
                    num = (F(0),) * 4; den = (F(0),) * 4
                    for i in range(n):
                        m, q = poly(i)
                        num = badd(num, bmul(m, q)); den = badd(den, m)
                    com = bmul(num, binv(den))
                    mag = sum(abs(F(b[i][0])) for i in range(n)) / abs(Mt)
                    vm = max(abs(b[j][0]) for j in range(n, sim.N)) / float(abs(Mt))
                    tol = 64 * (n + 2) * EPS * float(mag) * (1 + big) * (1 + vm) ** 2 * 4
                    sets = [(v1, 1, "1st")] + ([(v2, 3, "2nd")] if v2 is not None else []) + ([(v1b, 2, "1st")] if v2 is not None and v1b.index != v1.index else [])
                    for v, slot, nm in sets:
                        for i in range(n):
                            want = F(b[v.index + i][1 + ci]) - com[slot]
                            got = a[v.index + i][1 + ci]
                            if abs(F(got) - want) > tol:
                                fd.fail("move_to_com:variation-%s-order" % nm,
                                        dict(rep, component=c, set_index=v.index, particle=i, got=got, expected=float(want), particles_after=a),
                                        "move_to_com: %s-order variational particles are not shifted by the corresponding variation of the centre of mass" % nm)
                if vt is not None and any(a[vt.index][j] != b[vt.index][j] for j in range(7)):
                    fd.fail("move_to_com:testparticle-variation", dict(rep, particles_after=a), "move_to_com changed a test-particle variation")
            # idempotence: a second call finds the system (and its variations) already centred
            scale_all = max([abs(x) for p_ in b for x in p_[1:]] + [1.0])
            vmx = (max([abs(b[j][0]) for j in range(n, sim.N)] + [0.0])) / float(abs(Mt))
            tol2 = 512 * (n + 2) * EPS * scale_all * (1 + vmx) ** 2 * float(sum(abs(x) for x in ms) / abs(Mt))
            sim.move_to_com()
            a2 = snap(sim)
            if any(abs(x - y) > tol2 for pa, pb in zip(a2, a) for x, y in zip(pa[1:], pb[1:])):
                fd.fail("move_to_com:idempotent", dict(rep, after_first=a, after_second=a2), "a second move_to_com moves particles (real or variational) beyond rounding")
            # variations added AFTER a first move_to_com and then move_to_com again: same result (the variation of the COM does not depend on the frame)
            if v1 is not None:
                sb = rebound.Simulation()
                for i in range(n):
                    sb.add(m=b[i][0], x=b[i][1], y=b[i][2], z=b[i][3], vx=b[i][4], vy=b[i][5], vz=b[i][6])
                sb.move_to_com()
                w1 = sb.add_variation()
                w1b = w1
                if v2 is not None:
                    w1b = sb.add_variation() if v1b.index != v1.index else w1
                    sb.add_variation(order=2, first_order=w1, first_order_2=w1b)
                if vt is not None:
                    sb.add_variation(testparticle=vt.testparticle)
                if sb.N == len(b):
                    for i in range(n, sb.N):
                        pp = sb.particles[i]
                        pp.m = b[i][0]
                        for ci, c in enumerate(COMPS):
                            setattr(pp, c, b[i][1 + ci])
                    sb.move_to_com()
                    ab = snap(sb)
                    if any(abs(x - y) > tol2 for pa, pb in zip(ab, a) for x, y in zip(pa[1:], pb[1:])):
                        fd.fail("move_to_com:variations-before-vs-after", dict(rep, variations_first=a, frame_first=ab),
                                "adding the variations before or after a first move_to_com gives different particles after move_to_com")
        else:
            sim.move_to_hel()
            a = snap(sim)
            for ci, c in enumerate(COMPS):
                qb = [b[i][1 + ci] for i in range(n)]; qa = [a[i][1 + ci] for i in range(n)]
                big = max(abs(x) for x in qb)
                if qa[0] != 0.0 or any(abs((F(qa[i]) - F(qa[j])) - (F(qb[i]) - F(qb[j]))) > 8 * EPS * big for i in range(n) for j in range(i)):
                    fd.fail("move_to_hel:" + ("pos" if ci < 3 else "vel"), dict(rep, component=c, particles_after=a),
                            "move_to_hel: particle 0 is not at rest at the origin or relative coordinates changed (%s)" % c)
            # documented (docs/simulationreferenceframes.md): 'Variational equations are not affected by this operation'
            if any(a[i][j] != b[i][j] for i in range(n, sim.N) for j in range(7)):
                fd.fail("move_to_hel:variational", dict(rep, particles_after=a),
                        "move_to_hel changed a variational particle (documented: all particles are moved by the same amount, variational equations are not affected)")
            sim.move_to_hel()
            if snap(sim) != a:
                fd.fail("move_to_hel:idempotent", dict(rep, after_first=a, after_second=snap(sim)), "a second move_to_hel changes particles")
        if any(a[i][0] != b[i][0] for i in range(sim.N)):
            fd.fail("frames:mass", dict(rep, particles_after=a), "a frame shift changed a mass")
    # ---- scaling, adding, subtracting simulations (python operators)
    for k in range(ctx.scale(60, 1000)):
        ctx.evaluations += 1
        def mk():
            s = rebound.Simulation()
            for i in range(n):
                s.add(m=rng.uniform(0, 1), x=rng.gauss(0, 1), y=rng.gauss(0, 1), z=rng.gauss(0, 1), vx=rng.gauss(0, 1), vy=rng.gauss(0, 1), vz=rng.gauss(0, 1))
            if nv:
                s.add_variation()
                for i in range(n, s.N):
                    for c in COMPS:
                        setattr(s.particles[i], c, rng.gauss(0, 1))
            return s
        n = rng.randint(1, 5); nv = rng.random() < 0.4
        A, B = mk(), mk()
        a0, b0 = snap(A), snap(B)
        sp, sv = rng.gauss(0, 2), rng.gauss(0, 2)
        C = A.copy(); C.multiply(sp, sv)
        c1 = snap(C)
        bad = any(c1[i][1 + j] != a0[i][1 + j] * (sp if j < 3 else sv) for i in range(A.N) for j in range(6))
        D = A.copy(); D *= sp
        bad = bad or any(snap(D)[i][1 + j] != a0[i][1 + j] * sp for i in range(A.N) for j in range(6))
        if bad:
            fd.fail("imul", {"A": a0, "scalar_pos": sp, "scalar_vel": sv, "result": c1}, "multiply / *= is not the componentwise scaling of positions and velocities")
        S = A.copy(); S += B
        s1 = snap(S)
        Dm = A.copy(); Dm -= B
        d1 = snap(Dm)
        if any(s1[i][1 + j] != a0[i][1 + j] + b0[i][1 + j] for i in range(A.N) for j in range(6)):
            fd.fail("iadd", {"A": a0, "B": b0, "result": s1}, "+= is not the componentwise sum of positions and velocities")
        if any(d1[i][1 + j] != a0[i][1 + j] - b0[i][1 + j] for i in range(A.N) for j in range(6)):
            fd.fail("isub", {"A": a0, "B": b0, "result": d1}, "-= is not the componentwise difference of positions and velocities")
        S -= B
        s2 = snap(S)
        if any(abs(s2[i][1 + j] - a0[i][1 + j]) > 2 * EPS * (abs(a0[i][1 + j]) + abs(b0[i][1 + j])) for i in range(A.N) for j in range(6)):
            fd.fail("iadd-isub", {"A": a0, "B": b0, "result": s2}, "(A += B) -= B does not return A to rounding error")
        if any(s1[i][0] != a0[i][0] for i in range(A.N)):
            fd.fail("iadd:mass", {"A": a0, "B": b0, "result": s1}, "+= changed a mass")


def search_whole_sim_var(ctx, fd, rebound):
    """whole-simulation rotation of simulations WITH variational particles (first order, second order, MEGNO): reb_simulation_irotate is a
    linear map, so it must act on every variational particle exactly as on a real one; rotate + counter-rotate is the identity; rotating
    commutes with integrating (real and variational particles, MEGNO)."""
    rng = ctx.rng
    R = rebound.Rotation
    C6 = ["x", "y", "z", "vx", "vy", "vz"]

    def snap(sim):
        return [[getattr(sim.particles[i], c) for c in C6] for i in range(sim.N)]

    def build(kind, integ, seed):
        r2 = __import__("random").Random(seed)
        sim = rebound.Simulation()
        sim.integrator = integ
        sim.dt = 0.01
        sim.add(m=1.0, vx=r2.gauss(0, 0.01), vy=r2.gauss(0, 0.01))
        npl = r2.randint(1, 3) if (kind == "megno" or r2.random() < 0.85) else 0     # 0: a single particle (N_real = 1)
        for i in range(npl):
            sim.add(m=10 ** r2.uniform(-6, -3), a=1.0 + 0.7 * i + r2.uniform(0, 0.2), e=r2.uniform(0, 0.2), inc=r2.uniform(0, 0.5),
                    Omega=r2.uniform(0, 6), omega=r2.uniform(0, 6), f=r2.uniform(0, 6))
        sets = []
        if kind == "megno":
            sim.init_megno(seed=r2.randint(1, 10 ** 6))
            sets.append("megno")
        else:
            nset = r2.randint(1, 3)
            firsts = []
            for _ in range(nset):
                if kind == "second" and firsts and r2.random() < 0.6:
                    a = r2.choice(firsts); b = r2.choice(firsts)
                    sim.add_variation(order=2, first_order=a, first_order_2=b); sets.append("2nd")
                else:
                    firsts.append(sim.add_variation(order=1)); sets.append("1st")
            n = sim.N - sim.N_var
            vk = r2.choice(VARKINDS)
            sets.append("variation values: " + vk)
            fill_variations(r2, sim, vk, n, mscale=1e-4)
        return sim, sets

    for k in range(ctx.scale(45, 600)):
        ctx.evaluations += 1
        kind = ["first", "second", "megno"][k % 3]
        integ = "ias15" if kind == "second" else rng.choice(["ias15", "whfast", "leapfrog"])
        seed = rng.randrange(10 ** 9)
        a = gvec(rng); b = [-x for x in a] if rng.random() < 0.15 else gvec(rng)
        u = rng.random()
        q = R.from_to(a, b) if u < 0.55 else (R(angle=rng.uniform(-6, 6), axis=gvec(rng)) if u < 0.9 else R())     # R(): identity, already in the target frame
        qv = [q.ix, q.iy, q.iz, q.r]
        sim, sets = build(kind, integ, seed)
        n_real = sim.N - sim.N_var
        rep = {"how": "star + planets built from random.Random(seed) as in tools/c20_search.py build()", "seed": seed, "kind": kind, "integrator": integ,
               "variation_sets": sets, "N": sim.N, "N_var": sim.N_var, "q": qv}
        before = snap(sim)
        sim.rotate(q)
        after = snap(sim)
        bad = None
        for i in range(sim.N):
            for o in (0, 3):
                ex = xrot(qv, before[i][o:o + 3])
                got = after[i][o:o + 3]
                if max(abs(F(g) - e) for g, e in zip(got, ex)) > 64 * EPS * max(nrm(before[i][o:o + 3]), 1e-300):
                    bad = bad or {"particle": i, "variational": i >= n_real, "what": "pos" if o == 0 else "vel", "before": before[i][o:o + 3],
                                  "after": got, "expected": [float(x) for x in ex]}
        if bad:
            fd.fail("simulation:rotate-variational" if bad["variational"] else "simulation:rotate-real", dict(rep, first_wrong=bad),
                    "sim.rotate(q) does not rotate %s particle %d like a vector (a linear map acts on variations as on coordinates)"
                    % ("variational" if bad["variational"] else "real", bad["particle"]))
            continue
        # the operation applied to its own result: every particle is the exact rotation of its first image
        sim.rotate(q)
        twice = snap(sim)
        for i in range(sim.N):
            for o in (0, 3):
                ex = xrot(qv, after[i][o:o + 3])
                if max(abs(F(g) - e) for g, e in zip(twice[i][o:o + 3], ex)) > 64 * EPS * max(nrm(after[i][o:o + 3]), 1e-300):
                    fd.fail("simulation:rotate-twice", dict(rep, particle=i, variational=i >= n_real), "a second sim.rotate(q) does not rotate every particle of the rotated simulation")
        sim.rotate(q.inverse())
        # R * sim (copy) gives the same particles as sim.rotate
        sim0, _ = build(kind, integ, seed)
        cp = q * sim0
        if any(abs(x - y) > 0 for pa, pb in zip(snap(cp), after) for x, y in zip(pa, pb)):
            fd.fail("simulation:rotate-copy", rep, "Rotation * sim differs from sim.rotate(Rotation)")
        # rotate and counter-rotate
        sim.rotate(q.inverse())
        back = snap(sim)
        if any(abs(x - y) > 256 * EPS * max(nrm(pb[0:3]) if j < 3 else nrm(pb[3:6]), 1e-300)
               for pa, pb in zip(back, before) for j, (x, y) in enumerate(zip(pa, pb))):
            fd.fail("simulation:rotate-inverse", rep, "rotating a simulation and then counter-rotating it is not the identity (all particles)")
        # integrate(R*sim) == R*integrate(sim), real and variational particles (and MEGNO)
        if k % 3 != 2 or True:
            T = 2.0
            s1, _ = build(kind, integ, seed); s1.integrate(T); s1.rotate(q)
            s2, _ = build(kind, integ, seed); s2.rotate(q); s2.integrate(T)
            p1, p2 = snap(s1), snap(s2)
            worst = None
            for i in range(s1.N):
                for o in (0, 3):
                    sc = max(nrm(p1[i][o:o + 3]), 1e-300)
                    d = max(abs(x - y) for x, y in zip(p1[i][o:o + 3], p2[i][o:o + 3])) / sc
                    if d > 1e-7 and (worst is None or d > worst[0]):
                        worst = (d, i, i >= n_real)
            mg = None
            if kind == "megno":
                m1, m2 = s1.megno(), s2.megno()
                if abs(m1 - m2) > 1e-6 * max(1.0, abs(m1)):
                    mg = (m1, m2)
            if worst or mg:
                fd.fail("simulation:rotate-integrate" + ("-variational" if (worst and worst[2]) or mg else ""),
                        dict(rep, T=T, worst_relative_difference=worst, megno=mg),
                        "integrating a rotated simulation differs from rotating the integrated simulation (%s)"
                        % ("variational particles / MEGNO" if (worst and worst[2]) or mg else "real particles"))


def search_reuse(ctx, fd, rebound):
    """object-level laws of the Python layer: every operation is applied to REUSED operands; no operation may change the bytes of an operand or
    return an object sharing storage with one; results are stored and compared later with values computed from float tuples taken at creation."""
    import ctypes
    rng = ctx.rng
    R, V = rebound.Rotation, rebound.Vec3d

    def vt(v): return (float(v[0]), float(v[1]), float(v[2]))
    def qt(q): return (q.ix, q.iy, q.iz, q.r)
    def pt(p): return tuple(getattr(p, c) for c in ("m", "x", "y", "z", "vx", "vy", "vz"))
    def st(sim): return tuple(pt(sim.particles[i]) for i in range(sim.N))
    def snap(o):
        if isinstance(o, V): return ("V", bytes(o._vec3d), vt(o))
        if isinstance(o, R): return ("R", bytes(o), qt(o))
        if isinstance(o, rebound.Particle): return ("P", pt(o))
        if isinstance(o, rebound.Simulation): return ("S", st(o), o.t, o.G)
        return ("x", repr(o))
    def addr(o):
        if isinstance(o, V): return ctypes.addressof(o._vec3d)
        if isinstance(o, (R, rebound.Particle, rebound.Simulation)): return ctypes.addressof(o)
        return None
    def close(a, b, tol): return all(abs(x - y) <= tol for x, y in zip(a, b))
    def exrot(q, v): return tuple(float(x) for x in xrot(q, v))
    def qmul(p, q):
        pix, piy, piz, pr = p; qix, qiy, qiz, qr = q
        return (pr * qix + pix * qr + piy * qiz - piz * qiy, pr * qiy - pix * qiz + piy * qr + piz * qix,
                pr * qiz + pix * qiy - piy * qix + piz * qr, pr * qr - pix * qix - piy * qiy - piz * qiz)

    def apply(name, fn, operands, expect, tol, rep):
        """run fn twice on the same operand objects; operands must be byte-identical afterwards; the result must be a fresh object equal to expect"""
        before = [snap(o) for o in operands]
        res = []
        for rnd in (1, 2):
            ctx.evaluations += 1
            try:
                r = fn()
            except Exception as e:
                fd.fail("reuse:exception:" + name, dict(rep, operation=name, error=repr(e)), "%s raised %r" % (name, e))
                return None
            after = [snap(o) for o in operands]
            if after != before:
                k = [i for i in range(len(before)) if after[i] != before[i]][0]
                fd.fail("reuse:operand-modified:" + name, dict(rep, operation=name, evaluation=rnd, operand=k, before=before[k][-1], after=after[k][-1]),
                        "%s changed its operand number %d (evaluation %d)" % (name, k, rnd))
                return None
            if any(addr(r) is not None and addr(r) == addr(o) for o in operands):
                fd.fail("reuse:alias:" + name, dict(rep, operation=name), "%s returned an object that shares storage with an operand" % name)
                return None
            got = snap(r)[-1] if not isinstance(r, rebound.Simulation) else st(r)
            flat_g = [x for y in got for x in (y if isinstance(y, tuple) else (y,))]
            flat_e = [x for y in expect for x in (y if isinstance(y, tuple) else (y,))]
            if len(flat_g) != len(flat_e) or not close(flat_g, flat_e, tol):
                fd.fail("reuse:value:" + name, dict(rep, operation=name, evaluation=rnd, got=got, expected=expect),
                        "%s: evaluation %d on reused operands gives a value different from the one computed from independent copies" % (name, rnd))
                return None
            res.append(r)
        return res[0]

    for k in range(ctx.scale(60, 800)):
        v0 = tuple(gvec(rng)); w0 = tuple(gvec(rng))
        sc = max(nrm(v0), nrm(w0))
        q1 = R.from_to(gvec(rng), gvec(rng)); q2 = R(angle=rng.uniform(-6, 6), axis=gvec(rng))
        q1t, q2t = qt(q1), qt(q2)
        v = V(list(v0)); w = V(list(w0))
        rep = {"v": v0, "w": w0, "q1": q1t, "q2": q2t}
        tol = 64 * EPS * sc
        # Rotation * Vec3d / list, stored intermediates used again
        a = apply("Rotation*Vec3d", lambda: q1 * v, [q1, v], exrot(q1t, v0), tol, rep)
        if a is None: continue
        a0 = vt(a)
        b = apply("Rotation*(Rotation*Vec3d)", lambda: q2 * a, [q2, a], exrot(q2t, a0), tol, rep)
        if b is None: continue
        apply("Rotation*list", lambda: q1 * list(v0), [q1], exrot(q1t, v0), tol, rep)
        c = apply("inverse()*stored", lambda: q1.inverse() * a, [q1, a], v0, tol * 4, rep)
        apply("(q2*q1)*Vec3d", lambda: (q2 * q1) * v, [q1, q2, v], vt(b), tol * 4, rep)
        if vt(a) != a0 or vt(v) != v0:
            fd.fail("reuse:stored-result-changed", dict(rep, stored=a0, now=vt(a)), "a stored result of Rotation*Vec3d changed when it was used in later operations")
            continue
        # Rotation*Rotation, inverse, normalize
        apply("Rotation*Rotation", lambda: q2 * q1, [q1, q2], qmul(q2t, q1t), 1e-15 * 8, rep)
        apply("Rotation.inverse", lambda: q1.inverse(), [q1], (-q1t[0], -q1t[1], -q1t[2], q1t[3]), 1e-15 * 8, rep)
        apply("Rotation.normalize", lambda: q1.normalize(), [q1], q1t, 1e-15 * 8, rep)
        # Vec3d arithmetic
        apply("Vec3d+Vec3d", lambda: v + w, [v, w], tuple(x + y for x, y in zip(v0, w0)), 0.0, rep)
        apply("Vec3d-Vec3d", lambda: v - w, [v, w], tuple(x - y for x, y in zip(v0, w0)), 0.0, rep)
        apply("Vec3d+self", lambda: v + v, [v], tuple(x + x for x in v0), 0.0, rep)
        apply("Vec3d*scalar", lambda: v * 2.5, [v], tuple(x * 2.5 for x in v0), 0.0, rep)
        apply("Vec3d/scalar", lambda: v / 4.0, [v], tuple(x / 4.0 for x in v0), 0.0, rep)
        apply("Vec3d(Vec3d)", lambda: V(v), [v], v0, 0.0, rep)
        # in-place methods on a copy: the original and the rotation are untouched, the copy is returned (self) with the rotated / unit vector
        for nm, fn, exp, tl in (("Vec3d.rotate", lambda c: c.rotate(q1), exrot(q1t, v0), tol), ("Vec3d.normalize", lambda c: c.normalize(), tuple(unit(list(v0))), 8 * EPS)):
            ctx.evaluations += 1
            cpy = V(v); b4 = [snap(v), snap(q1)]
            try:
                r = fn(cpy)
            except Exception as e:
                fd.fail("vec3d:methods-broken", dict(rep, method=nm, error=repr(e)), "%s raises %r" % (nm, e)); continue
            if [snap(v), snap(q1)] != b4:
                fd.fail("reuse:operand-modified:" + nm, dict(rep, method=nm), "%s on a copy changed the original vector or the rotation" % nm)
            elif r is not cpy or not close(vt(cpy), exp, tl):
                fd.fail("reuse:value:" + nm, dict(rep, method=nm, got=vt(cpy), expected=exp, returns_self=r is cpy), "%s does not leave the documented vector in place / return self" % nm)
        # rotate twice on the same object = rotation by q1*q1; rotate then inverse-rotate = identity
        cpy = V(v)
        try:
            cpy.rotate(q1); cpy.rotate(q1.inverse())
            if not close(vt(cpy), v0, tol * 4):
                fd.fail("reuse:value:Vec3d.rotate", dict(rep, got=vt(cpy), expected=v0), "v.rotate(q); v.rotate(q.inverse()) does not restore v")
        except Exception as e:
            fd.fail("vec3d:methods-broken", dict(rep, method="Vec3d.rotate", error=repr(e)), "Vec3d.rotate raises %r" % (e,))
        # Particle / Simulation
        if k % 4 == 0:
            sim = rebound.Simulation()
            for i in range(3):
                sim.add(m=rng.uniform(0.1, 1), x=rng.gauss(0, 1), y=rng.gauss(0, 1), z=rng.gauss(0, 1), vx=rng.gauss(0, 1), vy=rng.gauss(0, 1), vz=rng.gauss(0, 1))
            sim2 = sim.copy()
            for i in range(3):
                sim2.particles[i].x += 1.0 + i
            s0, s20 = st(sim), st(sim2)
            L0 = vt(V(sim.angular_momentum()))
            rot_s = tuple((p[0],) + exrot(q1t, p[1:4]) + exrot(q1t, p[4:7]) for p in s0)
            apply("Rotation*Simulation", lambda: q1 * sim, [q1, sim], rot_s, 64 * EPS * 8, rep)
            p0 = sim.particles[1]
            apply("Rotation*Particle", lambda: q1 * p0, [q1, p0, sim], rot_s[1], 64 * EPS * 8, rep)
            Lv = V(sim.angular_momentum())
            apply("Rotation*angular_momentum", lambda: q1 * Lv, [q1, Lv, sim], exrot(q1t, L0), 64 * EPS * max(nrm(L0), 1e-300), rep)
            apply("Simulation+Simulation", lambda: sim + sim2, [sim, sim2], tuple((a[0],) + tuple(x + y for x, y in zip(a[1:], b[1:])) for a, b in zip(s0, s20)), 0.0, rep)
            apply("Simulation-Simulation", lambda: sim - sim2, [sim, sim2], tuple((a[0],) + tuple(x - y for x, y in zip(a[1:], b[1:])) for a, b in zip(s0, s20)), 0.0, rep)
            apply("Simulation*scalar", lambda: sim * 3.0, [sim], tuple((a[0],) + tuple(x * 3.0 for x in a[1:]) for a in s0), 0.0, rep)
            apply("scalar*Simulation", lambda: 3.0 * sim, [sim], tuple((a[0],) + tuple(x * 3.0 for x in a[1:]) for a in s0), 0.0, rep)
            apply("Simulation/scalar", lambda: sim / 4.0, [sim], tuple((a[0],) + tuple(x * 0.25 for x in a[1:]) for a in s0), 0.0, rep)
            apply("Simulation.copy", lambda: sim.copy(), [sim], s0, 0.0, rep)
            apply("Particle.copy", lambda: p0.copy(), [p0, sim], s0[1], 0.0, rep)
    # in-place Vec3d methods of the Python layer
    v = V([1.0, 2.0, 2.0]); q = R(angle=0.3, axis=[0.0, 0.0, 1.0])
    for name, fn, exp in (("Vec3d.rotate", lambda: v.rotate(q), exrot(qt(q), (1.0, 2.0, 2.0))), ("Vec3d.normalize", lambda: V([1.0, 2.0, 2.0]).normalize(), (1 / 3, 2 / 3, 2 / 3))):
        ctx.evaluations += 1
        try:
            r = fn()
            if not close(vt(r), exp, 1e-15):
                fd.fail("vec3d:methods-broken", {"method": name, "result": vt(r), "expected": exp}, "%s gives a wrong vector" % name)
        except Exception as e:
            fd.fail("vec3d:methods-broken", {"method": name, "call": "rebound.Vec3d([1,2,2])." + name.split(".")[1] + "(...)", "error": repr(e)},
                    "%s raises %r" % (name, e))


def search_history(ctx, fd, rebound):
    """a change of units / scale must commute with integrating (physical predictions do not depend on the unit system); built-in data in preset units"""
    import warnings
    YR = 31557600.0; AUm = 149597870700.0
    for integ in ("ias15", "whfast"):
        def mk():
            s = rebound.Simulation(); s.units = ('m', 's', 'kg')
            MS = 1.98847e30
            s.add(m=MS)
            s.add(m=5.97e24, x=AUm, vy=1.1 * math.sqrt(s.G * MS / AUm)); s.add(m=1.9e27, x=5.2 * AUm, vy=math.sqrt(s.G * MS / (5.2 * AUm)))
            s.integrator = integ; s.dt = 86400.0 * 10
            return s
        ctx.evaluations += 1
        a = mk(); a.integrate(3 * YR); a.integrate(6 * YR)
        b = mk(); b.integrate(3 * YR); t, dt = b.t, b.dt
        b.convert_particle_units('au', 'yr', 'msun'); b.t = t / YR; b.dt = dt / YR
        b.integrate(6.0)
        err = max(abs(p.x / AUm - q.x) + abs(p.y / AUm - q.y) for p, q in zip(a.particles, b.particles))
        if err > 1e-9:
            fd.fail("units:convert-then-integrate:" + integ,
                    {"integrator": integ, "sequence": "units (m,s,kg): Sun + 2 planets, dt=10 d; integrate(3 yr); convert_particle_units('au','yr','msun') with t, dt rescaled by hand; "
                     "integrate(6 yr)  versus the same run continued in SI", "difference_AU": err},
                    "continuing an integration after convert_particle_units gives a different trajectory than continuing in the old units (stale integrator state)")
        for sc in (1e6,):
            ctx.evaluations += 1
            m1 = rebound.Simulation(); m1.add(m=1.0); m1.add(m=1e-3, a=1.0, e=0.1); m1.add(m=1e-3, a=2.3, e=0.05); m1.integrator = integ; m1.dt = 0.01
            m2 = m1.copy()
            m1.integrate(20.0); m1.integrate(40.0)
            m2.integrate(20.0)
            m2.multiply(sc, 1 / math.sqrt(sc)); m2.t *= sc ** 1.5; m2.dt *= sc ** 1.5      # Kepler scaling: x -> s x, v -> v/sqrt(s), t -> s^1.5 t
            with warnings.catch_warnings():
                warnings.simplefilter("ignore")
                m2.integrate(40.0 * sc ** 1.5)
            err = max(abs(p.x * sc - q.x) / sc for p, q in zip(m1.particles, m2.particles))
            if err > 1e-9:
                fd.fail("imul:then-integrate:" + integ, {"integrator": integ, "scale": sc, "sequence": "G=1: star + 2 planets, integrate(20); multiply(s, s^-1/2), t, dt *= s^1.5; "
                        "integrate(40 s^1.5)  versus integrate(40) unscaled", "relative_difference": err},
                        "continuing an integration after Simulation.multiply (an exact Kepler rescaling) differs from the unscaled run (stale integrator state)")
    for nm, idx, Pyr in (("solar system", 3, 1.0), ("outer solar system", 1, 11.86)):
        ctx.evaluations += 1
        s = rebound.Simulation(); s.units = ('km', 's', 'kg'); s.add(nm)
        o = s.particles[idx].orbit(primary=s.particles[0])
        if not (abs(o.P / YR / Pyr - 1) < 1e-2):
            fd.fail("units:builtin-dataset-ignores-units", {"call": "sim.units=('km','s','kg'); sim.add(%r)" % nm, "particle": idx, "P_seconds": o.P, "a_km": o.a, "x_km": s.particles[idx].x},
                    "sim.add(%r) adds the AU / yr/2pi / Msun numbers unconverted into a simulation whose units are already set" % nm)


def search_edges(ctx, fd, rebound):
    """the corners of what C20 quantifies over: angles 0 / pi / 2pi, zero and non-unit quaternions, parallel axes, inc = 0 / pi, the ends of the
    double range, N = 0 / 1, test-particle variational sets, and the same objects used again after an error path"""
    rng = ctx.rng
    R, V = rebound.Rotation, rebound.Vec3d
    ql = lambda q: [q.ix, q.iy, q.iz, q.r]
    app = lambda q, v: (lambda w: [w.x, w.y, w.z])(q * v)
    vd = lambda a, b: max(abs(x - y) for x, y in zip(a, b))
    fin = lambda xs: all(math.isfinite(x) for x in xs)

    def guard(key, rep, fn):
        ctx.evaluations += 1
        try:
            return fn()
        except Exception as e:
            fd.fail("edge:exception:" + key, dict(rep, error=repr(e)), "%s raised %r" % (key, e))
            return None

    # ---- angles 0, +-pi, 2pi, 4pi about coordinate and generic axes
    for ang in (0.0, -0.0, math.pi, -math.pi, 2 * math.pi, 4 * math.pi, math.pi / 2):
        for ax in ([0.0, 0.0, 1.0], [1.0, 0.0, 0.0], [0.0, -2.0, 0.0], gvec(rng)):
            rep = {"angle": ang, "axis": ax}
            q = guard("Rotation(angle,axis)", rep, lambda: R(angle=ang, axis=ax))
            if q is None: continue
            ah = unit(ax)
            w = gvec(rng); d = sum(x * y for x, y in zip(w, ah)); pv = [x - d * y for x, y in zip(w, ah)]
            if nrm(pv) < 1e-3 * nrm(w): continue
            ph = unit(pv); cr = [ah[1] * ph[2] - ah[2] * ph[1], ah[2] * ph[0] - ah[0] * ph[2], ah[0] * ph[1] - ah[1] * ph[0]]
            want = [math.cos(ang) * ph[i] + math.sin(ang) * cr[i] for i in range(3)]
            if abs(qn2(ql(q)) - 1) > 1e-14 or vd(app(q, ah), ah) > 1e-14 or vd(app(q, ph), want) > 1e-14:
                fd.fail("edge:angle-axis", dict(rep, q=ql(q)), "Rotation(angle, axis) at a special angle is not the rotation by that angle about that axis")
    # ---- zero / non-unit quaternions given by the user: no exception; normalize() of a non-zero one is a rotation
    for raw in ([0.0, 0.0, 0.0, 0.0], [0.0, 0.0, 0.0, 2.0], [0.0, 0.0, 2.0, 0.0], [3.0, -4.0, 12.0, 0.5], [1e-160, 0.0, 0.0, 1e-160], [1e160, 1e160, 0.0, 0.0]):
        rep = {"q": raw}
        q = R(ix=raw[0], iy=raw[1], iz=raw[2], r=raw[3])
        v = gvec(rng)
        guard("q*v", rep, lambda: q * v); guard("q.inverse()", rep, lambda: q.inverse()); guard("q*q", rep, lambda: q * q)
        qn = guard("q.normalize()", rep, lambda: q.normalize())
        if qn is not None and any(raw) and max(abs(x) for x in raw) < 1e150 and min(abs(x) for x in raw if x) > 1e-150:
            if abs(qn2(ql(qn)) - 1) > 1e-14 or abs(nrm(app(qn, v)) - nrm(v)) > 1e-13 * nrm(v):
                fd.fail("edge:normalize", dict(rep, normalized=ql(qn)), "normalize() of a non-zero quaternion is not a unit quaternion preserving lengths")
    # ---- to_new_axes with parallel / antiparallel / zero newx, default newx for +-z
    for z, x in (([0.0, 0.0, 2.0], [0.0, 0.0, 5.0]), ([1.0, 1.0, 1.0], [-2.0, -2.0, -2.0]), ([0.0, 1.0, 0.0], [0.0, 0.0, 0.0]), ([0.0, 0.0, 1.0], None),
                 ([0.0, 0.0, -1.0], None), ([0.0, 0.0, -3.0], None), (gvec(rng), None), ([1.0, 0.0, 0.0], None), ([0.0, 0.0, 1.0], [1.0, 0.0, 0.0])):
        rep = {"newz": z, "newx": x}
        q = guard("to_new_axes", rep, (lambda: R.to_new_axes(newz=z, newx=x)) if x is not None else (lambda: R.to_new_axes(newz=z)))
        if q is None: continue
        if not fin(ql(q)) or abs(qn2(ql(q)) - 1) > 1e-14 or vd(app(q, unit(z)), [0.0, 0.0, 1.0]) > 1e-13:
            fd.fail("edge:to_new_axes-degenerate", dict(rep, q=ql(q)), "to_new_axes with a parallel / missing newx does not give a unit rotation taking newz to z")
    # ---- orbit <-> orbital() at inc = 0, pi and next to them (planar prograde / retrograde orbits)
    for inc in (0.0, math.pi, 1e-9, math.pi - 1e-9, 3e-8, math.pi - 3e-8, 1e-4, math.pi - 1e-4):
        for _ in range(3):
            Om, om = rng.uniform(0, 2 * math.pi), rng.uniform(0, 2 * math.pi)
            rep = {"Omega": Om, "inc": inc, "omega": om}
            q = guard("Rotation.orbit", rep, lambda: R.orbit(Omega=Om, inc=inc, omega=om))
            if q is None: continue
            ang = guard("orbital()", rep, lambda: q.orbital())
            if ang is None: continue
            q2 = R.orbit(Omega=ang[0], inc=ang[1], omega=ang[2])
            v = gvec(rng)
            if abs(qn2(ql(q)) - 1) > 1e-14 or vd(app(q, v), app(q2, v)) > 1e-6 * nrm(v) or not (0 <= ang[0] < 2 * math.pi + 1e-12 and 0 <= ang[2] < 2 * math.pi + 1e-12):
                fd.fail("to_orbital:planar", dict(rep, orbital=ang, q=ql(q)), "orbital() of a (nearly) planar orbit rotation does not describe the same rotation")
    # ---- large and small magnitudes INSIDE the range where the squared lengths are normal doubles (|v| in about [1e-150, 1e150]; beyond that
    #      reb_vec3d_normalize's intermediate square over/underflows: outside the domain of the property, see the manifest note)
    for mag in (1e150, 1e-150, 1e120, 1e-120, 3e149, 4e-150):
        a = [x * mag for x in unit(gvec(rng))]; b = [x * mag for x in unit(gvec(rng))]
        if rng.random() < 0.3: b = [-x for x in a]
        rep = {"magnitude": mag, "from": a, "to": b}
        q = guard("from_to", rep, lambda: R.from_to(a, b))
        if q is not None:
            ua, ub = unit([x / mag for x in a]), unit([x / mag for x in b])
            if not fin(ql(q)) or abs(qn2(ql(q)) - 1) > 1e-14 or vd(app(q, ua), ub) > 1e-13:
                fd.fail("edge:magnitude", dict(rep, q=ql(q)), "from_to of vectors of magnitude %g is not the rotation between their directions" % mag)
        q = guard("Rotation(angle,axis)", rep, lambda: R(angle=1.0, axis=a))
        if q is not None and (not fin(ql(q)) or abs(qn2(ql(q)) - 1) > 1e-14):
            fd.fail("edge:magnitude", dict(rep, q=ql(q), constructor="angle_axis"), "Rotation(angle, axis) with an axis of magnitude %g is not a unit quaternion" % mag)
        q = guard("to_new_axes", rep, lambda: R.to_new_axes(newz=a, newx=b))
        if q is not None and (not fin(ql(q)) or abs(qn2(ql(q)) - 1) > 1e-14 or vd(app(q, unit([x / mag for x in a])), [0.0, 0.0, 1.0]) > 1e-12):
            fd.fail("edge:magnitude", dict(rep, q=ql(q), constructor="to_new_axes"), "to_new_axes with vectors of magnitude %g does not take newz to z" % mag)
    qu = R.from_to(gvec(rng), gvec(rng))
    for mag in (1e300, 1e-300, 1e-310, 1e307):
        v = [x * mag for x in unit(gvec(rng))]
        w = guard("q*v", {"v": v}, lambda: app(qu, v))
        if w is not None and (not fin(w) or abs(nrm([x / mag for x in w]) - nrm([x / mag for x in v])) > (1e-13 if mag != 1e-310 else 1e-3) * nrm([x / mag for x in v])):
            fd.fail("edge:rotate-extreme", {"q": ql(qu), "v": v, "rotated": w}, "rotating a vector of magnitude %g changes its length / overflows" % mag)
    for bad in (float("nan"), float("inf")):      # accepted doubles: no exception, no hang
        guard("nan/inf", {"x": bad}, lambda: (R(angle=bad, axis=[0.0, 0.0, 1.0]), R.from_to([bad, 0.0, 0.0], [0.0, 1.0, 0.0]), R.orbit(Omega=bad), qu * [bad, 0.0, 0.0],
                                               R(ix=bad, iy=0.0, iz=0.0, r=1.0).orbital()))
    # ---- N = 0 and N = 1 simulations through every whole-simulation operation
    for nreal in (0, 1):
        sim = rebound.Simulation()
        if nreal: sim.add(m=rng.choice([0.0, 1.0]), x=1.0, vy=2.0)
        rep = {"N": nreal}
        b4 = [(p.m, p.x, p.y, p.z, p.vx, p.vy, p.vz) for p in sim.particles]
        guard("N<=1 operations", rep, lambda: (sim.move_to_com(), sim.move_to_hel(), sim.rotate(R()), (sim * 2.0).N, (sim + sim).N, (sim - sim).N, sim.energy(),
                                               sim.angular_momentum(), sim.com().m, sim.copy().N))
        s2 = sim.copy()
        guard("N<=1 frames", rep, lambda: (s2.move_to_com(), s2.move_to_hel()))
        if nreal and (s2.particles[0].x != 0.0 or s2.particles[0].vy != 0.0) and sim.particles[0].m > 0:
            fd.fail("edge:single-particle-frame", rep, "a single massive particle is not at rest at the origin after move_to_com / move_to_hel")
        va = guard("N<=1 add_variation", rep, lambda: sim.add_variation())
        guard("N<=1 frames with variation", rep, lambda: (sim.move_to_com(), sim.move_to_hel(), sim.rotate(qu)))
    # ---- test-particle variational sets (first and second order): untouched by both frame changes, rotated like vectors
    t = rebound.Simulation(); t.add(m=1.0, x=0.3, vy=0.1); t.add(m=0.0, x=1.0, vy=1.0); t.add(m=1e-3, x=-2.0, vy=-0.7)
    f1 = guard("add_variation(testparticle)", {}, lambda: t.add_variation(testparticle=1))
    if f1 is not None:
        guard("add_variation(order=2,testparticle)", {}, lambda: t.add_variation(order=2, first_order=f1, testparticle=1))
        for i in range(3, t.N):
            for c in COMPS: setattr(t.particles[i], c, rng.gauss(0, 1))
        b4 = [[getattr(t.particles[i], c) for c in COMPS] for i in range(3, t.N)]
        t.move_to_com(); t.move_to_hel()
        if [[getattr(t.particles[i], c) for c in COMPS] for i in range(3, t.N)] != b4:
            fd.fail("edge:testparticle-variation-frames", {"before": b4}, "a frame change moved a test-particle variational particle")
        t.rotate(qu)
        for k, i in enumerate(range(3, t.N)):
            for o in (0, 3):
                ex = xrot(ql(qu), b4[k][o:o + 3]); got = [getattr(t.particles[i], c) for c in COMPS[o:o + 3]]
                if max(abs(F(g) - e) for g, e in zip(got, ex)) > 64 * EPS * nrm(b4[k][o:o + 3]):
                    fd.fail("edge:testparticle-variation-rotate", {"before": b4, "q": ql(qu)}, "sim.rotate does not rotate a test-particle variational particle")
    # ---- error paths, then the same object keeps being used
    s3 = rebound.Simulation()
    def expect_raise(key, fn, rep=None):
        ctx.evaluations += 1
        try:
            fn()
        except Exception:
            return True
        fd.fail("edge:no-error:" + key, rep or {}, "%s was accepted" % key)
        return False
    for badu in (("foo", "yr", "msun"), ("au", "yr"), ("au", "km", "msun"), ("au", "yr", "msun", "kg"), (1, 2, 3), ()):
        expect_raise("units=%r" % (badu,), lambda: setattr(s3, "units", badu))
        if s3.G != 1.0 or any(v is not None for v in s3.units.values()):
            fd.fail("edge:units-after-error", {"units_given": badu, "units_now": s3.units, "G": s3.G}, "a rejected sim.units assignment changed the simulation")
    expect_raise("convert_particle_units before units are set", lambda: s3.convert_particle_units("au", "yr", "msun"))
    s3.units = ("AU", "Yr", "Msun"); G0 = s3.G
    s3.add(m=1.0, x=1.0, vx=0.5)
    expect_raise("units after particles were added", lambda: setattr(s3, "units", ("m", "s", "kg")))
    expect_raise("convert_particle_units to an unknown unit", lambda: s3.convert_particle_units("au", "yr", "foo"))
    pst = (s3.particles[0].m, s3.particles[0].x, s3.particles[0].vx)
    if s3.G != G0 or s3.units != {"length": "au", "time": "yr", "mass": "msun"} or pst != (1.0, 1.0, 0.5):
        fd.fail("edge:units-after-error", {"units_now": s3.units, "G": s3.G, "particle": pst}, "a rejected unit operation changed the simulation")
    s3.convert_particle_units("km", "s", "kg"); s3.convert_particle_units("au", "yr", "msun")
    if relerr(s3.particles[0].x, 1.0) > 64 * EPS or relerr(s3.G, G0) > 8 * EPS:
        fd.fail("edge:units-after-error", {"x": s3.particles[0].x, "G": s3.G}, "unit conversion after a rejected request does not round-trip")
    a = rebound.Simulation(); a.add(m=1.0, x=1.0); b = rebound.Simulation(); b.add(m=1.0); b.add(m=1.0)
    for nm, fn in (("+=", lambda: a.__iadd__(b)), ("-=", lambda: a.__isub__(b)), ("/0", lambda: a / 0.0)):
        expect_raise("Simulation %s with mismatching N / zero" % nm, fn)
    if a.N != 1 or a.particles[0].x != 1.0 or (a + a).particles[0].x != 2.0:
        fd.fail("edge:arithmetic-after-error", {}, "a rejected simulation arithmetic operation changed its operand / breaks later use")


def search_slerp(ctx, fd, clib, Rot):
    """reb_rotation_slerp (C API only): end points, unit norm and constant angular speed along the great arc between unit quaternions"""
    rng = ctx.rng
    for k in range(ctx.scale(300, 5000)):
        ctx.evaluations += 1
        q1 = [rng.gauss(0, 1) for _ in range(4)]; n1 = math.sqrt(sum(x * x for x in q1)); q1 = [x / n1 for x in q1]
        q2 = [rng.gauss(0, 1) for _ in range(4)]; n2 = math.sqrt(sum(x * x for x in q2)); q2 = [x / n2 for x in q2]
        if k % 10 == 0:       # documented: 'if q1=q2 or q1=-q2 then theta = 0 and we can return q1'
            t = rng.random()
            for q2x in (list(q1), [-x for x in q1]):
                r = clib.reb_rotation_slerp(Rot(*q1), Rot(*q2x), t)
                rv = [r.ix, r.iy, r.iz, r.r]
                if max(abs(a - b) for a, b in zip(rv, q1)) > 1e-7:
                    fd.fail("slerp:same-rotation", {"q1": q1, "q2": q2x, "t": t, "result": rv},
                            "reb_rotation_slerp(q1, +-q1, t) is not q1")
        if k % 10 == 1:       # dot product exactly +-1: the documented early exit returns q1 itself
            qe = rng.choice([[0.0, 0.0, 0.0, 1.0], [1.0, 0.0, 0.0, 0.0], [0.0, -1.0, 0.0, 0.0], [0.5, 0.5, 0.5, 0.5], [0.5, -0.5, 0.5, -0.5]])
            for q2x in (list(qe), [-x for x in qe]):
                r = clib.reb_rotation_slerp(Rot(*qe), Rot(*q2x), rng.random())
                rv = [r.ix, r.iy, r.iz, r.r]
                if rv != qe:
                    fd.fail("slerp:early-exit", {"q1": qe, "q2": q2x, "result": rv}, "reb_rotation_slerp(q1, +-q1, t) with |q1.q2| = 1 exactly does not return q1")
        if k % 3 == 0:        # nearly equal / nearly opposite quaternions, inside and outside the QUATERNION_EPS branch
            sg = rng.choice([1.0, -1.0]); e = 10 ** rng.uniform(-7, -0.5)
            q2 = [sg * x + rng.gauss(0, 1) * e for x in q1]; n2 = math.sqrt(sum(x * x for x in q2)); q2 = [x / n2 for x in q2]
        c = sum(a * b for a, b in zip(q1, q2))
        if abs(c) >= 1.0:
            continue
        th = math.acos(c)
        sth = math.sqrt(1.0 - c * c)
        t = rng.choice([0.0, 1.0, rng.random(), rng.random()])
        for tb in (float('nan'), -1.0, 2.0, 1e300):      # accepted doubles outside [0,1]: must return (no crash / hang)
            clib.reb_rotation_slerp(Rot(*q1), Rot(*q2), tb)
        r = clib.reb_rotation_slerp(Rot(*q1), Rot(*q2), t)
        rv = [r.ix, r.iy, r.iz, r.r]
        if sth < 1.05e-4:
            if sth > 0.95e-4:
                continue          # too close to the branch threshold to predict the branch
            if c < 0:             # same rotation: q1 is returned (439d558)
                if rv != q1:
                    fd.fail("slerp:same-rotation", {"q1": q1, "q2": q2, "t": t, "result": rv}, "reb_rotation_slerp(q1, ~-q1, t) does not return q1")
            elif abs(sum(x * x for x in rv) - 1.0) > 1e-8 or max(abs(a - b) for a, b in zip(rv, q1)) > 2e-4:
                fd.fail("slerp:small-angle", {"q1": q1, "q2": q2, "t": t, "result": rv}, "reb_rotation_slerp for nearly equal quaternions is not the (unit to 1e-8) mean")
            continue
        tol = 1e-14 / (sth * sth)     # theta = acos(c) is known to eps/sin, the ratios divide by sin once more
        d1 = sum(a * b for a, b in zip(rv, q1)); d2 = sum(a * b for a, b in zip(rv, q2))
        bad = abs(sum(x * x for x in rv) - 1.0) > tol or abs(d1 - math.cos(t * th)) > tol or abs(d2 - math.cos((1 - t) * th)) > tol
        if t == 0.0: bad = bad or max(abs(a - b) for a, b in zip(rv, q1)) > tol
        if t == 1.0: bad = bad or max(abs(a - b) for a, b in zip(rv, q2)) > tol
        if bad:
            fd.fail("slerp", {"q1": q1, "q2": q2, "t": t, "result": rv, "angle_to_q1": d1, "expected_cos": math.cos(t * th)},
                    "reb_rotation_slerp(q1,q2,t) is not the unit quaternion at fraction t of the great arc from q1 to q2")


def search(ctx, rebound, clib, Rot, V3):
    import traceback
    fd = Finder(ctx)
    for name, fn in (("units", search_units), ("rotations", search_rot), ("frames", search_frames),
                     ("whole-simulation rotation with variations", search_whole_sim_var),
                     ("edges of the domain", search_edges), ("reused objects / aliasing", search_reuse), ("units or scale change then integrate", search_history),
                     ("slerp", lambda c, f, r: search_slerp(c, f, clib, Rot))):
        try:
            fn(ctx, fd, rebound)
        except Exception as e:      # the python layer raised on an input the property covers
            fd.fail("exception:" + name, {"section": name, "error": repr(e), "traceback": traceback.format_exc()[-1500:]},
                    "the library's python layer raised %r while the %s oracles were exercising it" % (e, name))
    ctx.extra["searcher_distinct_failures"] = sorted(fd.found)
    fd.flush()
