"""C11 — orbital elements <-> Cartesian coordinates are consistent in both directions.

1. proof obligations: coq/C11 (parser equivalence by reduction to 2^15 canonical presence vectors; invariants of
   reb_particle_from_orbit_err over R; rejection rules; Newton-loop exit residual);
2. correspondence
   (a) parsers: the Coq decision procedures c_decide / py_decide are evaluated inside Coq on every generated
       argument set; the particle (or error class) each decision implies is rebuilt from the low-level library
       routines and compared bit for bit with what reb_particle_from_fmt (C driver) and rebound.Particle (Python)
       actually return;
   (b) numerics: the binary64 instance of the Gallina models of reb_particle_from_orbit_err, reb_mod2pi,
       reb_M_to_E, reb_E_to_f, reb_M_to_f (libm values supplied as recorded tables) vs the library, bit for bit;
3. library-only searcher (tools/c11_search.py): C vs Python front ends on the same arguments, Kepler's equation
   in 50-digit arithmetic, element round trips, ranges, defining relations, no silent NaN particle.
"""
import ctypes, itertools, math, os, re, subprocess, sys
import vlib
import c11_search as S
import c11_mirror

HERE = os.path.dirname(os.path.abspath(__file__))

DARGS = ["m", "r", "x", "y", "z", "vx", "vy", "vz", "a", "P", "e", "inc", "Omega", "omega", "pomega",
         "f", "M", "E", "l", "theta", "T", "h", "k", "ix", "iy"]
OPT = ["primary", "hash"] + DARGS            # token order used for the C call: primary, hash, then doubles
PY_ERR = [
    ("Can't set e exactly to 1.", 1), ("Eccentricity must be greater than or equal to zero.", 2),
    ("Bound orbit (a > 0) must have e < 1.", 3), ("Unbound orbit (a < 0) must have e > 1.", 4),
    ("Unbound orbit can't have f beyond", 5), ("Primary has no mass.", 6),
    ("You cannot mix Pal coordinates", 7), ("You cannot pass cartesian coordinates and orbital elements", 8),
    ("Need to specify simulation", 9), ("You need to pass either a semimajor axis or orbital period", 10),
    ("You can pass either the semimajor axis or orbital period, but not both", 11),
    ("Passed (ix, iy) coordinates are not valid", 12), ("Can't pass both omega and pomega", 13),
    ("Can only pass one longitude/anomaly", 14), ("Semi-major axis (or orbital period) cannot be zero", 15),
    ("NaN passed as an argument", 16), ("NaN or infinite value passed as an argument", 16)]


def nonfinite_rejected():
    """does the C front end of the tree under test reject +-inf like NaN (the macro tests !isfinite)?"""
    src = open(os.path.join(vlib.REPO, "src", "tools.c")).read()
    return "if (!isfinite(var)) nan_given = 1" in src


NONFINITE_REJECTED = nonfinite_rejected()


def c_err_table():
    """error strings of reb_string_for_particle_error, read from the current source (fail closed)."""
    src = open(os.path.join(vlib.REPO, "src", "tools.c")).read()
    m = re.search(r"reb_string_for_particle_error\(int err\)\{(.*?)\n\}", src, re.S)
    tab = {}
    if m:
        for n, s in re.findall(r"if \(err==(\d+)\)\s*return \"((?:[^\"\\]|\\.)*)\";", m.group(1)):
            tab[s] = int(n)
    return tab


def build_driver(libdir):
    exe = os.path.join(libdir, "c11_driver")
    src = os.path.join(HERE, "c11_driver.c")
    if os.path.exists(exe) and os.path.getmtime(exe) >= os.path.getmtime(src):
        return exe
    tmp = exe + ".tmp%d" % os.getpid()
    r = subprocess.run(["gcc", "-O1", "-std=gnu99", "-I", os.path.join(vlib.REPO, "src"), src, "-o", tmp,
                        "-L", libdir, "-l:librebound" + vlib.SUFFIX, "-Wl,-rpath," + libdir, "-lm"],
                       capture_output=True, text=True)
    if r.returncode != 0:
        raise RuntimeError("c11 driver does not compile: " + r.stderr[-1500:])
    os.replace(tmp, exe)
    return exe


# ----------------------------------------------------------------------------- case generation
def special_angle(rng):
    u = rng.random()
    if u < 0.25:
        return rng.choice([0.0, 2 * math.pi, -2 * math.pi, 4 * math.pi, math.pi, -math.pi, math.pi / 2, 1e-9, -1e-9])
    return rng.uniform(-2 * math.pi, 4 * math.pi)


def gen_values(rng, names):
    """valid-looking random values for the chosen argument names (so that most accepted combinations build a
    finite particle); a small fraction is made invalid on purpose."""
    hyper = ("a" in names and "e" in names and rng.random() < 0.3)
    v = {}
    for n in names:
        if n == "m":
            v[n] = rng.choice([0.0, 10 ** rng.uniform(-6, 0)])
        elif n == "r":
            v[n] = rng.uniform(0, 0.1)
        elif n in ("x", "y", "z", "vx", "vy", "vz"):
            v[n] = rng.gauss(0, 1)
        elif n == "a":
            v[n] = (-1 if hyper else 1) * 10 ** rng.uniform(-2, 3)
        elif n == "P":
            v[n] = 10 ** rng.uniform(-1, 2)
        elif n == "e":
            v[n] = rng.uniform(1.05, 5) if hyper else rng.choice([0.0, rng.uniform(0, 0.95)])
        elif n == "inc":
            v[n] = rng.choice([0.0, math.pi, rng.uniform(0, math.pi), rng.uniform(0, math.pi)])
        elif n in ("Omega", "omega", "pomega", "l", "theta"):
            v[n] = special_angle(rng)
        elif n == "f":
            v[n] = rng.uniform(-1, 1) * 0.9 * math.acos(-1 / v.get("e", 2.0)) if hyper and "e" in v else special_angle(rng)
        elif n == "M":
            v[n] = rng.uniform(-20, 20) if hyper else special_angle(rng)
        elif n == "E":
            v[n] = rng.uniform(-3, 3) if hyper else special_angle(rng)
        elif n == "T":
            v[n] = rng.uniform(-3, 3)
        elif n in ("h", "k"):
            v[n] = rng.uniform(-0.6, 0.6)
        elif n in ("ix", "iy"):
            v[n] = rng.uniform(-1.2, 1.2) if rng.random() < 0.9 else rng.uniform(-2, 2)
    # order matters for hyperbolic f (needs e first): regenerate f if e came later
    if hyper and "f" in v:
        v["f"] = rng.uniform(-1, 1) * 0.9 * math.acos(-1 / v["e"])
    if rng.random() < 0.03:
        for n in ("a", "P"):
            if n in v and rng.random() < 0.7:
                v[n] = 0.0
    if rng.random() < 0.06 and "h" in v:
        v["h"] = rng.choice([0.8, 1.0, -0.95])
        if "k" in v:
            v["k"] = rng.choice([0.6, 0.7])
    u = rng.random()
    if u < 0.04 and "e" in v:
        v["e"] = rng.choice([1.0, -0.1, 1.5 if v.get("a", 1) > 0 else 0.5])
    return v


def gen_case(rng, names, allow_nan=True):
    vals = gen_values(rng, names)
    case = {"G": rng.choice([1.0, 1.0, 39.47841760435743, 6.6743e-11 * 1e10]), "t": rng.choice([0.0, rng.uniform(-2, 2)]),
            "prim": [rng.uniform(0.5, 2)] + [rng.gauss(0, 1) for _ in range(6)],
            "nsim": 1, "names": [n for n in OPT if n in names], "vals": vals}
    u = rng.random()
    if u < 0.03:
        case["nsim"] = 0          # empty simulation: centre of mass has no mass
    elif u < 0.06:
        case["nsim"] = -1         # no simulation at all
    if "hash" in names:
        vals["hash"] = rng.randrange(1, 2 ** 32)
    if allow_nan and rng.random() < 0.04:
        cand = [n for n in names if n in DARGS]
        if cand:
            vals[rng.choice(cand)] = float("nan")
    elif allow_nan and rng.random() < 0.02:
        cand = [n for n in names if n in DARGS]
        if cand:
            vals[rng.choice(cand)] = rng.choice([float("inf"), float("-inf")])
    return case


def case_line(c):
    hx = lambda x: "nan" if x != x else float(x).hex()
    toks = ",".join(c["names"]) if c["names"] else "-"
    vs = []
    for n in c["names"]:
        if n == "primary":
            continue
        vs.append(str(c["vals"][n]) if n == "hash" else hx(c["vals"][n]))
    return " ".join([hx(c["G"]), hx(c["t"])] + [hx(x) for x in c["prim"]] + [str(c["nsim"]), toks] + vs)


def parse_driver_line(line, ctab):
    head, _, msg = line.partition("|")
    f = head.split()
    if f[0] == "1":
        code = ctab.get(msg.strip())
        return ("E", code if code is not None else -1)
    fl = lambda s: float("nan") if s == "nan" else float.fromhex(s)
    return ("P", fl(f[1]), fl(f[2]), int(f[3]), fl(f[4]), fl(f[5]), fl(f[6]), fl(f[7]), fl(f[8]), fl(f[9]))


# ----------------------------------------------------------------------------- Python front end
class Lib:
    def __init__(self, libdir):
        if libdir not in sys.path:
            sys.path.insert(0, libdir)
        import rebound
        self.rebound = rebound
        self.clib = rebound.clibrebound
        P = rebound.Particle
        D = ctypes.c_double
        c = self.clib
        c.reb_particle_from_orbit_err.restype = P
        c.reb_particle_from_orbit_err.argtypes = [D, P, D, D, D, D, D, D, D, ctypes.POINTER(ctypes.c_int)]
        c.reb_particle_from_pal.restype = P
        c.reb_particle_from_pal.argtypes = [D, P, D, D, D, D, D, D, D]
        c.reb_simulation_com.restype = P
        for fn in ("reb_M_to_E", "reb_E_to_f", "reb_M_to_f"):
            getattr(c, fn).restype = D
            getattr(c, fn).argtypes = [D, D]
        c.reb_mod2pi.restype = D
        c.reb_mod2pi.argtypes = [D]
        self.libm = ctypes.CDLL("libm.so.6")
        for fn in ("sin", "cos", "sinh", "cosh", "log", "tan", "tanh", "atan", "cbrt", "sqrt"):
            getattr(self.libm, fn).restype = D
            getattr(self.libm, fn).argtypes = [D]
        for fn in ("fmod", "copysign"):
            getattr(self.libm, fn).restype = D
            getattr(self.libm, fn).argtypes = [D, D]

    def mk_prim(self, pr):
        p = self.rebound.Particle()
        p.m, p.x, p.y, p.z, p.vx, p.vy, p.vz = pr
        return p

    def mk_sim(self, c):
        if c["nsim"] < 0:
            return None
        sim = self.rebound.Simulation()
        sim.G = c["G"]
        sim.t = c["t"]
        for _ in range(c["nsim"]):
            sim.add(self.mk_prim(c["prim"]))
        return sim

    def run_py(self, c):
        sim = self.mk_sim(c)
        kw = {}
        for n in c["names"]:
            kw[n] = self.mk_prim(c["prim"]) if n == "primary" else c["vals"][n]
        try:
            p = self.rebound.Particle(simulation=sim, **kw)
        except ValueError as ex:
            s = str(ex)
            for pat, code in PY_ERR:
                if s.startswith(pat):
                    return ("E", code)
            return ("E", -1)
        except (ZeroDivisionError, OverflowError) as ex:      # Python-only: float arithmetic of the P/T conversion
            return ("X", type(ex).__name__)
        return ("P", p.m, p.r, p.hash.value, p.x, p.y, p.z, p.vx, p.vy, p.vz)

    # what a decision of the Coq model implies for this front end, rebuilt from the low-level routines
    def expect(self, front, dec, c):
        try:
            return self.expect_(front, dec, c)
        except (ZeroDivisionError, OverflowError) as ex:
            return ("X", type(ex).__name__)

    def expect_(self, front, dec, c):
        v = c["vals"]
        isn = lambda x: x != x

        def get(n):
            if n not in c["names"]:
                return None
            x = v[n]
            if front == "c" and isn(x):
                return None           # C: NaN value == not given
            return x
        m = v["m"] if "m" in c["names"] else 0.0
        rad = v["r"] if "r" in c["names"] else 0.0
        hsh = v["hash"] if "hash" in c["names"] else 0
        if dec < 100:
            return ("E", dec)
        if dec == 100:
            xs = [get(n) for n in ("x", "y", "z", "vx", "vy", "vz")]
            return ("P", m, rad, hsh) + tuple(0.0 if x is None else x for x in xs)
        sim = self.mk_sim(c)
        G = c["G"]
        if "primary" in c["names"]:
            prim = self.mk_prim(c["prim"])
        else:
            prim = self.clib.reb_simulation_com(ctypes.byref(sim))
        pm = prim.m
        afp = (dec // 100) % 10 == 1 if dec >= 1000 else dec == 201
        if afp:
            P = get("P")
            if front == "c":
                a = self.libm.cbrt(P * P * G * (pm + m) / (4. * math.pi * math.pi))
            else:
                a = (P ** 2 * G * (pm + m) / (4. * math.pi ** 2)) ** (1. / 3.)
        else:
            a = get("a")
        if a == 0.:
            return ("E", 15)          # both front ends: right after a is known
        if dec in (200, 201):
            l, h, k, ix, iy = [0.0 if get(n) is None else get(n) for n in ("l", "h", "k", "ix", "iy")]
            if (ix * ix + iy * iy) > 4.0:
                return ("E", 12)
            if (h * h + k * k) >= 1.0:
                return ("E", 3)
            p = self.clib.reb_particle_from_pal(G, prim, m, a, l, k, h, ix, iy)
            return ("P", m, rad, hsh, p.x, p.y, p.z, p.vx, p.vy, p.vz)
        pe = (dec // 10) % 10
        an = dec % 10
        e, inc, Om = [0.0 if get(n) is None else get(n) for n in ("e", "inc", "Omega")]
        cosi = self.libm.cos(inc)
        if pe == 0:
            om = 0.0
        elif pe == 1:
            om = get("omega")
        else:
            om = (get("pomega") - Om) if cosi > 0 else (Om - get("pomega"))
        M2f = lambda M: self.clib.reb_M_to_f(e, M)
        if an == 0:
            f = 0.0
        elif an == 1:
            f = get("f")
        elif an == 2:
            f = M2f(get("M"))
        elif an == 3:
            f = self.clib.reb_E_to_f(e, get("E"))
        elif an == 4:
            f = M2f((get("l") - Om - om) if cosi > 0 else (Om - om - get("l")))
        elif an == 5:
            f = (get("theta") - Om - om) if cosi > 0 else (Om - om - get("theta"))
        else:
            if front == "c":
                n = self.libm.sqrt(fdiv(G * (pm + m), abs(a * a * a)))
            else:
                n = (G * (pm + m) / abs(a ** 3)) ** 0.5
            f = M2f(n * (c["t"] - get("T")))
        err = ctypes.c_int(0)
        p = self.clib.reb_particle_from_orbit_err(G, prim, m, a, e, inc, Om, om, f, ctypes.byref(err))
        if err.value:
            return ("E", err.value)
        return ("P", m, rad, hsh, p.x, p.y, p.z, p.vx, p.vy, p.vz)


def fdiv(x, y):
    """IEEE division (Python raises on a zero divisor)"""
    try:
        return x / y
    except ZeroDivisionError:
        if x != x or x == 0:
            return float("nan")
        return math.copysign(float("inf"), x) * math.copysign(1.0, y)


def same_outcome(a, b):
    if a[0] != b[0]:
        return a[0] in "EX" and b[0] in "EX" and "X" in (a[0], b[0]) and False
    if a[0] in "EX":
        return a[1] == b[1]
    return all((x == y) if isinstance(x, int) else vlib.same_bits(x, y) for x, y in zip(a[1:], b[1:]))


def close_outcome(a, b, rel=1e-6):   # P->a and T->M use cbrt/sqrt in C, ** in Python: 1 ulp in a or M, amplified by dM->df (<=~150 here) and |M|
    if a[0] != b[0]:
        return False
    if a[0] in "EX":
        return a[1] == b[1]
    if a[3] != b[3]:
        return False
    xs = [a[1], a[2]] + list(a[4:])
    ys = [b[1], b[2]] + list(b[4:])
    if any(x != x for x in xs + ys):
        return all((x != x) == (y != y) for x, y in zip(xs, ys))
    sp = max(1e-300, max(abs(t) for t in xs[2:5] + ys[2:5]))
    sv = max(1e-300, max(abs(t) for t in xs[5:8] + ys[5:8]))
    return (xs[0] == ys[0] and xs[1] == ys[1] and all(abs(x - y) <= rel * sp for x, y in zip(xs[2:5], ys[2:5]))
            and all(abs(x - y) <= rel * sv for x, y in zip(xs[5:8], ys[5:8])))


def coq_args(c):
    v = c["vals"]

    def st(n):
        if n not in c["names"]:
            return "Absent"
        x = v[n]
        return "GivenNaN" if (x != x or (NONFINITE_REJECTED and isinstance(x, float) and abs(x) == float("inf"))) else "Given"
    b = lambda x: "true" if x else "false"
    # value bit a_azero: the semi-major axis the front end would use (passed, or computed from P) compares equal to 0
    m = v["m"] if "m" in c["names"] else 0.0
    pm = c["prim"][0] if ("primary" in c["names"] or c["nsim"] != 0) else 0.0
    if st("a") == "Given":
        az = v["a"] == 0.0
    elif st("a") == "Absent" and st("P") == "Given":
        az = math.cbrt(v["P"] * v["P"] * c["G"] * (pm + m) / (4. * math.pi * math.pi)) == 0.0
    else:
        az = False
    return "(mkArgs %s %s %s %s %s)" % (b(c["nsim"] >= 0), b("primary" in c["names"]), b("hash" in c["names"]),
                                        " ".join(st(n) for n in DARGS), b(az))


# ----------------------------------------------------------------------------- numerics correspondence
class Rec:
    """records the libm values a mirror of the C routine asks for (the mirror only decides WHICH arguments are
    looked up; the arithmetic compared with the library is done by the Coq model)."""
    def __init__(self, L):
        self.L = L
        self.t = {k: {} for k in ("sin", "cos", "sinh", "cosh", "log", "tan", "tanh", "atan")}
        self.t2 = {"fmod": {}, "copysign": {}}

    def f(self, name, x):
        y = getattr(self.L.libm, name)(x)
        self.t[name][vlib.bits(x) if x == x else -1] = (x, y)
        return y

    def g(self, name, x, y):
        z = getattr(self.L.libm, name)(x, y)
        self.t2[name][(vlib.bits(x) if x == x else -1, vlib.bits(y) if y == y else -1)] = (x, y, z)
        return z

    def mod2pi(self, x):
        pi2 = 2. * math.pi
        return self.g("fmod", pi2 + self.g("fmod", x, pi2), pi2)

    def M_to_E(self, e, M):
        if e < 1.:
            M = self.mod2pi(M)
            E = M if e < 0.8 else math.pi
            F = E - e * self.f("sin", E) - M
            for _ in range(100):
                E = E - F / (1. - e * self.f("cos", E))
                F = E - e * self.f("sin", E) - M
                if abs(F) < 1.e-16:
                    break
            return self.mod2pi(E)
        E = self.g("copysign", self.f("log", 2. * abs(M) / e + 1.8), M)
        F = E - e * self.f("sinh", E) + M
        for _ in range(100):
            E = E - F / (1.0 - e * self.f("cosh", E))
            F = E - e * self.f("sinh", E) + M
            if abs(F) < 1.e-16:
                break
        return E

    def E_to_f(self, e, E):
        if e > 1.:
            return self.mod2pi(2. * self.f("atan", math.sqrt((1. + e) / (e - 1.)) * self.f("tanh", 0.5 * E)))
        return self.mod2pi(2. * self.f("atan", math.sqrt((1. + e) / (1. - e)) * self.f("tan", 0.5 * E)))

    def coq(self):
        H = vlib.fhex
        one = lambda d: "[" + "; ".join("(%s, %s)" % (H(x), H(y)) for x, y in d.values()) + "]"
        two = lambda d: "[" + "; ".join("(%s, %s, %s)" % (H(x), H(y), H(z)) for x, y, z in d.values()) + "]"
        return "(mkTables %s %s %s)" % (" ".join(one(self.t[k]) for k in ("sin", "cos", "sinh", "cosh", "log", "tan", "tanh", "atan")),
                                        two(self.t2["fmod"]), two(self.t2["copysign"]))


def gen_numeric_cases(L, rng, n_fo, n_kep):
    cases = []     # (kind, coq_term, expected_list, descr)
    H = vlib.fhex
    na, nb, tn = math.nextafter(1.0, 0.0), math.nextafter(1.0, 2.0), 1e-308
    corners = []
    for pmass in (tn, math.nextafter(tn, 0.0), math.nextafter(tn, 1.0), 5e-324, -1.0, 1e308):
        corners.append(dict(pm=pmass))
    for a in (-0.0, 0.0, 5e-324, -5e-324, 1e308, -1e308, 1e-160, 1e160):
        corners.append(dict(a=a, e=2.0 if a < 0 else 0.3))
    for e in (-0.0, 5e-324, na, nb, 1.0, -5e-324):
        corners.append(dict(e=e, a=-1.0 if e > 1 else 1.0))
    for inc, f in ((-0.0, -0.0), (math.pi, math.pi), (math.pi, -math.pi), (0.0, math.pi), (math.pi / 2, 0.0), (float("inf"), 0.0), (0.3, float("inf"))):
        corners.append(dict(inc=inc, f=f))
    for G, m in ((0.0, 1e-3), (-1.0, 1e-3), (1.0, -2.0), (1.0, float("inf")), (1e308, 1e-3), (5e-324, 0.0)):
        corners.append(dict(G=G, m=m))
    for i in range(n_fo):
        hyper = rng.random() < 0.35
        a = (-1 if hyper else 1) * 10 ** rng.uniform(-3, 4)
        e = rng.uniform(1.0001, 8) if hyper else rng.choice([0.0, rng.uniform(0, 0.9999), rng.uniform(0, 0.9)])
        inc, Om, om = rng.choice([0.0, math.pi, rng.uniform(0, math.pi)]), special_angle(rng), special_angle(rng)
        f = rng.uniform(-1, 1) * math.acos(-1 / e) * rng.choice([0.9, 1.0, 1.1]) if hyper else special_angle(rng)
        G = rng.choice([1.0, 39.47841760435743, 6.6743e-1])
        m = rng.choice([0.0, 10 ** rng.uniform(-8, 0)])
        pr = [rng.choice([rng.uniform(0.1, 3), rng.uniform(0.1, 3), 0.0, 1e-309])] + [rng.gauss(0, 1) for _ in range(6)]
        u = rng.random()
        if u < 0.05: e = 1.0
        elif u < 0.10: e = -rng.uniform(0, 1)
        elif u < 0.15: a = -a
        elif u < 0.17: a = 0.0
        if i < len(corners):          # the edges of the domain (deterministic)
            cn = corners[i]
            G = cn.get("G", 1.0); m = cn.get("m", 1e-3); a = cn.get("a", 1.5); e = cn.get("e", 0.3 if a > 0 else 2.0)
            inc = cn.get("inc", 0.4); f = cn.get("f", 0.7); Om, om = 1.1, 2.2
            pr = [cn.get("pm", 1.0), 0.1, -0.2, 0.3, 0.01, 0.02, -0.03]
        err = ctypes.c_int(0)
        p = L.clib.reb_particle_from_orbit_err(G, L.mk_prim(pr), m, a, e, inc, Om, om, f, ctypes.byref(err))
        tr = [L.libm.cos(Om), L.libm.sin(Om), L.libm.cos(om), L.libm.sin(om), L.libm.cos(f), L.libm.sin(f),
              L.libm.cos(inc), L.libm.sin(inc)]
        comps = [p.m, p.x, p.y, p.z, p.vx, p.vy, p.vz]
        if err.value:
            exp = [float(err.value)]
            nanp = all(x != x for x in comps)
        else:
            exp = [0.0] + comps
            nanp = True
        term = "(fo %s %s %s %s %s %s)" % (H(G), " ".join(H(x) for x in pr), H(m), H(a), H(e), vlib.flist(tr))
        cases.append(("from_orbit", term, exp, {"G": G, "prim": pr, "m": m, "a": a, "e": e, "inc": inc, "Omega": Om,
                                                "omega": om, "f": f, "err": err.value, "nan_particle_on_error": nanp}))
    hard = [(0.999, 0.0), (0.999, 1e-8), (0.9999, 1e-6), (1 - 1e-9, 1e-12), (0.99, 1e-3), (0.995, 6.283), (0.9, 0.0),
            (1.0000001, 1e-9), (1.001, 0.0), (50.0, -100.0)]
    for i in range(n_kep):
        kind = ("m2e", "e2f", "m2f", "m2pi")[i % 4]
        hyper = rng.random() < 0.4
        if i < 2 * len(hard):
            e, x = hard[i // 2]
            kind = ("m2e", "m2f")[i % 2]
            R = Rec(L)
            if kind == "m2e":
                got = L.clib.reb_M_to_E(e, x); R.M_to_E(e, x)
            else:
                got = L.clib.reb_M_to_f(e, x); R.E_to_f(e, R.M_to_E(e, x))
            cases.append((kind, "(%s %s %s %s)" % (kind, R.coq(), H(e), H(x)), [got], {"e": e, "arg": x}))
            continue
        e = rng.choice([1.0, 1.0 + 1e-9, rng.uniform(1, 3), rng.uniform(1, 50)]) if hyper else \
            rng.choice([0.0, 0.8, 0.7999999, rng.uniform(0, 1), rng.uniform(0, 1), 1 - 10 ** rng.uniform(-12, -1)])
        x = rng.choice([0.0, -0.0, 1e-300, -1e-300, 2 * math.pi, -2 * math.pi, math.pi, 6 * math.pi,
                        rng.uniform(-20, 20), rng.uniform(-20, 20), rng.uniform(-1e-3, 1e-3), rng.uniform(-1e4, 1e4)])
        if e == 1.0 and kind in ("e2f", "m2f"):
            e = 1.0 + 2.0 ** -40          # e == 1 divides by zero in reb_E_to_f and is outside the property's domain
        R = Rec(L)
        if kind == "m2e":
            got = L.clib.reb_M_to_E(e, x); R.M_to_E(e, x)
        elif kind == "e2f":
            if hyper: x = max(-30., min(30., x))
            got = L.clib.reb_E_to_f(e, x); R.E_to_f(e, x)
        elif kind == "m2f":
            got = L.clib.reb_M_to_f(e, x); R.E_to_f(e, R.M_to_E(e, x))
        else:
            got = L.clib.reb_mod2pi(x); R.mod2pi(x)
        term = "(%s %s %s)" % (kind, R.coq(), H(x)) if kind == "m2pi" else "(%s %s %s %s)" % (kind, R.coq(), H(e), H(x))
        cases.append((kind, term, [got], {"e": e, "arg": x}))
    return cases


def nbody_c_vs_python(ctx, L, drv, ctab):
    """k-th planet (k = 1..4): Python's default primary is reb_simulation_com of what is already there; the same request
    through the C front end with that centre of mass must give the same particle (and through reb_simulation_add_fmt)."""
    rb = L.rebound
    L.clib.reb_simulation_com.restype = rb.Particle
    rng = ctx.rng
    cs, pys = [], []
    for i in range(ctx.scale(96, 960)):
        k = 1 + i % 4
        sim = rb.Simulation()
        sim.G = rng.choice([1.0, 39.47841760435743]); sim.t = rng.choice([0.0, 1.5])
        sim.add(m=rng.uniform(0.5, 2))
        for j in range(k - 1):
            sim.add(m=10 ** rng.uniform(-3.5, -2.3), a=1.0 + 0.6 * j, e=rng.uniform(0, 0.05), f=rng.uniform(0, 6))
        cm = L.clib.reb_simulation_com(ctypes.byref(sim))
        size = ("a", "P")[(i // 4) % 2]
        an = ("f", "M", "E", "l", "theta", "T")[(i // 8) % 6]
        vals = {"m": rng.choice([0.0, 1e-4]), size: rng.uniform(3, 8), "e": rng.uniform(0, 0.5), "inc": rng.uniform(0, 3),
                "Omega": rng.uniform(0, 6), rng.choice(["omega", "pomega"]): rng.uniform(0, 6), an: rng.uniform(0.2, 6)}
        try:
            p = rb.Particle(simulation=sim, **vals)
            pys.append(("P", p.m, p.r, p.hash.value, p.x, p.y, p.z, p.vx, p.vy, p.vz))
        except ValueError as ex:
            pys.append(("E", [cd for pat, cd in PY_ERR if str(ex).startswith(pat)][0]))
        names = [n for n in OPT if n in vals or n == "primary"]
        cs.append({"G": sim.G, "t": sim.t, "prim": [cm.m, cm.x, cm.y, cm.z, cm.vx, cm.vy, cm.vz], "nsim": 1, "names": names, "vals": vals, "k": k})
    r = subprocess.run([drv], input="\n".join(case_line(c) for c in cs) + "\n", capture_output=True, text=True, timeout=600)
    lines = r.stdout.strip().split("\n")
    if r.returncode != 0 or len(lines) != len(cs):
        ctx.obligation("c-driver ran (k-th planet)", False, r.stderr[-300:])
        return
    for c, l, po in zip(cs, lines, pys):
        ctx.evaluations += 1
        co = parse_driver_line(l, ctab)
        conv = "P" in c["names"] or "T" in c["names"]
        ok = close_outcome(co, po) if conv else same_outcome(co, po)
        if not ok:
            ctx.violation("nbody:c-vs-python", {"kind": "nbody-c", "k": c["k"], "names": c["names"],
                          "vals": {a: float(b).hex() for a, b in c["vals"].items()}, "primary(com)": c["prim"], "c": str(co), "python": str(po)}, True,
                          "k-th planet: Python (default primary) and C (centre of mass as primary) build different particles")
            break


# ----------------------------------------------------------------------------- run
def run(ctx):
    libdir = ctx.lib()
    proved = ctx.prove("C11", extra_targets=["C11/Run.vo"])
    L = Lib(libdir)
    drv = build_driver(libdir)
    ctab = c_err_table()
    ctx.obligation("regenerate:error-strings of reb_string_for_particle_error (16 classes read from src/tools.c)",
                   len(ctab) == 16 and sorted(ctab.values()) == list(range(1, 17)), str(sorted(ctab.values())))
    rng = ctx.rng

    # ---------------- (a) parser cases
    cases = []
    for k in range(0, 4):
        for sub in itertools.combinations(OPT, k):
            cases.append(gen_case(rng, set(sub), allow_nan=False))
    n_small = len(cases)
    nrand = ctx.scale(3000, 20000)
    for i in range(nrand):
        u = rng.random()
        if i % 3 == 0:
            # a well-formed orbit request (so that every construction path is exercised often), sometimes spoiled
            names = {rng.choice(["a", "a", "P"])} | {n for n in ("m", "r", "hash", "primary", "e", "inc", "Omega") if rng.random() < 0.6}
            if i % 15 == 0:
                names |= {n for n in ("h", "k", "ix", "iy", "l") if rng.random() < 0.6}
                names -= {"e", "inc", "Omega"}
                if rng.random() < 0.7:
                    names.discard("primary")
            else:
                names |= {rng.choice(["omega", "pomega", "m"]), rng.choice(["f", "M", "E", "l", "theta", "T", "m"])}
            if rng.random() < 0.1:
                names.add(rng.choice(OPT))
            cases.append(gen_case(rng, names))
            continue
        if u < 0.5:
            k = rng.randint(2, 7)
        elif u < 0.8:
            k = rng.randint(4, 12)
        else:
            k = rng.randint(0, len(OPT))
        names = set(rng.sample(OPT, k))
        if rng.random() < 0.6:
            names.add(rng.choice(["a", "P"]))        # make accepted orbits frequent
        if rng.random() < 0.3:
            names -= {"x", "y", "z", "vx", "vy", "vz"}
        if rng.random() < 0.3:
            names -= {"h", "k", "ix", "iy"}
        cases.append(gen_case(rng, names))
    ctx.log("parser cases: %d (all subsets of <=3 optional arguments: %d)" % (len(cases), n_small))
    r = subprocess.run([drv], input="\n".join(case_line(c) for c in cases) + "\n", capture_output=True, text=True, timeout=600)
    lines = r.stdout.strip().split("\n")
    if r.returncode != 0 or len(lines) != len(cases):
        ctx.obligation("c-driver ran", False, "rc=%s lines=%d/%d %s" % (r.returncode, len(lines), len(cases), r.stderr[-500:]))
        return
    c_out = [parse_driver_line(l, ctab) for l in lines]
    # the adding wrapper reb_simulation_add_fmt must add exactly the particle reb_particle_from_fmt returns, and nothing on error
    addbad = []
    for i, l in enumerate(lines):
        f = l.partition("|")[0].split()
        dN, same = int(f[10]), int(f[11])
        if dN == -9:
            continue
        if (c_out[i][0] == "E" and dN != 0) or (c_out[i][0] == "P" and (dN != 1 or same != 1)):
            addbad.append(i)
    if addbad:
        i = addbad[0]
        ctx.violation("parser:add_fmt-wrapper", {"kind": "parser", "case": {k: cases[i][k] for k in ("G", "t", "prim", "nsim", "names")},
                      "vals": {k: (v.hex() if isinstance(v, float) else v) for k, v in cases[i]["vals"].items()},
                      "reb_particle_from_fmt": str(c_out[i]), "driver_line": lines[i]}, True,
                      "reb_simulation_add_fmt does not add exactly what reb_particle_from_fmt returns (%d cases): particles added on error, or a different particle" % len(addbad))
    py_out = [L.run_py(c) for c in cases]
    # decisions inside Coq
    jobs = []
    chunk = 700
    for c0 in range(0, len(cases), chunk):
        body = ("From Coq Require Import List ZArith.\nFrom RV Require Import C11.Parser C11.Run.\nImport ListNotations.\n"
                "Definition cases : list args := [\n" + ";\n".join(coq_args(c) for c in cases[c0:c0 + chunk]) +
                "].\nEval vm_compute in (decisions cases).\n")
        jobs.append(("c11_dec_%d" % (c0 // chunk), body))
    decs = []
    dec_ok = True
    for name, ok, out in vlib.coq_eval_many(jobs):
        pairs = re.findall(r"\(\s*(\d+),\s*(\d+)\s*\)", out.split("list (Z * Z)")[0]) if ok else None
        if not ok or pairs is None:
            dec_ok = False
            ctx.obligation("correspondence:C11:" + name, False, out[-1200:])
            pairs = []
        decs += [(int(a), int(b)) for a, b in pairs]
    if len(decs) != len(cases):
        dec_ok = False
        ctx.obligation("correspondence:C11 decisions evaluated for every case", False, "%d of %d" % (len(decs), len(cases)))
    bad_c, bad_py, cross = [], [], []
    dist = {}
    if dec_ok:
        for i, c in enumerate(cases):
            dc, dp = decs[i]
            ec = L.expect("c", dc, c)
            ep = L.expect("py", dp, c)
            if not same_outcome(ec, c_out[i]):
                bad_c.append(i)
            if not same_outcome(ep, py_out[i]):
                bad_py.append(i)
            kc = "E%d" % c_out[i][1] if c_out[i][0] == "E" else ("cart" if dc == 100 else "pal" if dc in (200, 201) else "classical")
            dist[kc] = dist.get(kc, 0) + 1
            ctx.case(key=(dc, dp, c_out[i][0]), sample={"names": c["names"], "c_decide": dc, "py_decide": dp} if i in (500, 3500, 4000) else None)
    ctx.traces = 2 * len(cases) if dec_ok and not bad_c and not bad_py else 0
    show = lambda i, outs: {"names": cases[i]["names"], "vals": {k: (v.hex() if isinstance(v, float) else v) for k, v in cases[i]["vals"].items()},
                            "nsim": cases[i]["nsim"], "decisions(c,py)": decs[i], "observed": str(outs[i])[:200]}
    ctx.obligation("correspondence:C11 c_decide (evaluated in Coq) predicts reb_particle_from_fmt: error class / particle bits on %d argument sets" % len(cases),
                   dec_ok and not bad_c, str([show(i, c_out) for i in bad_c[:3]]))
    ctx.obligation("correspondence:C11 py_decide (evaluated in Coq) predicts rebound.Particle(...): error class / particle bits on %d argument sets" % len(cases),
                   dec_ok and not bad_py, str([show(i, py_out) for i in bad_py[:3]]))

    # C vs Python directly (library only): accept/reject the same combinations, same particle
    n_nan = n_pp = n_x = n_cls = 0
    found = {}
    for i, c in enumerate(cases):
        hasnan = any(isinstance(x, float) and (x != x or abs(x) == float("inf")) for x in c["vals"].values())
        converted = ("P" in c["names"] or "T" in c["names"])
        ok = close_outcome(c_out[i], py_out[i]) if converted else same_outcome(c_out[i], py_out[i])
        if py_out[i][0] == "X" and c_out[i][0] == "E":
            n_x += 1                 # both reject; Python through a ZeroDivisionError of its own P/T conversion
            ok = True
        if ok:
            continue
        if c_out[i][0] == "E" and py_out[i][0] == "E":
            n_cls += 1               # both reject, different error class (predicted by the models; not an accept/reject difference)
            continue
        rep = {"kind": "parser", "case": {k: c[k] for k in ("G", "t", "prim", "nsim", "names")},
               "vals": {k: (v.hex() if isinstance(v, float) else v) for k, v in c["vals"].items()},
               "c": str(c_out[i]), "python": str(py_out[i])}
        hasinf = any(isinstance(x, float) and abs(x) == float("inf") for x in c["vals"].values())
        if hasinf and not NONFINITE_REJECTED:
            n_nan += 1
            found.setdefault("silent-nan:infinite-argument", (rep, "an infinite argument is accepted (not rejected like NaN) and the two front ends then build different / NaN particles"))
        elif hasnan:
            n_nan += 1
            found.setdefault("parser:nan-valued-argument", (rep, "C and Python front ends treat a NaN-valued argument differently (both must reject it with error 16)"))
        else:
            cross.append(rep)
    for key, (rep, what) in found.items():
        ctx.violation(key, rep, True, what)
    if cross:
        ctx.violation("parser:c-vs-python", cross[0], True,
                      "C and Python front ends disagree on the same arguments (%d cases)" % len(cross))
    ctx.extra["parser_outcome_distribution"] = dist
    ctx.extra["parser_known_disagreements_seen"] = {"nan-valued": n_nan, "python ZeroDivisionError where C returns an error code": n_x, "both reject with different error class": n_cls}

    # ---------------- (b) numerics: Coq binary64 model vs library
    ctx.log("parser part done")
    ncases = gen_numeric_cases(L, rng, ctx.scale(400, 4000), ctx.scale(400, 4000))
    ncases += c11_mirror.gen_cases(L, rng, ctx.scale(400, 4000), ctx.scale(300, 3000))
    ncases += c11_mirror.gen_sim_cases(L, rng, ctx.scale(60, 600))
    ncases += c11_mirror.gen_flow_sim_cases(L, rng, ctx.scale(192, 1920))
    # the value flow of both front ends (Flow.v at binary64 + model of reb_particle_from_orbit_err) against what
    # reb_particle_from_fmt / rebound.Particle returned for the accepted classical requests of part (a)
    nflow = 0
    if dec_ok:
        for i, c in enumerate(cases):
            dc, dp = decs[i]
            if dc < 1000 or dc != dp or nflow >= ctx.scale(300, 3000):
                continue
            if "primary" in c["names"]:
                prim = list(c["prim"])
            else:
                cm = L.clib.reb_simulation_com(ctypes.byref(L.mk_sim(c)))
                prim = [cm.m, cm.x, cm.y, cm.z, cm.vx, cm.vy, cm.vz]
            for front, out in (("c", c_out[i]), ("py", py_out[i])):
                if out[0] == "E":
                    exp = [float(out[1])]
                elif out[0] == "P":
                    exp = [0.0, out[1]] + list(out[4:10])
                else:
                    continue
                ncases.append(("flow_" + front, c11_mirror.flow_case(L, c, dc, front, prim), exp,
                               {"names": c["names"], "vals": {k: (v.hex() if isinstance(v, float) else v) for k, v in c["vals"].items()}, "decision": dc}))
            nflow += 1
    jobs = []
    chunk = 100
    for c0 in range(0, len(ncases), chunk):
        body = ("From Coq Require Import List ZArith PrimFloat.\nFrom RV Require Import Common.FloatNum C11.Orbit C11.Run.\n"
                "Import ListNotations.\nOpen Scope float_scope.\nDefinition cases : list (list float * list float) := [\n" +
                ";\n".join("(%s, %s)" % (t, vlib.flist(e)) for _, t, e, _ in ncases[c0:c0 + chunk]) +
                "].\nEval vm_compute in (bad_cases cases).\n")
        jobs.append(("c11_num_%d" % (c0 // chunk), body))
    bad_total = []
    corr_ok = True
    for (name, ok, out), c0 in zip(vlib.coq_eval_many(jobs), range(0, len(ncases), chunk)):
        bad = vlib.parse_coq_list_nat(out) if ok else None
        if bad is None:
            corr_ok = False
            ctx.obligation("correspondence:C11:" + name, False, out[-1500:])
        else:
            bad_total += [c0 + b for b in bad]
    nan_bad = [d for k, _, _, d in ncases if k == "from_orbit" and not d["nan_particle_on_error"]]
    from collections import Counter
    ctx.extra["numeric_cases"] = dict(Counter(k for k, _, _, _ in ncases))
    ctx.obligation("correspondence:C11 model(binary64, libm tables) == reb_particle_from_orbit_err / reb_mod2pi / reb_M_to_E / reb_E_to_f / reb_M_to_f / reb_orbit_from_particle_err / reb_tools_solve_kepler_pal / reb_particle_from_pal / reb_tools_particle_to_pal / value flow of both front ends / orbits read from live simulations (t != 0) bit-for-bit on %d cases" % len(ncases),
                   corr_ok and not bad_total, "mismatching (%d): %s" % (len(bad_total), [(ncases[b][0], ncases[b][3]) for b in bad_total[:4]]))
    ctx.obligation("correspondence:C11 an error code of reb_particle_from_orbit_err comes with an all-NaN particle",
                   not nan_bad, str(nan_bad[:2]))
    if corr_ok and not bad_total:
        ctx.traces += len(ncases)
    for k, _, _, d in ncases:
        ctx.case(key=(k, d.get("err", 0), (d.get("e", 0) if "e" in d else d.get("case", {}).get("e", 0)) > 1))

    # ---------------- (c) searcher
    ctx.log("numerics done")
    S.search(ctx, L)
    nbody_c_vs_python(ctx, L, drv, ctab)

    ctx.rule = ("parser: all subsets of <=3 of the 27 optional arguments + random subsets (sizes 0..27), with/without simulation, "
                "empty simulation, NaN values; distinct by (c_decide, py_decide, outcome). numerics: random/grid e in [0,1)u(1,50], "
                "special angles; distinct by (routine, error code, hyperbolic). searcher: see c11_search.py")
    ctx.assumptions += [
        "theorems about reb_particle_from_orbit_err are over Coq reals with cos/sin values constrained only by c^2+s^2=1; the binary64 instance of the same term is compared with the library",
        "parser models cover the arguments common to both front ends; Python-only conveniences (particle=, variation=, pal_* aliases, 'uniform', jacobi_masses, date) are outside",
        "libm is trusted: its values enter the float models as recorded tables",
        "reb_orbit_from_particle_err, reb_particle_from_pal and reb_tools_particle_to_pal are not modelled in Coq; they are covered by the searcher only",
    ]


def replay(ctx, rep):
    import json
    print(json.dumps(rep, indent=1))
    libdir = ctx.lib()
    L = Lib(libdir)
    r = rep.get("replay", {})
    if r.get("kind") == "parser":
        c = dict(r["case"])
        c["vals"] = {k: (float.fromhex(v) if isinstance(v, str) else v) for k, v in r["vals"].items()}
        drv = build_driver(libdir)
        out = subprocess.run([drv], input=case_line(c) + "\n", capture_output=True, text=True).stdout.strip()
        print("C     :", out)
        print("Python:", L.run_py(c))
        return 1
    return S.replay(ctx, L, r)
