#!/venv/bin/python
"""C12 translator: the call sites of the coordinate transformations inside the integrators.

Regenerates coq/Gen/C12Sites.v from $VERIF_REPO/src/integrator_{whfast,mercurius,trace}.c:
  * every call  reb_particles_transform_<name>(...)  in integrator_whfast.c with the expressions that the
    enclosing function binds to its N and N_active arguments (local definitions substituted, casts and blanks removed);
  * the N_active expression of the in-place heliocentric shifts of MERCURIUS and TRACE
    (reb_integrator_{mercurius,trace}_{inertial_to_dh,dh_to_inertial}).
coq/C12/Sites.v proves (by evaluation over the regenerated table) that all sites use ONE active/test-particle split,
so that the forward and inverse transformations an integrator applies are the mutually inverse pair of the
theorems of Props.v.  Fail-closed: any call or definition that does not have the expected shape aborts.
"""
import os, re, sys

REPO = os.environ.get("VERIF_REPO", "/repo")
ROOT = os.path.dirname(os.path.dirname(os.path.abspath(__file__)))
OUT = os.path.join(ROOT, "coq", "Gen", "C12Sites.v")


def die(msg):
    sys.stderr.write("translate_xfsites: " + msg + "\n")
    sys.exit(1)


def strip_comments(src):
    src = re.sub(r"/\*.*?\*/", lambda m: "\n" * m.group(0).count("\n"), src, flags=re.S)
    return re.sub(r"//[^\n]*", "", src)


def functions(src):
    """top-level function definitions: name -> body text (between the braces)."""
    out = []
    lines = src.split("\n")
    i = 0
    while i < len(lines):
        ln = lines[i]
        m = re.match(r"^[A-Za-z_][^;{}()]*?\b([A-Za-z_]\w*)\s*\([^;{}]*\)\s*\{\s*$", ln)
        if m and not ln.startswith(("if", "for", "while", "switch", "else", "typedef", "struct", "#")):
            depth = ln.count("{") - ln.count("}")
            j = i + 1
            body = []
            while j < len(lines) and depth > 0:
                depth += lines[j].count("{") - lines[j].count("}")
                body.append(lines[j])
                j += 1
            if depth != 0:
                die("unbalanced braces in function " + m.group(1))
            out.append((m.group(1), "\n".join(body)))
            i = j
        else:
            i += 1
    return out


def norm(e):
    e = re.sub(r"\s+", "", e)
    e = re.sub(r"\((?:unsigned|int|unsignedint|intunsigned)\)", "", e)
    while e.startswith("(") and e.endswith(")") and balanced(e[1:-1]):
        e = e[1:-1]
    return e


def balanced(s):
    d = 0
    for c in s:
        if c == "(":
            d += 1
        elif c == ")":
            d -= 1
            if d < 0:
                return False
    return d == 0


DECL = r"(?:const\s+)?(?:unsigned\s+int|int\s+unsigned|unsigned|int)\s+%s\s*=\s*([^;]+);"


def local_def(body, name, fn):
    ms = re.findall(DECL % re.escape(name), body)
    if not ms:
        return None
    ds = {norm(x) for x in ms}
    if len(ds) != 1:
        die("function %s defines %s in %d different ways: %s" % (fn, name, len(ds), sorted(ds)))
    return ds.pop()


def split_args(s):
    args, d, cur = [], 0, ""
    for c in s:
        if c == "(":
            d += 1
        if c == ")":
            d -= 1
        if c == "," and d == 0:
            args.append(cur.strip()); cur = ""
        else:
            cur += c
    args.append(cur.strip())
    return args


def coqstr(s):
    if '"' in s:
        die("quote in expression " + s)
    return '"' + s + '"'


def main():
    sites = []
    for cfile in ("integrator_whfast.c", "integrator_saba.c"):
        sites += file_sites(cfile)
    return finish(sites)


def file_sites(cfile):
    sites = []
    src = strip_comments(open(os.path.join(REPO, "src", cfile)).read())
    ncalls_text = len(re.findall(r"reb_particles_transform_\w+\s*\(", src))
    for fn, body in functions(src):
        calls = re.findall(r"reb_particles_transform_(\w+)\s*\(([^;]*)\)\s*;", body)
        if not calls:
            continue
        na_def = local_def(body, "N_active", fn)
        nreal = local_def(body, "N_real", fn)
        nn = local_def(body, "N", fn)
        if na_def is None:
            die("function %s calls a transformation but does not define N_active locally" % fn)
        if nreal is not None and nn is not None:
            nreal = re.sub(r"(?<![>\w])N(?!\w)", nn, nreal)       # N_real = N - r->N_var with a local N = r->N
        if nreal is not None:
            na_def = re.sub(r"\bN_real\b", nreal, na_def)
        if nn is not None:
            na_def = re.sub(r"(?<![>\w])N(?!\w)", nn, na_def)
        for callee, argtxt in calls:
            args = split_args(argtxt)
            if len(args) == 5:
                n_arg, na_arg = args[3], args[4]
            elif len(args) == 4:
                n_arg, na_arg = args[2], args[3]
            else:
                die("call of reb_particles_transform_%s in %s has %d arguments" % (callee, fn, len(args)))
            if na_arg != "N_active":
                die("call of reb_particles_transform_%s in %s passes %r as N_active" % (callee, fn, na_arg))
            if n_arg == "N_real":
                if nreal is None: die("N_real not defined in " + fn)
                n_expr = nreal
            elif n_arg == "N":
                if nn is None: die("N not defined in " + fn)
                n_expr = nn
            else:
                die("call of reb_particles_transform_%s in %s passes %r as N" % (callee, fn, n_arg))
            sites.append((cfile, fn, callee, n_expr, na_def))
    if len(sites) != ncalls_text:
        die("found %d transformation calls in the text of %s but parsed %d call sites" % (ncalls_text, cfile, len(sites)))
    return sites


def finish(sites):
    shifts = []
    for f, prefix in (("integrator_mercurius.c", "reb_integrator_mercurius_"), ("integrator_trace.c", "reb_integrator_trace_")):
        src = strip_comments(open(os.path.join(REPO, "src", f)).read())
        fns = dict(functions(src))
        for nm in ("inertial_to_dh", "dh_to_inertial"):
            if prefix + nm not in fns:
                die("%s%s not found in %s" % (prefix, nm, f))
            d = local_def(fns[prefix + nm], "N_active", prefix + nm)
            if d is None:
                die("%s%s does not define N_active" % (prefix, nm))
            shifts.append((f, prefix + nm, d))
    with open(OUT, "w") as o:
        o.write("(* GENERATED by tools/translate_xfsites.py from src/integrator_{whfast,mercurius,trace}.c -- do not edit *)\n")
        o.write("From Coq Require Import String List.\nImport ListNotations.\nOpen Scope string_scope.\n\n")
        o.write("(* (file, function, transformation, expression passed as N, expression passed as N_active) *)\n")
        o.write("Definition xf_sites : list (string * string * string * string * string) := [\n")
        o.write(";\n".join("  (%s, %s, %s, %s, %s)" % tuple(coqstr(x) for x in s) for s in sites))
        o.write("\n].\n\n(* (file, function, N_active expression) of the in-place heliocentric shifts *)\n")
        o.write("Definition dh_shift_defs : list (string * string * string) := [\n")
        o.write(";\n".join("  (%s, %s, %s)" % tuple(coqstr(x) for x in s) for s in shifts))
        o.write("\n].\n")
    print("C12Sites.v: %d transformation call sites, %d heliocentric shift definitions" % (len(sites), len(shifts)))


if __name__ == "__main__":
    main()
