"""C01: call the exported reb_calculate_and_apply_jerk of the freshly built library on random states (child process).
usage: c01_jerk_cases.py <seed> <ncases>   -> JSON list of cases (all floats as hex strings)."""
import ctypes, json, random, sys
import rebound

def main():
    rng = random.Random(int(sys.argv[1])); n = int(sys.argv[2])
    out = []
    for k in range(n):
        N = rng.choice([2, 3, 3, 4, 5, 6])
        sim = rebound.Simulation()
        sim.G = rng.choice([1.0, 4 * 3.141592653589793 ** 2, rng.uniform(0.1, 10)])
        bodies = []
        for i in range(N):
            m = rng.choice([0.0, 10 ** rng.uniform(-6, 0)]) if i else 1.0
            row = [m] + [rng.gauss(0, 2) for _ in range(3)] + [rng.gauss(0, 1) for _ in range(3)]
            vel = [rng.gauss(0, 1) for _ in range(3)]
            sim.add(m=row[0], x=row[1], y=row[2], z=row[3], vx=vel[0], vy=vel[1], vz=vel[2])
            bodies.append((row, vel))
        for i in range(N):
            sim.particles[i].ax, sim.particles[i].ay, sim.particles[i].az = bodies[i][0][4:7]
        nact = rng.choice([-1, N, rng.randint(1, N)])
        tp = rng.choice([0, 1])
        ign = rng.choice([0, 1, 2])
        sim.N_active = nact; sim.testparticle_type = tp; sim.gravity_ignore = ign
        v = rng.gauss(0, 1e-3)
        rebound.clibrebound.reb_calculate_and_apply_jerk(ctypes.byref(sim), ctypes.c_double(v))
        res = [c for i in range(N) for c in (sim.particles[i].vx, sim.particles[i].vy, sim.particles[i].vz)]
        out.append({"v": v.hex(), "G": float(sim.G).hex(), "bodies": [[x.hex() for x in b[0]] for b in bodies],
                    "vel": [[x.hex() for x in b[1]] for b in bodies], "nact": N if nact == -1 else nact, "N": N,
                    "ignore": ign, "tp": tp, "result": [x.hex() for x in res]})
    print(json.dumps(out))

main()
