#!/venv/bin/python
"""Confirm a seeded mutation and run our checks against it, without touching /repo.

  tools/seedtest.py <name> <property> <dir with patch.diff + demo.py> [--checks C05,C17] [--tier quick] [--skip-tests]

Steps (all in a scratch worktree /tmp/seed_<name>, removed afterwards):
  1. demo on the unmodified tree must PASS (exit 0);  2. apply patch.diff; library must compile;
  3. demo must FAIL (exit != 0);  4. the pinned test suite must still give 873 passed;
  5. run ./check <P> with VERIF_REPO=<worktree> for each requested property; record VIOLATION lines.
Writes /verif/seeded/<name>/{patch.diff, demo.py (or demo.*), README.md, meta.json}.
"""
import argparse, json, os, shutil, subprocess, sys, time
ROOT = os.path.dirname(os.path.dirname(os.path.abspath(__file__)))
sys.path.insert(0, os.path.join(ROOT, "tools"))

def sh(cmd, **kw):
    return subprocess.run(cmd, shell=True, capture_output=True, text=True, **kw)

def build(wt):
    r = sh("cd %s && VERIF_REPO=%s /venv/bin/python -c \"import sys; sys.path.insert(0,'tools'); import vlib; print(vlib.build_lib())\"" % (ROOT, wt))
    if r.returncode != 0:
        return None, r.stdout + r.stderr
    return r.stdout.strip().splitlines()[-1], ""

def main():
    ap = argparse.ArgumentParser()
    ap.add_argument("name"); ap.add_argument("prop"); ap.add_argument("src")
    ap.add_argument("--checks", default=None); ap.add_argument("--tier", default="quick")
    ap.add_argument("--skip-tests", action="store_true")
    a = ap.parse_args()
    a.src = os.path.abspath(a.src)
    checks = (a.checks or a.prop).split(",")
    wt = "/tmp/seed_" + a.name
    sh("git -C /repo worktree remove --force %s" % wt); shutil.rmtree(wt, ignore_errors=True)
    r = sh("git -C /repo worktree add -q --detach %s HEAD" % wt)
    assert r.returncode == 0, r.stderr
    meta = {"name": a.name, "breaks_property": a.prop, "base_commit": sh("git -C /repo rev-parse HEAD").stdout.strip(), "ran": []}
    demo = [f for f in os.listdir(a.src) if f.startswith("demo")]
    demo_py = os.path.join(a.src, "demo.py")
    try:
        lib0, err = build(wt); assert lib0, err
        def run_demo(lib):
            if os.path.exists(demo_py):
                return subprocess.run(["/venv/bin/python", demo_py], env=dict(os.environ, PYTHONPATH=lib, PYTHONHASHSEED="0"),
                                      capture_output=True, text=True, timeout=900, cwd=a.src)
            return sh("cd %s && sh build.sh %s %s" % (a.src, wt, lib), timeout=900)
        d0 = run_demo(lib0)
        meta["demo_clean_exit"] = d0.returncode
        r = sh("git -C %s apply %s" % (wt, os.path.join(a.src, "patch.diff")))
        if r.returncode != 0:
            r = sh("git -C %s apply -3 %s" % (wt, os.path.join(a.src, "patch.diff")))     # try a 3-way merge on a newer base
        meta["patch_applies"] = r.returncode == 0
        if r.returncode != 0:
            # /repo has moved on (fixes touched the same lines): keep the last evaluation, note that it is from an older base
            oldp = os.path.join(ROOT, "seeded", a.name, "meta.json")
            if os.path.exists(oldp):
                old = json.load(open(oldp))
                old["no_longer_applies_at"] = meta["base_commit"]
                json.dump(old, open(oldp, "w"), indent=1)
                print("patch no longer applies at %s; kept the evaluation from base %s" % (meta["base_commit"][:7], old.get("base_commit", "?")[:7]))
                return
        assert r.returncode == 0, r.stderr
        lib1, err = build(wt)
        meta["compiles"] = bool(lib1)
        assert lib1, err
        d1 = run_demo(lib1)
        meta["demo_mutated_exit"] = d1.returncode
        meta["demo_mutated_tail"] = (d1.stdout + d1.stderr)[-800:]
        if not a.skip_tests:
            r = sh("cd %s && /venv/bin/python setup.py build_ext --inplace >/dev/null 2>&1; cd %s && PYTHONPATH=%s /venv/bin/python -m pytest -q -p no:cacheprovider --timeout=900 rebound/tests 2>&1 | tail -3" % (wt, wt, wt), timeout=3000)
            meta["test_suite_tail"] = r.stdout.strip().splitlines()[-1] if r.stdout.strip() else r.stderr[-300:]
            meta["tests_pass"] = "873 passed" in r.stdout
        meta["confirmed"] = (meta["demo_clean_exit"] == 0 and meta["demo_mutated_exit"] != 0 and meta.get("tests_pass", True))
        meta["checks"] = {}
        # the checks run from a private copy of /verif: coq/Gen and the .vo files are regenerated from the
        # mutated tree and must not race with checks running on /repo at the same time
        vcopy = "/tmp/vseed_" + a.name
        shutil.rmtree(vcopy, ignore_errors=True)
        sh("rsync -a --exclude build --exclude .git %s/ %s/" % (ROOT, vcopy))
        for c in checks:
            t0 = time.time()
            r = subprocess.run(["./check", c, "--tier", a.tier], cwd=vcopy, env=dict(os.environ, VERIF_REPO=wt), capture_output=True, text=True)
            vio = [l for l in r.stdout.splitlines() if l.startswith("VIOLATION")]
            fails = [l for l in r.stdout.splitlines() if "OBLIGATION FAILED" in l]
            meta["checks"][c] = {"exit": r.returncode, "violation_lines": vio, "failed_obligations": [f[:300] for f in fails][:6],
                                 "wall_s": round(time.time() - t0, 1), "caught": r.returncode == 1 and bool(vio)}
            meta["ran"].append("VERIF_REPO=%s ./check %s --tier %s" % (wt, c, a.tier))
            # keep the replay of the first violation next to the seed
            for l in vio[:1]:
                p = l.split("replay=")[1].split()[0]
                if os.path.exists(p):
                    os.makedirs(os.path.join(ROOT, "seeded", a.name), exist_ok=True)
                    shutil.copy(p, os.path.join(ROOT, "seeded", a.name, "replay_%s.json" % c))
    finally:
        shutil.rmtree("/tmp/vseed_" + a.name, ignore_errors=True)
        sh("git -C /repo worktree remove --force %s" % wt); shutil.rmtree(wt, ignore_errors=True)
        sh("git -C /repo worktree prune")
    dst = os.path.join(ROOT, "seeded", a.name)
    os.makedirs(dst, exist_ok=True)
    for f in os.listdir(a.src):
        if f in ("patch.diff", "README.md") or f.startswith("demo") or f == "build.sh":
            if os.path.abspath(a.src) != os.path.abspath(dst):
                shutil.copy(os.path.join(a.src, f), os.path.join(dst, f))
    json.dump(meta, open(os.path.join(dst, "meta.json"), "w"), indent=1)
    print(json.dumps({k: meta[k] for k in meta if k not in ("demo_mutated_tail",)}, indent=1))

if __name__ == "__main__":
    main()
