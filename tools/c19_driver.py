"""C19 child-process driver (real threads; run with PYTHONPATH = the freshly built library directory).

   c19_driver.py conc    < params.json     M simulations of every integrator type: sequential vs concurrent in threads
   c19_driver.py server  < params.json     built-in web server: snapshots served while integrating
   c19_driver.py torn    < params.json     hunt for snapshots served while reb_simulation_synchronize runs outside the mutex
   c19_driver.py steps   < params.json     snapshots served while the user calls sim.steps(n) / sim.step() (no mutex taken)
   c19_driver.py keyboard < params.json    pause / single step / 50 steps / resume + pulls via the web server vs run without a server
   c19_driver.py coresident < params.json  final bits of simulation B alone / after others / next to others in threads / served (one fresh process each)
   c19_driver.py hammer  < params.json     per integrator type: T simulations of the same type at the same time in T threads vs sequentially
   c19_driver.py history < params.json     remove -> observe (save / copy / serve) -> add: all continuations equal the unobserved run
   c19_driver.py latestart < params.json   server started from a second thread while integrate() is running
   c19_driver.py lifecycle < params.json   error paths of the server life cycle (port in use, start / stop twice, stop without start, free while
                                           serving, start after stop) with other serving simulations and open archives as witnesses
   c19_driver.py teardown < params.json    create / serve / free (and stop+restart the server) under continuous client load
   c19_driver.py fdclose < params.json     save/load of one simulation while another simulation's server thread closes descriptors twice
   c19_driver.py w512    < params.json     (avx512 build) two WHFast512 simulations alternated step by step vs separately
Prints one JSON object on the last line of stdout."""
import sys, os, json, ctypes, hashlib, threading, time, socket, tempfile, random, struct, warnings, shutil

import rebound
from rebound import clibrebound
from rebound.binary_field_descriptor import binary_field_descriptor_list

warnings.simplefilter("ignore")
PS = ctypes.sizeof(rebound.Particle)
FD = {int(d.type): (int(d.dtype), d.name.decode(), int(d.element_size)) for d in binary_field_descriptor_list()}
MASK_NAMES = {n for (_, n, _) in FD.values() if n.startswith("walltime")}
P_OFF = {n: getattr(rebound.Particle, n).offset for n in ("c", "_hash", "ap", "_sim")}


def mask_particles(b):
    """zero the pointer members (c, ap, sim) and the padding after hash of an array of struct reb_particle"""
    b = bytearray(b)
    for o in range(0, len(b) - PS + 1, PS):
        b[o + P_OFF["c"]:o + P_OFF["c"] + 8] = bytes(8)
        b[o + P_OFF["_hash"] + 4:o + PS] = bytes(PS - P_OFF["_hash"] - 4)
    return bytes(b)


def parse_stream(buf):
    """-> (header, [(type, payload)], tail); raises ValueError on a malformed stream"""
    if len(buf) < 64 or not buf.startswith(b"REBOUND Binary File"):
        raise ValueError("no header")
    pos = 64
    fields = []
    while True:
        if pos + 16 > len(buf):
            raise ValueError("truncated field header")
        typ, = struct.unpack_from("<I", buf, pos)
        size, = struct.unpack_from("<Q", buf, pos + 8)
        pos += 16
        if pos + size > len(buf):
            raise ValueError("truncated field payload")
        payload = buf[pos:pos + size]
        pos += size
        if FD.get(typ, (0, "", 0))[1] == "end":
            break
        fields.append((typ, payload))
    return buf[:64], fields, buf[pos:]


def canon(buf, extra_mask=()):
    """canonical form of a snapshot stream: wall-clock fields and pointers zeroed"""
    h, fields, tail = parse_stream(buf)
    out = [h]
    for typ, payload in fields:
        dt, name, es = FD.get(typ, (None, "?%d" % typ, 0))
        if name in MASK_NAMES or name in extra_mask:
            payload = bytes(len(payload))
        elif es == PS and len(payload) % PS == 0 and ("particle" in name or name.startswith("ri_") or "p_" in name):
            payload = mask_particles(payload)
        elif name == "var_config" and es and len(payload) % es == 0:
            b_ = bytearray(payload)                        # struct reb_variational_configuration starts with a pointer to its simulation
            for o in range(0, len(b_), es):
                b_[o:o + 8] = bytes(8)
                if es == 40:
                    b_[o + 28:o + 32] = bytes(4)           # padding between the five ints and lrescale (never initialised)
            payload = bytes(b_)
        out.append(struct.pack("<IQ", typ, len(payload)) + payload)
    return b"".join(out)


def stream_of(sim):
    bufp = ctypes.POINTER(ctypes.c_char)()
    n = ctypes.c_size_t(0)
    clibrebound.reb_simulation_save_to_stream(ctypes.byref(sim), ctypes.byref(bufp), ctypes.byref(n))
    b = ctypes.string_at(bufp, n.value)
    clibrebound.reb_free(bufp)
    return b


RESULT_MARK = "@@C19RESULT@@"


def emit(obj):
    """the library prints to the same stdout (printf without trailing newline, flushed at odd times): start a fresh line and tag the record"""
    txt = json.dumps(obj)
    path = os.environ.get("C19_RESULT_FILE")
    if path and not (len(sys.argv) > 1 and sys.argv[1] == "client"):
        try:                                     # the harness reads the record from its own file: nothing else writes there
            with open(path + ".tmp", "w") as f:
                f.write(txt)
            os.replace(path + ".tmp", path)
        except OSError:
            pass
    sys.stdout.write("\n" + RESULT_MARK + txt + "\n")
    sys.stdout.flush()


def sha(b):
    return hashlib.sha256(b).hexdigest()[:24]


# ------------------------------------------------------------------------------------------------ simulations
def build_collide(spec):
    """many overlapping hard spheres: several collisions per step that share particles, so the outcome depends on the order in which
    reb_collision_search hands them to the resolver (it shuffles them with the simulation's own rand_seed)"""
    rng = random.Random(spec["seed"])
    sim = rebound.Simulation()
    sim.rand_seed = spec["seed"] % (2 ** 31)
    sim.G = spec.get("G", 1.0)
    n = spec["n"]; L = spec.get("box", 1.0); rad = spec.get("radius", 0.09)
    for i in range(n):
        sim.add(m=rng.uniform(0.5, 2.0) * 1e-3, r=rad * rng.uniform(0.7, 1.3), x=rng.uniform(0, L), y=rng.uniform(0, L), z=rng.uniform(0, 0.3 * L),
                vx=rng.uniform(-1, 1), vy=rng.uniform(-1, 1), vz=rng.uniform(-.3, .3))
    sim.integrator = spec.get("integrator", "leapfrog")
    sim.dt = spec.get("dt", 0.005)
    sim.gravity = spec.get("gravity", "none")
    sim.collision = spec.get("collision", "direct")
    sim.collision_resolve = "hardsphere"
    return sim


def reattach(sim, spec):
    """function pointers are not part of a snapshot: give a simulation loaded from one the callbacks its scenario uses"""
    if spec.get("kind") == "collide":
        sim.collision_resolve = "hardsphere"
    return sim


def build(spec):
    if spec.get("kind") == "collide":
        return build_collide(spec)
    rng = random.Random(spec["seed"])
    sim = rebound.Simulation()
    sim.rand_seed = spec["seed"] % (2 ** 31)
    sim.G = spec.get("G", 1.0)
    sim.softening = spec.get("softening", 0.0)
    integ = spec["integrator"]
    n = spec["n"]
    if integ == "sei":
        sim.ri_sei.OMEGA = 1.0
        for i in range(n):
            sim.add(m=0.0, x=rng.uniform(-1, 1), y=rng.uniform(-1, 1), z=rng.uniform(-.1, .1), vx=rng.uniform(-.1, .1),
                    vy=rng.uniform(-.1, .1), vz=rng.uniform(-.1, .1))
        sim.gravity = "none"
    else:
        if spec.get("corner") != "empty":
            sim.add(m=spec.get("m0", 1.0))
        for i in range(n if spec.get("corner") != "empty" else 0):
            sim.add(m=10 ** rng.uniform(-7, -3.5), a=1.0 + 0.45 * i + rng.uniform(0, .1),
                    e={"e_zero": 0.0, "e_near_one": 1.0 - 1e-5}.get(spec.get("corner"), rng.uniform(0, 0.1)),
                    inc={"inc_zero": 0.0, "inc_pi": 3.141592653589793}.get(spec.get("corner"), rng.uniform(0, 0.05)), Omega=rng.uniform(0, 6), omega=rng.uniform(0, 6), f=rng.uniform(0, 6),
                    primary=sim.particles[0])
        if sim.N:
            sim.move_to_com()
    sim.integrator = integ
    sim.dt = spec["dt"]
    if integ == "janus":
        sim.ri_janus.scale_pos = 1e-16
        sim.ri_janus.scale_vel = 1e-16
        sim.ri_janus.order = spec.get("order", 4)
    if integ == "whfast":
        sim.ri_whfast.safe_mode = spec.get("safe_mode", 1)
        sim.ri_whfast.corrector = spec.get("corrector", 0)
    if integ == "saba":
        sim.ri_saba.type = spec.get("saba_type", "(10,6,4)")
        sim.ri_saba.safe_mode = spec.get("safe_mode", 1)
    if integ == "mercurius":
        sim.ri_mercurius.r_crit_hill = 3.0
        sim.ri_mercurius.safe_mode = spec.get("safe_mode", 1)
    if integ == "whfast512":
        sim.ri_whfast512.gr_potential = spec.get("gr", 0)
        sim.exact_finish_time = 0
    if integ == "eos":
        sim.ri_eos.n = 2
    # ---- degenerate corners of the quantified space (each is a spec option; see CORNERS in tools/c19.py)
    cn = spec.get("corner")
    if cn == "zero_mass":
        for q in sim.particles[1:]: q.m = 0.0
    elif cn == "coincident" and sim.N >= 3:
        sim.particles[2].x = sim.particles[1].x; sim.particles[2].y = sim.particles[1].y; sim.particles[2].z = sim.particles[1].z
    elif cn == "nan":
        sim.particles[sim.N - 1].x = float("nan")
    elif cn == "inf":
        sim.particles[sim.N - 1].vx = float("inf")
    elif cn == "huge":
        for q in sim.particles:
            q.x *= 1e150; q.y *= 1e150; q.z *= 1e150
    elif cn == "subnormal":
        for q in sim.particles:
            q.x *= 1e-310; q.y *= 1e-310; q.z *= 1e-310; q.vx *= 1e-310; q.vy *= 1e-310; q.vz *= 1e-310
    elif cn == "negative_zero":
        for q in sim.particles:
            q.z = -0.0; q.vz = -0.0
    elif cn == "t_nonzero":
        sim.t = 1.0e6
    elif cn == "zero_radius_collisions":
        sim.collision = "direct"; sim.collision_resolve = "merge"
        for q in sim.particles: q.r = 0.0
    elif cn == "equal_hashes" and sim.N >= 3:
        sim.particles[1].hash = 7; sim.particles[2].hash = 7
    # ---- optional state the serializer has to carry (every kind gets its own scenario in the harness)
    if spec.get("n_test"):                       # test particles behind N_active
        na = sim.N
        for i in range(spec["n_test"]):
            sim.add(m=0.0, a=2.0 + 0.3 * n + 0.21 * i, e=rng.uniform(0, 0.05), f=rng.uniform(0, 6), primary=sim.particles[0])
        sim.N_active = na
    if spec.get("variations"):                   # first-order variational particles
        for i in range(spec["variations"]):
            v = sim.add_variation()
            v.particles[1 + i % max(1, n)].x = 1.0
    if spec.get("megno"):                        # MEGNO = variational particles + bookkeeping in the simulation struct
        sim.init_megno(seed=spec["seed"] % 1000 + 1)
    if spec.get("ode"):                          # a user ODE integrated along with the N-body system (BS only)
        ode = sim.create_ode(length=2, needs_nbody=False)
        ode.derivatives = _ode_rhs
        ode.y[0] = 1.0; ode.y[1] = 0.0
        sim._c19_ode = ode
    return sim


def _ode_rhs(ode, yDot, y, t):
    yDot[0] = y[1]
    yDot[1] = -4.0 * y[0]


def extra_state_bits(sim):
    out = []
    o = getattr(sim, "_c19_ode", None)
    if o is not None:
        out += [struct.pack("<d", o.y[0]).hex(), struct.pack("<d", o.y[1]).hex()]
    return out


def safe_integrate(sim, t, eft, log):
    """integrate; a Python-level error raised from the library's message / status path is recorded and the SAME object keeps being used"""
    try:
        sim.integrate(t, exact_finish_time=eft)
    except Exception as e:
        log.append(type(e).__name__)


def job(spec, tmpdir, out, k):
    """create -> integrate -> copy -> save -> load -> continue both -> streams -> free"""
    try:
        time.sleep(spec.get("offset", 0.0))
        log = []
        sim = build(spec)
        eft = 0 if spec["integrator"] == "whfast512" else spec.get("eft", 1)
        if spec.get("corner") == "after_error":
            sim.exit_max_distance = 1e-3                       # first call takes the error path (Escape), then the limit is lifted
            safe_integrate(sim, spec["t1"], eft, log)
            sim.exit_max_distance = 0.0
        t1, t2 = spec["t1"], spec["t2"]
        if spec.get("corner") == "dt_negative":
            t1, t2 = -t1, -t2
        if spec.get("corner") == "t_nonzero":
            t1, t2 = sim.t + t1, sim.t + t2
        if spec.get("corner") == "tmax_equals_t":
            t1 = sim.t
        safe_integrate(sim, t1, eft, log)
        c = sim.copy()
        path = os.path.join(tmpdir, "s%d_%d.bin" % (k, threading.get_ident()))
        sim.save_to_file(path, delete_file=True)
        l = rebound.Simulation(path)
        os.remove(path)
        for x in (l, c, sim):
            safe_integrate(x, t2, eft, log)
        r = [sha(canon(stream_of(x))) for x in (sim, c, l)] + ["|".join(log)]
        del sim, c, l
        out[k] = r
    except Exception as e:
        out[k] = ["EXC %r" % (e,)]


def mode_conc(p):
    tmpdir = tempfile.mkdtemp(prefix="c19conc")
    specs = p["specs"]
    try:
        seq = {}
        for k, s in enumerate(specs):
            job(dict(s, offset=0.0), tmpdir, seq, k)
        seq2 = {}
        for k, s in reversed(list(enumerate(specs))):       # determinism of the sequential baseline itself
            job(dict(s, offset=0.0), tmpdir, seq2, k)
        rounds = []
        for rd in range(p["rounds"]):
            conc = {}
            ths = [threading.Thread(target=job, args=(dict(s, offset=p["offsets"][rd][k]), tmpdir, conc, k)) for k, s in enumerate(specs)]
            for t in ths: t.start()
            for t in ths: t.join(p.get("timeout", 120))
            if any(t.is_alive() for t in ths):
                emit({"hang": True, "round": rd}); os._exit(3)
            rounds.append(conc)
        res = {"n": len(specs), "sequential": {str(k): v for k, v in seq.items()}, "baseline_nondeterministic": [k for k in seq if seq[k] != seq2[k]], "mismatch": [], "errors": []}
        for k in seq:
            if any(str(x).startswith("EXC") for x in seq[k]):
                res["errors"].append((k, seq[k]))
        for rd, conc in enumerate(rounds):
            for k in seq:
                if conc.get(k) != seq[k]:
                    res["mismatch"].append({"round": rd, "spec": specs[k], "sequential": seq[k], "concurrent": conc.get(k)})
        return res
    finally:
        shutil.rmtree(tmpdir, ignore_errors=True)


# ------------------------------------------------------------------------------------------------ server
def free_port(rng):
    for _ in range(200):
        port = rng.randint(20000, 60000)
        s = socket.socket()
        try:
            s.bind(("127.0.0.1", port)); s.close(); return port
        except OSError:
            s.close()
    raise RuntimeError("no free port")


def fetch(port, path="/simulation", timeout=30):
    s = socket.create_connection(("127.0.0.1", port), timeout=timeout)
    s.sendall(("GET %s HTTP/1.0\r\n\r\n" % path).encode())
    b = b""
    while True:
        c = s.recv(1 << 20)
        if not c:
            break
        b += c
    s.close()
    i = b.find(b"\n\r\n")
    if i < 0:
        raise ValueError("no header end")
    return b[i + 3:]


EDGE_REQUESTS = [
    b"POST /screenshot HTTP/1.0\r\nContent-Length: 0\r\n\r\n",          # zero-length upload
    b"POST /screenshot HTTP/1.0\r\n\r\n",                               # upload without a length
    b"POST /screenshot HTTP/1.0\r\nContent-Length: 5\r\n\r\nabcde",      # upload nobody asked for
    b"POST /screenshot HTTP/1.0\r\nContent-Length: -5\r\n\r\n",         # negative length
    b"GET /nope HTTP/1.0\r\n\r\n",                                      # unknown path
    b"HEAD /simulation HTTP/1.0\r\n\r\n",                               # unsupported method
    b"PUT /simulation HTTP/1.0\r\n\r\n",
    b"GET /keyboard/abc HTTP/1.0\r\n\r\n",                              # key that is not a number
    b"GET /keyboard/99999999999999999999 HTTP/1.0\r\n\r\n",             # key beyond int
    b"GET /keyboard/-1 HTTP/1.0\r\n\r\n",
    b"GET /keyboard/0 HTTP/1.0\r\n\r\n",
    b"GET /" + b"a" * 5000 + b" HTTP/1.0\r\n\r\n",                       # request line longer than the server's buffer
    b"GET /simulation HTTP/1.0\r\nX-A: " + b"b" * 3000 + b"\r\n\r\n",    # header longer than the buffer
    b"GET /SIMULATION HTTP/1.0\r\n\r\n",                                # other case
    b"GET /simulation?x=1 HTTP/1.0\r\n\r\n",
    b"\r\n\r\n",                                                        # empty request line
    b"",                                                                # connect and close
]


def raw_request(port, data, wait=0.05):
    """send bytes as they are, read whatever comes back for a moment, close; never raises"""
    try:
        s = socket.create_connection(("127.0.0.1", port), timeout=2)
        if data:
            s.sendall(data)
        s.settimeout(wait)
        try:
            while s.recv(65536):
                pass
        except Exception:
            pass
        s.close()
    except Exception:
        pass


def mode_client():
    """separate PROCESS that fetches /simulation in a loop (threads) and writes length-prefixed bodies to a file.
    (Clients live in their own process: server.c closes every connection descriptor twice (fclose + close), which in a
    multi-threaded process can close a descriptor another thread has just opened.)"""
    port = int(sys.argv[2]); outpath = sys.argv[3]; stopfile = sys.argv[4]
    delays = json.loads(sys.argv[5]); pauses = json.loads(sys.argv[6]); others = sys.argv[7] in ("1", "2"); edges = sys.argv[7] == "2"
    lock = threading.Lock()
    out = open(outpath, "wb")
    nerr = [0]
    def client(delay, pause):
        time.sleep(delay)
        bad = 0
        while not os.path.exists(stopfile) and bad < 3000:        # tolerate a server that is slow to come up under machine load
            try:
                b = fetch(port)
                bad = 0
                with lock:
                    out.write(struct.pack("<Q", len(b))); out.write(b)
            except Exception:
                bad += 1; nerr[0] += 1; time.sleep(0.002)
            if pause: time.sleep(pause)
    def other():
        k = 0
        while not os.path.exists(stopfile):
            if edges:
                raw_request(port, EDGE_REQUESTS[k % len(EDGE_REQUESTS)]); k += 1
            else:
                for path in ("/favicon.ico", "/nonexistent", "/"):
                    try: fetch(port, path)
                    except Exception: pass
            time.sleep(0.003)
    ths = [threading.Thread(target=client, args=(d, q)) for d, q in zip(delays, pauses)]
    if others: ths.append(threading.Thread(target=other))
    for t in ths: t.start()
    for t in ths: t.join()
    out.close()
    emit({"errors": nerr[0]})


def start_clients(port, workdir, delays, pauses, others):
    import subprocess
    outpath = os.path.join(workdir, "bodies.bin"); stopfile = os.path.join(workdir, "stop")
    pr = subprocess.Popen([sys.executable, os.path.abspath(__file__), "client", str(port), outpath, stopfile, json.dumps(delays),
                           json.dumps(pauses), str(int(others)) if not isinstance(others, bool) else ("1" if others else "0")], stdout=subprocess.PIPE, stderr=subprocess.DEVNULL, cwd=workdir)
    return pr, outpath, stopfile


def retry_io(f, default=None, n=30):
    """file operations of THIS process can fail with EBADF while a server thread is running (descriptor closed twice by server.c)"""
    for _ in range(n):
        try:
            return f()
        except OSError:
            time.sleep(0.005)
    return default


def stop_clients(pr, outpath, stopfile):
    retry_io(lambda: open(stopfile, "w").close())
    try:
        o, _ = pr.communicate(timeout=60)
    except Exception:
        pr.kill(); o = b"{}"
    bodies = []
    data = retry_io(lambda: open(outpath, "rb").read(), b"") if os.path.exists(outpath) else b""
    pos = 0
    while pos + 8 <= len(data):
        n, = struct.unpack_from("<Q", data, pos); pos += 8
        bodies.append(data[pos:pos + n]); pos += n
    try:
        txt = (o or b"").decode(errors="replace")
        errs = json.loads(txt[txt.rindex(RESULT_MARK) + len(RESULT_MARK):].splitlines()[0]).get("errors", 0)
    except Exception: errs = -1
    for f in (outpath, stopfile):
        try: os.remove(f)
        except OSError: pass
    return bodies, errs


def start_server_robust(sim, rng):
    """start the built-in server on a free port; a port that was taken in the meantime is retried with another one"""
    last = None
    for _ in range(8):
        port = free_port(rng)
        try:
            sim.start_server(port=port)
        except RuntimeError as e:           # "Error binding to port"
            last = e
            try: sim.stop_server()
            except Exception: pass
            continue
        for _ in range(400):                # wait until the server thread is accepting (up to 4 s more than the library's own 1 s)
            try:
                if sim._server_data and sim._server_data.contents.ready == 1: break
            except Exception:
                break
            time.sleep(0.01)
        return port
    raise RuntimeError("could not start the server: %r" % (last,))


def enter_workdir():
    d = tempfile.mkdtemp(prefix="c19srv")
    os.chdir(d)
    open("rebound.html", "w").write("<html></html>")      # otherwise the server thread tries to download it with curl
    return d


def phys_key(sim):
    """physical state projection used to match served snapshots with recorded step-boundary states"""
    n = sim.N
    pb = ctypes.string_at(ctypes.cast(sim._particles, ctypes.c_void_p).value, n * PS) if n else b""
    return "%s|%d|%d|%s" % (float(sim.t).hex(), int(sim.steps_done), n, sha(mask_particles(pb)))


def mode_server(p):
    """run A: no server (reference); run B: server + clients.  Heartbeat records the boundary states in both."""
    wd = enter_workdir()
    rng = random.Random(p["seed"])
    spec = p["spec"]
    sleep_s = p["sleep_ms"] / 1000.0
    tmax = p["tmax"]
    eft = p.get("eft", 0)

    def run(with_server):
        sim = build(spec)
        rec = {}
        order = []
        recbytes = {}
        errlog = []
        last_sd = [-1]
        ncall = [0]
        def hb(sp):
            s = sp.contents
            # a user heartbeat that changes the simulation in TWO writes (radii of particles 0 and 1 := steps_done); the library
            # calls the loop heartbeat inside the mutex, so no served snapshot may show only one of them.  (The heartbeat call in
            # the prologue of reb_simulation_integrate is outside the mutex - block 0 of the model - and is left read-only.)
            ncall[0] += 1
            if p.get("hb_two_writes", True) and s.N >= 2 and (int(s.steps_done) != last_sd[0] or p.get("hb_prologue_too", False)):
                s.particles[0].r = float(ncall[0])
                time.sleep(p.get("hb_gap_ms", 0.5) / 1000.0)
                s.particles[1].r = float(ncall[0])
            last_sd[0] = int(s.steps_done)
            k = phys_key(s)
            raw = stream_of(s)
            if k not in rec:
                rec[k] = set(); order.append(k); recbytes[k] = raw
            rec[k].add(sha(canon(raw, extra_mask=("status",))))
        def slow(sp):
            time.sleep(sleep_s)                    # inside reb_simulation_step: widens the mid-step window
        sim.heartbeat = hb
        if sleep_s > 0:
            sim.additional_forces = slow
        got = []
        errs = 0
        cl = None
        if with_server:
            port = start_server_robust(sim, rng)
            cl = start_clients(port, wd, p["client_delays"][:p["clients"]], p["client_pauses"][:p["clients"]],
                               2 if p.get("other_requests") == 2 else bool(p.get("other_requests")))
            time.sleep(0.05)
        t = 0.0
        for i in range(p["calls"]):
            t += tmax / p["calls"]
            safe_integrate(sim, t, eft, errlog)
            k = phys_key(sim)
            if k not in rec:
                rec[k] = set(); order.append(k)
            rec[k].add(sha(canon(stream_of(sim), extra_mask=("status",))))
        if with_server:
            got, errs = stop_clients(*cl)
            sim.stop_server()
        final = sha(canon(stream_of(sim)))
        if with_server:
            return rec, order, got, errs, final + "|".join(errlog), (particle_bits(sim), extra_state_bits(sim), float(sim.t).hex(), int(sim.steps_done), "|".join(errlog))
        return rec, order, got, errs, final + "|".join(errlog), recbytes

    # run 0: the UNOBSERVED trajectory: no server, no heartbeat, nothing ever serialises the simulation
    sim0 = build(spec)
    if sleep_s > 0:
        sim0.additional_forces = lambda sp: None          # same code path as the observed runs (a callback is installed), no sleep
    if p.get("hb_two_writes", True):
        # the USER's heartbeat (which edits two radii) belongs to the scenario, not to the serving: same edits, nothing serialised
        st0 = {"n": 0, "sd": -1}
        def hb0(sp):
            s_ = sp.contents
            st0["n"] += 1
            if s_.N >= 2 and (int(s_.steps_done) != st0["sd"] or p.get("hb_prologue_too", False)):
                s_.particles[0].r = float(st0["n"]); s_.particles[1].r = float(st0["n"])
            st0["sd"] = int(s_.steps_done)
        sim0.heartbeat = hb0
    t0_ = 0.0
    errlog0 = []
    for i in range(p["calls"]):
        t0_ += tmax / p["calls"]
        safe_integrate(sim0, t0_, eft, errlog0)
    unobs = (particle_bits(sim0), extra_state_bits(sim0), float(sim0.t).hex(), int(sim0.steps_done), "|".join(errlog0))
    recA, orderA, _, _, finalA, bytesA = run(False)
    recB, orderB, got, errs, finalB, simB_state = run(True)
    res = {"boundaries": len(recA), "served": len(got), "client_errors": errs, "trajectory_equal": finalA == finalB and orderA == orderB,
           "unobserved_equal": simB_state == unobs, "final_stream_equal": finalA == finalB, "boundary_order_equal": orderA == orderB,
           "unobserved_differing_doubles": sum(1 for a, b in zip(simB_state[0] + simB_state[1], unobs[0] + unobs[1]) if a != b),
           "unparsable": 0, "not_a_boundary": [], "full_stream_mismatch": 0, "continued": 0, "continuation_mismatch": [], "distinct_served": 0}
    seen = set()
    cont_budget = p.get("continue", 6)
    for b in got:
        try:
            s = rebound.Simulation(b)
            k = phys_key(s)
        except Exception as e:
            res["unparsable"] += 1
            continue
        if k not in recA:
            if len(res["not_a_boundary"]) < 3:
                res["not_a_boundary"].append({"t": s.t, "steps_done": int(s.steps_done), "key": k})
            else:
                res["not_a_boundary"].append(None)
            continue
        if k in seen:
            continue
        seen.add(k)
        if sha(canon(b, extra_mask=("status",))) not in recA[k]:
            res["full_stream_mismatch"] += 1
        if cont_budget > 0 and s.t < tmax:
            cont_budget -= 1
            # continue the served snapshot and the snapshot the reference run (no server) took itself at the same boundary
            reattach(s, spec)
            safe_integrate(s, tmax, eft, [])
            res["continued"] += 1
            kk = phys_key(s)
            if k in bytesA:
                s0 = reattach(rebound.Simulation(bytesA[k]), spec)
                safe_integrate(s0, tmax, eft, [])
                k0 = phys_key(s0)
            else:
                k0 = orderA[-1]
            if kk != k0:
                res["continuation_mismatch"].append({"from_t": float.fromhex(k.split("|")[0]), "end": kk, "expected": k0})
            if kk == orderA[-1]:
                res["continued_to_reference_end"] = res.get("continued_to_reference_end", 0) + 1
    res["distinct_served"] = len(seen)
    res["n_not_a_boundary"] = len(res["not_a_boundary"])
    res["not_a_boundary"] = [x for x in res["not_a_boundary"] if x][:3]
    os.chdir("/"); shutil.rmtree(wd, ignore_errors=True)
    return res


def mode_torn(p):
    """WHFast safe_mode=0: after the loop reb_simulation_integrate synchronises OUTSIDE the mutex.  A snapshot served in that
    window mixes synchronised and unsynchronised particles."""
    import numpy as np
    wd = enter_workdir()
    rng = random.Random(p["seed"])
    N = p["N"]

    def mk():
        r2 = random.Random(p["seed"] + 1)
        sim = rebound.Simulation(); sim.rand_seed = 1
        sim.add(m=1.0)
        for i in range(N):
            sim.add(m=0., a=1 + r2.random() * 3, e=r2.random() * 0.2, f=r2.random() * 6)
        sim.N_active = 1
        sim.integrator = "whfast"; sim.ri_whfast.safe_mode = 0; sim.dt = 0.01
        return sim

    def key(s):
        n = s.N
        pb = ctypes.string_at(ctypes.cast(s._particles, ctypes.c_void_p).value, n * PS)
        a = np.frombuffer(pb, dtype=np.uint8).reshape(n, PS)[:, :96]
        return (float(s.t).hex(), int(s.ri_whfast.is_synchronized), sha(a.tobytes()))

    def arr(s):
        n = s.N
        pb = ctypes.string_at(ctypes.cast(s._particles, ctypes.c_void_p).value, n * PS)
        return np.frombuffer(pb, dtype=np.uint64).reshape(n, PS // 8)[:, :12].copy()

    sim = mk()
    rec = set()
    sim.heartbeat = lambda sp: rec.add(key(sp.contents))
    port = start_server_robust(sim, rng)
    cl = start_clients(port, wd, [0.0] * p["clients"], [0.0] * p["clients"], False)
    t0 = time.time(); T = 0.0; calls = 0
    while time.time() - t0 < p["seconds"]:
        T += 0.02
        sim.integrate(T, exact_finish_time=p.get("eft", 0))
        rec.add(key(sim)); calls += 1
    got, _ = stop_clients(*cl)
    sim.stop_server()
    bad = []
    for b in got:
        try:
            s = rebound.Simulation(b); k = key(s)
        except Exception:
            bad.append(("unparsable", None, b)); continue
        if k not in rec:
            bad.append(("not-recorded", k, b))
    res = {"served": len(got), "calls": calls, "recorded": len(rec), "suspicious": len(bad), "torn": [], "unexplained": 0}
    if bad:
        bts = {k[0] for _, k, _ in bad if k}
        ref = {}
        s2 = mk()
        def hb2(sp):
            c = sp.contents
            if float(c.t).hex() in bts:
                f = int(c.ri_whfast.is_synchronized)
                ref.setdefault(float(c.t).hex(), {})[f] = arr(c)
                if f == 0 and 1 not in ref[float(c.t).hex()]:
                    cc = c.copy(); cc.synchronize()          # the state reb_check_exit produces before a last step
                    ref[float(c.t).hex()][1] = arr(cc)
        s2.heartbeat = hb2
        T2 = 0.0
        for i in range(calls):
            T2 += 0.02
            s2.integrate(T2, exact_finish_time=p.get("eft", 0))
            if float(s2.t).hex() in bts: ref.setdefault(float(s2.t).hex(), {})[int(s2.ri_whfast.is_synchronized)] = arr(s2)
        for kind, k, b in bad:
            if kind == "unparsable":
                res["unexplained"] += 1; continue
            r = ref.get(k[0], {})
            a = arr(rebound.Simulation(b))
            if 0 in r and 1 in r and a.shape == r[0].shape:
                # every stored double is either the unsynchronised or the synchronised value of that boundary (the transformation
                # back to inertial coordinates writes positions and velocities in separate passes), and both kinds occur
                el0 = (a == r[0]); el1 = (a == r[1])
                e0 = el0.all(axis=1); e1 = el1.all(axis=1)
                if bool((el0 | el1).all()) and k[1] == 0 and not bool(el0.all()) and not bool(el1.all()):
                    res["torn"].append({"t": float.fromhex(k[0]), "is_synchronized_flag": k[1], "particles_unsynchronized": int((e0 & ~e1).sum()),
                                        "particles_synchronized": int((e1 & ~e0).sum()), "particles_half_written": int((~e0 & ~e1).sum()),
                                        "N": int(a.shape[0])})
                    continue
                res.setdefault("unexplained_detail", []).append({"t": float.fromhex(k[0]), "flag": k[1], "eq_unsync": int(el0.all(axis=1).sum()),
                    "eq_sync": int(el1.all(axis=1).sum()), "elements_neither": int((~(el0 | el1)).sum()), "N": int(a.shape[0])})
            else:
                res.setdefault("unexplained_detail", []).append({"t": float.fromhex(k[0]), "flag": k[1], "ref_states": sorted(r)})
            res["unexplained"] += 1
    os.chdir("/"); shutil.rmtree(wd, ignore_errors=True)
    return res


def mode_steps(p):
    """sim.step()/sim.steps(n) call reb_simulation_step directly (no heartbeat, no mutex): are snapshots served meanwhile boundary states?"""
    wd = enter_workdir()
    rng = random.Random(p["seed"])
    spec = p["spec"]
    sleep_s = p["sleep_ms"] / 1000.0
    n = p["nsteps"]
    def slow(sp):
        time.sleep(sleep_s)
    ref = build(spec); ref.additional_forces = slow
    rec = {phys_key(ref)}
    for i in range(n):
        ref.steps(1); rec.add(phys_key(ref))
    final_ref = phys_key(ref)
    sim = build(spec); sim.additional_forces = slow
    port = start_server_robust(sim, rng)
    cl = start_clients(port, wd, [0.0] * p["clients"], [0.0] * p["clients"], False)
    time.sleep(0.05)
    if p.get("single_call", True):
        sim.steps(n)
    else:
        for i in range(n): sim.step()
    got, errs = stop_clients(*cl)
    sim.stop_server()
    res = {"served": len(got), "boundaries": len(rec), "unparsable": 0, "not_a_boundary": 0, "examples": [], "trajectory_equal": phys_key(sim) == final_ref}
    for b in got:
        try:
            s = rebound.Simulation(b); k = phys_key(s)
        except Exception:
            res["unparsable"] += 1; continue
        if k not in rec:
            res["not_a_boundary"] += 1
            if len(res["examples"]) < 3:
                res["examples"].append({"t": s.t, "steps_done": int(s.steps_done)})
    os.chdir("/"); shutil.rmtree(wd, ignore_errors=True)
    return res


def particle_bits(sim):
    return [struct.pack("<d", v).hex() for q in sim.particles for v in (q.x, q.y, q.z, q.vx, q.vy, q.vz)]


def mode_keyboard(p):
    """serving requests never alters the trajectory: reference run without a server  vs  run with a server whose client sends the
    documented keyboard commands (pause, single step x2, 50 steps, resume) and pulls /simulation while paused and while running."""
    wd = enter_workdir()
    rng = random.Random(p["seed"])
    spec = p["spec"]; tmax = p["tmax"]
    ref = build(spec); ref.integrate(tmax)
    refbits = particle_bits(ref); ref_t = ref.t; ref_steps = int(ref.steps_done)

    def wait_for(cond, timeout=20.0):
        t0 = time.time()
        while time.time() - t0 < timeout:
            if cond(): return True
            time.sleep(0.0005)
        return False

    sim = build(spec)
    sim.usleep = p["usleep_us"]
    port = start_server_robust(sim, rng)
    info = {"paused": False, "single_steps": 0, "multi_steps": 0, "pulls_running": 0, "snapshot": None, "err": None}
    PAUSED = -3

    def client():
        try:
            wait_for(lambda: sim.t > p["pause_at"] * tmax)
            for _ in range(p["pulls_before"]):
                fetch(port); info["pulls_running"] += 1
            for k in p.get("other_keys", []):                         # every other key the handler knows (+ unknown ones), while running
                try: fetch(port, "/keyboard/%d" % k)
                except ValueError: pass                             # keys without a case get an empty reply
                info["other_keys_sent"] = info.get("other_keys_sent", 0) + 1
            fetch(port, "/keyboard/32")                               # space: pause
            if not wait_for(lambda: sim._status == PAUSED, 10.0):
                return
            time.sleep(0.02)
            info["paused"] = True
            for _ in range(2):                                         # arrow down: single step
                s0 = int(sim.steps_done)
                fetch(port, "/keyboard/264")
                if wait_for(lambda: int(sim.steps_done) == s0 + 1 and sim._status == PAUSED, 10.0):
                    info["single_steps"] += 1
                time.sleep(0.01)
            if p.get("page_down", True):
                s0 = int(sim.steps_done)
                fetch(port, "/keyboard/267")                           # page down: 50 steps
                if wait_for(lambda: int(sim.steps_done) > s0 + 1 and sim._status == PAUSED, 20.0):
                    info["multi_steps"] = int(sim.steps_done) - s0
                time.sleep(0.01)
            if sim._status == PAUSED:
                info["snapshot"] = fetch(port)                         # pull while paused
                info["t_snapshot"] = sim.t
        except Exception as e:
            info["err"] = repr(e)
        finally:
            try:
                if sim._status == PAUSED:
                    fetch(port, "/keyboard/32")                        # space: resume
                wait_for(lambda: sim._status != PAUSED, 5.0)
                for _ in range(p["pulls_after"]):
                    if sim._status >= 0: break
                    fetch(port); info["pulls_running"] += 1
            except Exception as e:
                info["err"] = info["err"] or repr(e)

    th = threading.Thread(target=client)
    th.start()
    sim.integrate(tmax)
    th.join(60)
    if th.is_alive():
        emit({"hang": True}); os._exit(3)
    bbits = particle_bits(sim)
    res = {"integrator": spec["integrator"], "paused": info["paused"], "single_steps": info["single_steps"], "multi_steps": info["multi_steps"],
           "pulls_running": info["pulls_running"], "other_keys_sent": info.get("other_keys_sent", 0), "client_error": info["err"], "ref_steps": ref_steps,
           "final_differing_doubles": sum(1 for a, b in zip(refbits, bbits) if a != b) + abs(len(refbits) - len(bbits)),
           "final_t_equal": sim.t == ref_t, "steps_equal": int(sim.steps_done) == ref_steps, "snapshot_differing_doubles": None}
    sim.stop_server()
    if info["snapshot"] is not None:
        s2 = rebound.Simulation(info["snapshot"])
        s2._status = -1            # taken while paused; the continuing user is not paused
        s2.usleep = 0
        s2.integrate(tmax)
        cb = particle_bits(s2)
        res["snapshot_differing_doubles"] = sum(1 for a, b in zip(refbits, cb) if a != b) + abs(len(refbits) - len(cb))
        res["t_snapshot"] = info.get("t_snapshot")
    res["conclusive"] = bool(info["paused"] and info["single_steps"] > 0 and res["snapshot_differing_doubles"] is not None)
    os.chdir("/"); shutil.rmtree(wd, ignore_errors=True)
    return res


def mode_coresident(p):
    """final bits of simulation B under one of four plans (the harness compares them across FRESH processes):
         solo   : B alone in this process
         after  : every simulation of p["others"] is run to the end first, then B
         thread : the others run in threads of this process while B runs
         served : B alone with the web server running; a snapshot pulled mid-run is continued to the end (both hashes returned)"""
    plan = p["plan"]
    specB = p["b"]
    def run_to_end(spec, n_calls=3):
        sim = build(spec)
        for i in range(n_calls):
            sim.integrate(spec["tmax"] * (i + 1) / n_calls, exact_finish_time=spec.get("eft", 0))
        return sim
    res = {"plan": plan}
    if plan == "after":
        for o in p["others"]:
            x = run_to_end(o); del x
    ths = []
    stop = [False]
    if plan == "thread":
        def bg(spec):
            while not stop[0]:
                x = run_to_end(spec); del x
        ths = [threading.Thread(target=bg, args=(o,)) for o in p["others"]]
        for t in ths: t.start()
        time.sleep(0.02)
    if plan == "served":
        wd = enter_workdir()
        rng = random.Random(p.get("seed", 1))
        sim = build(specB)
        sim.usleep = p.get("usleep_us", 300)
        port = start_server_robust(sim, rng)
        snap = [None]
        def client():
            t0 = time.time()
            while sim.t < 0.4 * specB["tmax"] and time.time() - t0 < 20: time.sleep(0.001)
            try: snap[0] = fetch(port)
            except Exception: pass
        th = threading.Thread(target=client); th.start()
        sim.integrate(specB["tmax"], exact_finish_time=0)
        th.join(30)
        sim.stop_server()
        sim.usleep = 0
        res["b"] = sha(canon(stream_of(sim), extra_mask=("usleep",)))
        res["b_particles"] = sha("".join(particle_bits(sim)).encode())
        if snap[0] is not None:
            s2 = rebound.Simulation(snap[0]); s2.usleep = 0
            if specB.get("kind") == "collide":
                s2.collision_resolve = "hardsphere"        # function pointers are not part of a snapshot
            res["snapshot_t"] = s2.t
            if s2.t < specB["tmax"]:          # a snapshot of the final state (few large adaptive steps) has nothing to continue
                s2.integrate(specB["tmax"], exact_finish_time=0)
                res["b_continued_particles"] = sha("".join(particle_bits(s2)).encode())
        os.chdir("/"); shutil.rmtree(wd, ignore_errors=True)
        return res
    b = build(specB)
    if plan == "solo":
        # control for the served plan: does a snapshot of THIS configuration restart bit-for-bit at all (property C05's business)?
        try:
            c0 = build(specB); c0.integrate(0.4 * specB["tmax"], exact_finish_time=0)
            c1 = rebound.Simulation(stream_of(c0))
            if specB.get("kind") == "collide":
                c1.collision_resolve = "hardsphere"
            c0.integrate(specB["tmax"], exact_finish_time=0); c1.integrate(specB["tmax"], exact_finish_time=0)
            res["restart_is_bitexact"] = particle_bits(c0) == particle_bits(c1)
        except Exception as e:
            res["restart_is_bitexact"] = False
    b.integrate(specB["tmax"], exact_finish_time=0)
    stop[0] = True
    for t in ths: t.join(120)
    res["b"] = sha(canon(stream_of(b), extra_mask=("usleep",)))
    res["b_particles"] = sha("".join(particle_bits(b)).encode())
    res["b_steps"] = int(b.steps_done); res["b_N"] = b.N
    try: res["b_collisions"] = int(b.collisions_N) if hasattr(b, "collisions_N") else None
    except Exception: res["b_collisions"] = None
    return res


def mode_hammer(p):
    """same-code-path overlap: for every integrator type, T simulations of THAT type (different seeds, all options that make every step
    go through the shared helper routines) run at the same time in T threads vs one after another; catches scratch data kept in
    function-local / file-scope statics of a routine (a data race that heterogeneous mixes rarely hit)."""
    res = {"mismatch": [], "groups": 0, "runs": 0}
    for g in p["groups"]:
        specs = g["specs"]
        def run(spec, out, k, barrier=None):
            try:
                sim = build(spec)
                if barrier is not None: barrier.wait()
                sim.integrate(spec["tmax"], exact_finish_time=spec.get("eft", 0))
                out[k] = sha("".join(particle_bits(sim)).encode())
            except Exception as e:
                out[k] = "EXC %r" % (e,)
        seq = {}
        for k, sp in enumerate(specs):
            run(sp, seq, k)
        for rd in range(g.get("rounds", 2)):
            conc = {}
            bar = threading.Barrier(len(specs))
            ths = [threading.Thread(target=run, args=(sp, conc, k, bar)) for k, sp in enumerate(specs)]
            for t in ths: t.start()
            for t in ths: t.join(120)
            if any(t.is_alive() for t in ths):
                emit({"hang": True, "group": g["name"]}); os._exit(3)
            res["runs"] += len(specs)
            for k in seq:
                if conc.get(k) != seq[k] and len(res["mismatch"]) < 5:
                    res["mismatch"].append({"group": g["name"], "round": rd, "spec": specs[k], "sequential": seq[k], "concurrent": conc.get(k)})
        res["groups"] += 1
    return res


def mode_compress(p):
    """(ri_ias15.N_allocated before, r->N, r->N_var, N_allocated after one reb_simulation_save_to_stream) on the real library, for the
    correspondence with the Gallina ias15_compress"""
    rng = random.Random(p["seed"])
    cases = []
    for k in range(p["cases"]):
        n0 = rng.randint(1, 12)
        spec = {"integrator": "ias15", "n": n0, "seed": rng.randint(1, 10 ** 6), "dt": 0.01}
        kind = k % 4
        if kind == 1:
            spec["variations"] = rng.randint(1, 3)
        if kind == 2:
            spec["megno"] = 1
        sim = build(spec)
        if rng.random() < 0.85:
            sim.steps(rng.randint(1, 3))                 # allocates 3*N
        if kind in (0, 3) and sim.N > 2:
            for _ in range(rng.randint(0, sim.N - 2)):    # N shrinks, N_allocated stays: the compression has something to do
                sim.remove(sim.N - 1)
        if kind == 3:
            spec2 = rng.randint(1, 2)
            for i in range(spec2):
                sim.add_variation()
        before = int(sim.ri_ias15._N_allocated); n = int(sim.N); nvar = int(sim.N_var)
        b1 = stream_of(sim)
        after = int(sim.ri_ias15._N_allocated)
        b2 = stream_of(sim)
        cases.append([before, n, nvar, after, int(sim.ri_ias15._N_allocated), b1 == b2])
    return {"cases": cases}


def mode_history(p):
    """observation must not change a history in which the particle number changes: IAS15 (or any integrator) -> integrate -> remove a
    particle -> [steps] -> observe by save / copy / serve / nothing -> add a particle -> integrate.  The original after each kind of
    observation, and the restored / copied / served simulation continued the same way, must equal the UNOBSERVED run bitwise."""
    wd = enter_workdir()
    rng = random.Random(p["seed"])
    spec = p["spec"]
    def prep():
        sim = build(spec)
        sim.integrate(p["t1"])
        sim.remove(p["remove_index"])
        if p["steps_between"]:
            sim.steps(p["steps_between"])
        return sim
    def finish(sim):
        sim.add(m=p["add_m"], a=p["add_a"], e=0.05, f=1.0, primary=sim.particles[0])
        sim.integrate(p["t2"])
        return particle_bits(sim)
    unobserved = finish(prep())
    res = {}
    s1 = prep(); path = os.path.join(wd, "h.bin"); s1.save_to_file(path, delete_file=True); r1 = rebound.Simulation(path)
    res["original_after_save"] = finish(s1) == unobserved; res["restored"] = finish(r1) == unobserved
    s2 = prep(); c2 = s2.copy()
    res["original_after_copy"] = finish(s2) == unobserved; res["copy"] = finish(c2) == unobserved
    s3 = prep(); port = start_server_robust(s3, rng); body = fetch(port); s3.stop_server()
    res["original_after_serve"] = finish(s3) == unobserved; res["served_snapshot"] = finish(rebound.Simulation(body)) == unobserved
    os.chdir("/"); shutil.rmtree(wd, ignore_errors=True)
    return {"agree": res, "all_agree": all(res.values())}


def mode_latestart(p):
    """the server is started from a SECOND thread while reb_simulation_integrate is already running on a server-less simulation; snapshots
    pulled afterwards must be step-boundary states and continue bit-for-bit.  Snapshots of the very step during which the server came up
    are counted separately (that step began before the server existed)."""
    wd = enter_workdir()
    rng = random.Random(p["seed"])
    spec = p["spec"]; tmax = p["tmax"]; sleep_s = p["sleep_ms"] / 1000.0
    def slow(sp): time.sleep(sleep_s)
    ref = build(spec); ref.additional_forces = lambda sp: None
    keys = set()
    ref.heartbeat = lambda sp: keys.add(phys_key(sp.contents))
    ref.integrate(tmax, exact_finish_time=0); keys.add(phys_key(ref)); final = particle_bits(ref)
    sim = build(spec); sim.additional_forces = slow
    info = {"start_steps_done": None, "port": None, "err": None}
    cl = [None]
    def starter():
        try:
            t0 = time.time()
            while int(sim.steps_done) < p["start_after_steps"] and time.time() - t0 < 30: time.sleep(0.0005)
            time.sleep(rng.uniform(0.1, 0.9) * sleep_s * p.get("calls_per_step", 1))       # somewhere inside a step
            port = free_port(rng)
            cl[0] = start_clients(port, wd, [0.0] * p["clients"], [0.0] * p["clients"], False)    # clients poll until the port answers
            time.sleep(p.get("client_warmup", 0.5))
            sim.start_server(port=port)
            # the iteration during which server_data became visible may be any between the call and its return: steps completed by
            # now bound the one unprotected step from above (all iterations that began after the return are protected)
            info["start_steps_done"] = int(sim.steps_done)
            info["port"] = port
        except Exception as e:
            info["err"] = repr(e)
    th = threading.Thread(target=starter); th.start()
    sim.integrate(tmax, exact_finish_time=0)
    th.join(60)
    got = []
    if cl[0]:
        got, _ = stop_clients(*cl[0])
    try: sim.stop_server()
    except Exception: pass
    res = {"served": len(got), "start_steps_done": info["start_steps_done"], "err": info["err"], "unparsable": 0, "mid_step_in_start_step": 0,
           "mid_step_later": 0, "examples": [], "continued": 0, "continuation_mismatch": 0, "trajectory_equal": particle_bits(sim) == final,
           "total_steps": int(sim.steps_done)}
    budget = p.get("continue", 4)
    for b in got:
        try:
            s = rebound.Simulation(b); k = phys_key(s)
        except Exception:
            res["unparsable"] += 1; continue
        if k not in keys:
            if info["start_steps_done"] is not None and int(s.steps_done) <= info["start_steps_done"]:
                res["mid_step_in_start_step"] += 1
            else:
                res["mid_step_later"] += 1
                if len(res["examples"]) < 3: res["examples"].append({"t": s.t, "steps_done": int(s.steps_done)})
        elif budget > 0 and s.t < tmax:
            budget -= 1
            s.integrate(tmax, exact_finish_time=0); res["continued"] += 1
            if particle_bits(s) != final: res["continuation_mismatch"] += 1
    os.chdir("/"); shutil.rmtree(wd, ignore_errors=True)
    return res


def mode_incomplete(p):
    """a client that goes away before the end of its request headers: does the server keep serving, does the integration go on, can the
    server still be stopped?  (os._exit at the end: a server thread that spins cannot be joined)"""
    import resource
    wd = enter_workdir()
    rng = random.Random(p["seed"])
    sim = build(p["spec"])
    port = start_server_robust(sim, rng)
    def serves():
        try:
            return len(fetch(port, timeout=2)) > 64
        except Exception:
            return False
    res = {"serves_before": serves(), "steps": []}
    for data in p["requests"]:
        raw_request(port, data.encode("latin1"), wait=0.05)
        time.sleep(0.1)
        c0 = resource.getrusage(resource.RUSAGE_SELF).ru_utime; time.sleep(0.3); c1 = resource.getrusage(resource.RUSAGE_SELF).ru_utime
        res["steps"].append({"request": data[:40], "serves_after": serves(), "cpu_burnt_in_0.3s_idle": round(c1 - c0, 2)})
    sim.integrate(p["tmax"]); res["integration_ok"] = abs(sim.t - p["tmax"]) < 1e-9
    done = [False]
    def stop():
        sim.stop_server(); done[0] = True
    th = threading.Thread(target=stop, daemon=True); th.start(); th.join(5)
    res["stop_server_returns"] = done[0]
    emit(res)
    os._exit(0)


def mode_lifecycle(p):
    """error paths of the server life cycle taken once, then the SAME process goes on with other simulations alive.
    Oracle (independent simulations do not interfere): after every action each other simulation's server still answers with the snapshot
    of ITS simulation, and each open Simulationarchive still returns its own snapshots."""
    import gc
    wd = enter_workdir()
    rng = random.Random(p["seed"])
    def mk(seed, steps):
        s_ = build({"integrator": "whfast", "n": 3, "seed": seed, "dt": 0.01})
        if steps: s_.steps(steps)
        return s_
    def fp(sim_or_bytes):
        s_ = rebound.Simulation(sim_or_bytes) if isinstance(sim_or_bytes, (bytes, bytearray)) else sim_or_bytes
        return (float(s_.t).hex(), sha("".join(particle_bits(s_)).encode()))
    # witnesses: two serving simulations and two open archives, each with its own content
    live = {}
    for name, seed in (("A", 101), ("C", 303)):
        s_ = mk(seed, 5); live[name] = {"sim": s_, "port": start_server_robust(s_, rng), "fp": fp(s_)}
    archives = {}
    for name, seed in (("X", 404), ("Y", 505)):
        path = os.path.join(wd, name + ".bin")
        s_ = mk(seed, 0); s_.save_to_file(path, delete_file=True); s_.steps(3); s_.save_to_file(path); s_.steps(3); s_.save_to_file(path)
        expected = [fp(rebound.Simulation(path, snapshot=i)) for i in range(3)]
        archives[name] = {"sa": rebound.Simulationarchive(path), "expected": expected}
    log = []
    def witnesses(action):
        bad = []
        for name, w in live.items():
            try:
                got = fp(fetch(w["port"], timeout=3))
                if got != w["fp"]: bad.append("server %s answers with a different simulation" % name)
            except Exception as e:
                bad.append("server %s does not answer: %s" % (name, type(e).__name__))
        for name, a in archives.items():
            for i in (2, 0, 1):
                try:
                    if fp(a["sa"][i]) != a["expected"][i]: bad.append("archive %s snapshot %d returns other bytes" % (name, i))
                except Exception as e:
                    bad.append("archive %s snapshot %d: %s" % (name, i, type(e).__name__))
        log.append({"action": action, "bad": bad})
    def expect_error(f):
        try:
            f(); return "no error"
        except RuntimeError as e:
            return "RuntimeError"
        except Exception as e:
            return type(e).__name__
    def open_things():
        """whoever opens something next gets the lowest free descriptor numbers"""
        s_ = mk(rng.randint(1, 10 ** 6), 2)
        name = "N%d" % len(live)
        live[name] = {"sim": s_, "port": start_server_robust(s_, rng), "fp": fp(s_)}
        path = os.path.join(wd, name + ".bin")
        t_ = mk(rng.randint(1, 10 ** 6), 0); t_.save_to_file(path, delete_file=True); t_.steps(2); t_.save_to_file(path); t_.steps(2); t_.save_to_file(path)
        archives[name] = {"sa": rebound.Simulationarchive(path), "expected": [fp(rebound.Simulation(path, snapshot=i)) for i in range(3)]}
    witnesses("initial")
    # 1. port in use -> refused; others open descriptors; the refused simulation is stopped / freed
    for how in ("free", "stop"):
        b = mk(202, 1)
        r_ = expect_error(lambda: b.start_server(port=live["A"]["port"]))
        witnesses("start on a port in use (%s)" % r_)
        open_things(); witnesses("others opened descriptors after the refused start")
        if how == "free":
            del b; gc.collect()
        else:
            b.stop_server(); b.stop_server()
        witnesses("refused simulation %s" % ("freed" if how == "free" else "stopped twice"))
        open_things(); witnesses("others opened descriptors afterwards")
    # 2. start twice on the same simulation, stop twice, stop without start, start after stop
    d = mk(606, 1); pd = start_server_robust(d, rng)
    r_ = expect_error(lambda: d.start_server(port=free_port(rng))); witnesses("second start on a serving simulation (%s)" % r_)
    d.stop_server(); witnesses("stop"); open_things(); d.stop_server(); witnesses("second stop after others opened descriptors")
    e = mk(707, 1); e.stop_server(); witnesses("stop without start")
    pd2 = start_server_robust(d, rng); ok_ = fp(fetch(pd2, timeout=3)) == fp(d); witnesses("start after stop (serves: %s)" % ok_)
    # 3. free while serving (clients polling)
    cl = start_clients(pd2, wd, [0.0, 0.0], [0.0, 0.0], False); time.sleep(0.1)
    del d; gc.collect(); stop_clients(*cl); witnesses("freed while serving")
    open_things(); witnesses("others opened descriptors after that")
    for w in live.values():
        try: w["sim"].stop_server()
        except Exception: pass
    bad = [x for x in log if x["bad"]]
    os.chdir("/"); shutil.rmtree(wd, ignore_errors=True)
    return {"actions": len(log), "servers": len(live), "archives": len(archives), "violations": bad[:4], "n_bad": len(bad), "trace": [x["action"] for x in log]}


def mode_teardown(p):
    """life cycle under load: simulations with a running server and clients fetching continuously are freed (Python: del ->
    reb_simulation_free_pointers -> reb_simulation_stop_server) or have their server stopped and restarted; a crash or hang of this
    process is the finding; afterwards a fresh simulation must still integrate to the reference bits."""
    import gc
    wd = enter_workdir()
    rng = random.Random(p["seed"])
    ref = build(p["spec"]); ref.integrate(p["tmax"]); refbits = particle_bits(ref)
    n_free = n_restart = 0
    for it in range(p["iterations"]):
        sim = build(p["spec"])
        for i in range(p.get("extra_particles", 2000)):
            sim.add(m=0., a=5 + i * 1e-3)
        sim.N_active = p["spec"]["n"] + 1
        if it % 2 == 0:
            clibrebound.reb_simulation_add_display_settings(ctypes.byref(sim))
        port = start_server_robust(sim, rng)
        cl = start_clients(port, wd, [0.0] * p["clients"], [0.0] * p["clients"], False)
        time.sleep(rng.uniform(0.02, 0.08))
        if it % 3 == 2:
            sim.stop_server(); n_restart += 1
            port2 = start_server_robust(sim, rng)
            time.sleep(0.01)
        del sim; gc.collect(); n_free += 1
        stop_clients(*cl)
    chk = build(p["spec"]); chk.integrate(p["tmax"])
    os.chdir("/"); shutil.rmtree(wd, ignore_errors=True)
    return {"freed": n_free, "restarted": n_restart, "afterwards_equal": particle_bits(chk) == refbits}


def mode_fdclose(p):
    """simulation A serves requests (client in another process) while the main thread saves and re-loads simulation B.
    server.c closes each connection descriptor twice; the second close can hit B's file descriptor."""
    wd = enter_workdir()
    rng = random.Random(p["seed"])
    a = build({"integrator": "whfast", "n": 2, "seed": p["seed"], "dt": 0.01})
    b = build({"integrator": "whfast", "n": 3, "seed": p["seed"] + 1, "dt": 0.01})
    for i in range(p["N"]):
        b.add(m=0., a=3 + i * 0.001)
    ref = sha(canon(stream_of(b)))

    def cycle(seconds):
        bad = []; n = 0; t0 = time.time()
        while time.time() - t0 < seconds:
            fn = os.path.join(wd, "b%d.bin" % (n % 4))
            b.save_to_file(fn, delete_file=True)
            n += 1
            try:
                l = rebound.Simulation(fn)
                if sha(canon(stream_of(l))) != ref:
                    bad.append((n, "loaded simulation differs"))
                del l
            except Exception as e:
                bad.append((n, repr(e)[:120]))
        return n, bad
    n0, bad0 = cycle(p["seconds"] / 2.0)                 # control: no server traffic
    port = start_server_robust(a, rng)
    cl = start_clients(port, wd, [0.0] * p["clients"], [0.0] * p["clients"], False)
    time.sleep(0.05)
    n1, bad1 = cycle(p["seconds"])
    got, _ = stop_clients(*cl)
    a.stop_server()
    os.chdir("/"); shutil.rmtree(wd, ignore_errors=True)
    return {"control_cycles": n0, "control_failures": len(bad0), "cycles": n1, "failures": len(bad1), "examples": bad1[:3] + bad0[:2], "served": len(got)}


def mode_w512(p):
    def mk(m0, gr):
        return build({"integrator": "whfast512", "n": 8, "seed": p["seed"], "dt": 0.05, "m0": m0, "gr": gr})
    def state(s):
        s.synchronize()
        return [(q.x.hex(), q.y.hex(), q.z.hex(), q.vx.hex(), q.vy.hex(), q.vz.hex()) for q in s.particles]
    n = p["steps"]
    (ma, ga), (mb, gb) = p["a"], p["b"]
    a = mk(ma, ga); a.steps(n); ra = state(a)
    b = mk(mb, gb); b.steps(n); rb = state(b)
    a2 = mk(ma, ga); b2 = mk(mb, gb)
    for i in range(n):
        a2.steps(1); b2.steps(1)
    sa, sb = state(a2), state(b2)
    # control: two identical configurations alternated must be unaffected
    c1 = mk(ma, ga); c2 = mk(ma, ga)
    for i in range(n):
        c1.steps(1); c2.steps(1)
    # the same two simulations stepped CONCURRENTLY from two threads (the file-scope constants are shared by all threads)
    thr = None
    if p.get("thread_steps"):
        nt = p["thread_steps"]
        a3 = mk(ma, ga); a3.steps(nt); ra3 = state(a3)
        b3 = mk(mb, gb); b3.steps(nt); rb3 = state(b3)
        a4 = mk(ma, ga); b4 = mk(mb, gb)
        ths = [threading.Thread(target=lambda s_=s_: s_.steps(nt)) for s_ in (a4, b4)]
        for t in ths: t.start()
        for t in ths: t.join(120)
        thr = {"a_equal": state(a4) == ra3, "b_equal": state(b4) == rb3, "steps": nt}
    return {"threads": thr, "a_equal": sa == ra, "b_equal": sb == rb, "control_equal": state(c1) == ra and state(c2) == ra,
            "a_separate_p1": ra[1], "a_alternated_p1": sa[1]}


if __name__ == "__main__":
    mode = sys.argv[1]
    if mode == "client":
        mode_client(); sys.stdout.flush(); os._exit(0)
    params = json.load(sys.stdin)
    res = {"conc": mode_conc, "server": mode_server, "torn": mode_torn, "w512": mode_w512, "fdclose": mode_fdclose, "steps": mode_steps, "keyboard": mode_keyboard, "coresident": mode_coresident, "teardown": mode_teardown, "hammer": mode_hammer, "compress": mode_compress, "history": mode_history, "latestart": mode_latestart, "incomplete": mode_incomplete, "lifecycle": mode_lifecycle}[mode](params)
    emit(res)
    os._exit(0)
