"""C03 exactness oracle, independent of rebound's solver: the exact two-body (Kepler) flow in
80-digit decimal arithmetic.

flow(p, mu, dt): from a state p = (x,y,z,vx,vy,vz) (binary64 values, taken exactly), gravitational parameter mu
and time dt, solve the universal Kepler equation  r0 X + eta0 G2 + zeta0 G3 = dt  with closed-form Stiefel
functions (cos/sin resp. exp, own Taylor series and argument reduction) by safeguarded Newton on the monotone
function F (F' = r > 0) started from the a-priori bracket dt/r_max .. dt/r_min; verify the residual; return the
exact new state.  None of rebound's series / doubling / Newton / quartic / bisection code is used.

judge(p, mu, dt, out): forward error of a library result against the exact flow, with an amplification-aware
tolerance: the first-order change of the exact result under perturbations of each input by 1 unit roundoff
(normwise per vector, and of mu and dt), measured by finite differences in high precision, plus 1 ulp of the result.
Also the invariants (energy, angular momentum vector, eccentricity vector) of the library's output vs the input.
"""
from decimal import Decimal as D, getcontext, localcontext
import math

PREC = 80


def _setctx():
    c = getcontext()
    c.prec = PREC
    c.Emax = 10 ** 17          # exp() of a wide initial hyperbolic bracket must neither overflow nor underflow
    c.Emin = -10 ** 17


_setctx()


def _pi():
    # Machin: pi = 16 atan(1/5) - 4 atan(1/239)
    with localcontext() as c:
        c.prec = PREC + 15
        def atan_inv(n):
            x = D(1) / n
            x2 = x * x
            s = x
            t = x
            k = 1
            while True:
                t = -t * x2
                k += 2
                d = t / k
                if abs(d) < D(10) ** (-(PREC + 12)):
                    break
                s += d
            return s
        return +(16 * atan_inv(5) - 4 * atan_inv(239))


PI = _pi()
TWOPI = 2 * PI
EPS = D(10) ** (-(PREC - 4))
CONV = D(10) ** -45      # relative step at which the safeguarded Newton iteration stops


def sincos(x):
    """(sin x, cos x) for Decimal x"""
    k = (x / TWOPI).to_integral_value()
    y = x - k * TWOPI
    # reduce further by repeated halving: y/2^m small, then double-angle
    m = 0
    while abs(y) > D("0.05"):
        y = y / 2
        m += 1
    y2 = y * y
    s = y
    t = y
    n = 1
    while True:
        t = -t * y2 / ((n + 1) * (n + 2))
        n += 2
        if abs(t) < EPS * D("1e-6"):
            break
        s += t
    # 1-cos computed as 2 sin^2(y/2)-free series for accuracy
    c1 = D(0)          # c1 = 1 - cos y
    t = y2 / 2
    n = 2
    c1 = t
    while True:
        t = -t * y2 / ((n + 1) * (n + 2))
        n += 2
        if abs(t) < EPS * D("1e-6"):
            break
        c1 += t
    for _ in range(m):
        # sin 2a = 2 sin a cos a ; 1 - cos 2a = 2 sin^2 a
        s, c1 = 2 * s * (1 - c1), 2 * s * s
    return s, 1 - c1, c1


def stiefel(beta, X):
    """closed-form G0..G3 (Decimal)"""
    if beta > 0:
        sb = beta.sqrt()
        s, c, omc = sincos(sb * X)
        G1 = s / sb
        G2 = omc / beta
        G3 = (X - G1) / beta
        return c, G1, G2, G3
    if beta < 0:
        sb = (-beta).sqrt()
        th = sb * X
        e = th.exp()
        ei = 1 / e
        ch = (e + ei) / 2
        sh = (e - ei) / 2
        G1 = sh / sb
        G2 = (1 - ch) / beta
        G3 = (X - G1) / beta
        return ch, G1, G2, G3
    return D(1), X, X * X / 2, X * X * X / 6


class NoSolution(Exception):
    pass


def flow(p, mu, dt, X0=None):
    """exact Kepler flow; p, mu, dt: Decimal (or float -> exact). Returns (state', X, info dict)"""
    _setctx()
    x, y, z, vx, vy, vz = [D(v) for v in p]
    mu = D(mu); dt = D(dt)
    r0 = (x * x + y * y + z * z).sqrt()
    v2 = vx * vx + vy * vy + vz * vz
    beta = 2 * mu / r0 - v2
    eta0 = x * vx + y * vy + z * vz
    zeta0 = mu - beta * r0

    def F(X):
        G0, G1, G2, G3 = stiefel(beta, X)
        return r0 * X + eta0 * G2 + zeta0 * G3 - dt, r0 + eta0 * G1 + zeta0 * G2, (G0, G1, G2, G3)

    # a-priori bracket from r_min <= r <= r_max  (dt = integral of r dX)
    h2 = r0 * r0 * v2 - eta0 * eta0
    if h2 < 0:
        h2 = D(0)
    disc = (mu * mu - beta * h2)
    disc = disc.sqrt() if disc > 0 else D(0)
    # pericentre q = h2/(mu + sqrt(mu^2 - beta h2)) ; apocentre (elliptic) Q = (mu + sqrt(..))/beta
    q = h2 / (mu + disc) if (mu + disc) != 0 else D(0)
    if X0 is None:
        if beta > 0:
            Q = (mu + disc) / beta
            lo, hi = dt / Q, (dt / q if q > 0 else None)
        else:
            # r along the arc <= r0 + |vinf-ish| ... use doubling search instead of an explicit r_max
            lo, hi = D(0), (dt / q if q > 0 else None)
        if hi is None:
            raise NoSolution("radial orbit")
        if lo > hi:
            lo, hi = hi, lo
        Xc = (lo + hi) / 2
    else:
        Xc = D(X0)
        lo = hi = None
    # F is increasing.  Phase 1: bisection until the bracket spans less than half a radian of sqrt|beta| X
    # (Newton converges slowly from far away in the exponential / multi-revolution regime).
    sb = abs(beta).sqrt()
    if lo is not None:
        for it in range(4000):
            if sb * (hi - lo) <= D("0.5"):
                break
            Xc = (lo + hi) / 2
            f, fp, G = F(Xc)
            if f > 0:
                hi = Xc
            else:
                lo = Xc
        Xc = (lo + hi) / 2
    # Phase 2: safeguarded Newton
    for it in range(400):
        f, fp, G = F(Xc)
        if lo is not None:
            if f > 0:
                hi = Xc
            else:
                lo = Xc
        if f == 0:
            break
        step = f / fp
        Xn = Xc - step
        if lo is not None and not (lo <= Xn <= hi):
            Xn = (lo + hi) / 2
        if abs(Xn - Xc) <= abs(Xc) * CONV:
            Xc = Xn
            f, fp, G = F(Xc)
            break
        Xc = Xn
    else:
        raise NoSolution("no convergence")
    if fp <= 0:
        raise NoSolution("non-positive radius")
    # residual check (relative to the magnitude of the terms)
    G0, G1, G2, G3 = G
    scale = abs(r0 * Xc) + abs(eta0 * G2) + abs(zeta0 * G3) + abs(dt)
    if abs(f) > scale * D("1e-40"):
        raise NoSolution("residual %s" % f)
    r = fp
    f_ = 1 - mu * G2 / r0
    g_ = dt - mu * G3
    fd = -mu * G1 / (r0 * r)
    gd = 1 - mu * G2 / r
    out = (f_ * x + g_ * vx, f_ * y + g_ * vy, f_ * z + g_ * vz,
           fd * x + gd * vx, fd * y + gd * vy, fd * z + gd * vz)
    theta = abs((abs(beta)).sqrt() * Xc)
    Sr = r0 + abs(eta0 * G1) + abs(zeta0 * G2)
    return out, Xc, {"beta": beta, "r0": r0, "r": r, "theta": theta, "q": q, "S": scale, "Sr": Sr,
                     "absf": abs(mu * G2 / r0), "absg": abs(dt) + abs(mu * G3), "absfd": abs(fd), "absgd": abs(mu * G2 / r)}


def norm3(a, b, c):
    return (a * a + b * b + c * c).sqrt()


U = D(2) ** -53
DELTA = D(10) ** -30


def invariants(p, mu):
    x, y, z, vx, vy, vz = [D(v) for v in p]
    mu = D(mu)
    r = norm3(x, y, z)
    v2 = vx * vx + vy * vy + vz * vz
    E = v2 / 2 - mu / r
    h = (y * vz - z * vy, z * vx - x * vz, x * vy - y * vx)
    eta = x * vx + y * vy + z * vz
    c = v2 - mu / r
    e = ((c * x - eta * vx) / mu, (c * y - eta * vy) / mu, (c * z - eta * vz) / mu)
    return E, h, e


def judge(p, mu, dt, out, K=64, with_invariants=True, compound=False, _return_tol=False):
    """returns dict(ok, ratio_pos, ratio_vel, ratio_E, ratio_h, ratio_e, theta) ; ratios = error / tolerance."""
    _setctx()
    pD = [D(v) for v in p]
    ref, X, info = flow(pD, mu, dt)
    r0 = info["r0"]
    v0 = norm3(*pD[3:])
    # first-order sensitivity of the exact result to 1-roundoff perturbations of the inputs
    sens = [D(0)] * 6
    pert = []
    for j in range(3):
        q = list(pD); q[j] = q[j] + DELTA * r0; pert.append((q, D(mu), D(dt)))
    for j in range(3, 6):
        q = list(pD); q[j] = q[j] + DELTA * v0; pert.append((q, D(mu), D(dt)))
    pert.append((pD, D(mu) * (1 + DELTA), D(dt)))
    pert.append((pD, D(mu), D(dt) * (1 + DELTA)))
    for q, m2, t2 in pert:
        o2, _, _ = flow(q, m2, t2, X0=X)
        for k in range(6):
            sens[k] += abs(o2[k] - ref[k]) / DELTA
    spos = norm3(*sens[:3]); svel = norm3(*sens[3:])
    rp = norm3(*ref[:3]); vp = norm3(*ref[3:])
    # the solver's X is only determined up to (a) the rounding noise of the Kepler function it drives to zero,
    # u * S with S = |r0 X| + |eta0 G2| + |zeta0 G3| + |dt|, divided by F' = r', and (b) the documented relative exit
    # tolerance 1e-15 of the bisection fallback (|Xmax-Xmin| <= 1e-15 |Xmax+Xmin|, i.e. 2e-15/u = 18 roundoffs of X).
    # dx/dX = v' r', dv/dX = -mu x'/r'^3 * r'.
    muD = D(mu)
    dX = info["S"] / info["r"] + 18 * abs(X)
    spos += vp * info["r"] * dX
    svel += muD / info["r"] * dX
    # (c) first-order rounding analysis of the final formulas x' = x + (f x + g v), v' = v + (fd x + gd v) with
    # f = -mu G2/r0, g = dt - mu G3, fd = -mu G1/(r0 r'), gd = -mu G2/r', r' = r0 + eta0 G1 + zeta0 G2: each product
    # carries a relative error of a few u, and r' one of u*Sr/r' (cancellation; large for long hyperbolic arcs).
    kr = info["Sr"] / info["r"]
    spos += r0 * (1 + info["absf"]) + info["absg"] * v0
    svel += (info["absfd"] * r0 + info["absgd"] * v0) * (1 + kr) + v0
    # (1 + theta): the rounding errors of the Stiefel functions themselves grow with the argument
    # theta = sqrt|beta| X (argument-doubling recurrences), on top of the sensitivity of the exact flow
    amp = 1 + info["theta"]
    if compound:
        # several solver calls in sequence (sub-steps of a full integrator step): the energy error of an early
        # sub-step (~ theta^2 u) is turned into a phase error by the later ones (x theta)
        amp = amp * amp
    tol_pos = K * U * amp * (spos + rp)
    tol_vel = K * U * amp * (svel + vp)
    if _return_tol:
        return {"tol_pos": tol_pos, "tol_vel": tol_vel, "theta": float(info["theta"])}
    oD = [D(v) for v in out]
    epos = norm3(*[oD[k] - ref[k] for k in range(3)])
    evel = norm3(*[oD[k] - ref[k] for k in range(3, 6)])
    res = {"ratio_pos": float(epos / tol_pos), "ratio_vel": float(evel / tol_vel), "theta": float(info["theta"]),
           "err_pos_rel": float(epos / rp), "err_vel_rel": float(evel / vp)}
    ok = epos <= tol_pos and evel <= tol_vel
    if with_invariants:
        # invariants (energy, angular momentum vector, eccentricity vector) of the library's output vs the input.
        # The exact flow conserves them, so |I(out) - I(in)| = |I(out) - I(ref)| <= |dI/dstate| * |out - ref|:
        # the tolerance is the forward tolerance propagated through the gradient of each invariant (factor 4 margin).
        E0, h0, e0 = invariants(pD, mu)
        E1, h1, e1 = invariants(oD, mu)
        muD = D(mu)
        tolE = 4 * (vp * tol_vel + muD / (rp * rp) * tol_pos)
        tolh = 4 * (rp * tol_vel + vp * tol_pos)
        tole = 4 * ((3 * rp * vp * tol_vel + (vp * vp + 2 * muD / rp) * tol_pos) / muD)
        dE = abs(E1 - E0)
        dh = norm3(*[h1[k] - h0[k] for k in range(3)])
        de = norm3(*[e1[k] - e0[k] for k in range(3)])
        hn = norm3(*h0)
        res.update({"ratio_E": float(dE / tolE), "ratio_h": float(dh / tolh), "ratio_e": float(de / tole),
                    "dE_rel": float(dE / (vp * vp + muD / rp)), "dh_rel": float(dh / hn) if hn else 0.0, "de_abs": float(de)})
        ok = ok and dE <= tolE and dh <= tolh and de <= tole
    res["ok"] = bool(ok)
    return res


def judge_two_halves(p, mu, dt, out, K=64):
    """Full integrator step = two solver calls of dt/2 (WHFast, MERCURIUS, TRACE; SABA's stages are treated alike).
    The first half's admissible error (tolerance of a single call from p) is a perturbation of the exact midpoint
    state, of relative size k1 roundoffs (estimated with K=1); the second half amplifies it by its own input sensitivity, which the
    single-call tolerance from the midpoint already measures per roundoff.  Total tolerance =
    tol(second half from the exact midpoint) * (1 + k1) ; the result is compared with the exact flow of dt."""
    _setctx()
    pD = [D(v) for v in p]
    half = D(dt) / 2
    mid, _, _ = flow(pD, mu, half)
    r1 = judge(pD, mu, half, [float(v) for v in mid], K=1, with_invariants=False, compound=True, _return_tol=True)
    rm = norm3(*mid[:3]); vm = norm3(*mid[3:])
    k1 = max(r1["tol_pos"] / rm, r1["tol_vel"] / vm) / U
    ref, _, _ = flow(pD, mu, dt)
    r2 = judge(mid, mu, half, [float(v) for v in ref], K=K, with_invariants=False, compound=True, _return_tol=True)
    tol_pos = r2["tol_pos"] * (1 + k1)
    tol_vel = r2["tol_vel"] * (1 + k1)
    oD = [D(v) for v in out]
    rp = norm3(*ref[:3]); vp = norm3(*ref[3:])
    epos = norm3(*[oD[k] - ref[k] for k in range(3)])
    evel = norm3(*[oD[k] - ref[k] for k in range(3, 6)])
    res = {"ratio_pos": float(epos / tol_pos), "ratio_vel": float(evel / tol_vel), "theta": r2["theta"] * 2,
           "err_pos_rel": float(epos / rp), "err_vel_rel": float(evel / vp), "k1_roundoffs": float(k1)}
    muD = D(mu)
    E0, h0, e0 = invariants(pD, mu)
    E1, h1, e1 = invariants(oD, mu)
    tolE = 4 * (vp * tol_vel + muD / (rp * rp) * tol_pos)
    tolh = 4 * (rp * tol_vel + vp * tol_pos)
    tole = 4 * ((3 * rp * vp * tol_vel + (vp * vp + 2 * muD / rp) * tol_pos) / muD)
    dE = abs(E1 - E0)
    dh = norm3(*[h1[k] - h0[k] for k in range(3)])
    de = norm3(*[e1[k] - e0[k] for k in range(3)])
    res.update({"ratio_E": float(dE / tolE), "ratio_h": float(dh / tolh), "ratio_e": float(de / tole)})
    res["ok"] = bool(epos <= tol_pos and evel <= tol_vel and dE <= tolE and dh <= tolh and de <= tole)
    return res
