"""C18 — the Python classes mirror the C structures and options exactly.

1. regeneration: tools/translate_structs.py (clang AST of the CURRENT src/*.h) -> coq/Gen/Structs.v,
                 tools/translate_pymirror.py (python ast of the CURRENT rebound/**/*.py) -> coq/Gen/PyMirror.v;
2. proof obligations: coq/C18 (general layout lemmas; exhaustive vm_compute theorems over the regenerated data);
3. correspondence: the Coq SysV layout model == gcc (offsetof/sizeof/alignof of every member of every record, enum values)
                   the Coq ctypes layout model == ctypes (Class.field.offset/.size on the library built from the tree);
4. searcher (library-only, always run): sentinel through every python field vs the C offset computed by gcc, every option
   name through its property vs the raw C member and the gcc enum value, named callbacks vs the exported symbol address,
   library-embedded offsets (reb_binary_field_descriptor_list) vs the current header, dlsym of every referenced symbol.
"""
import json, os, re, subprocess, sys
import vlib

HDR = ("From Coq Require Import ZArith String List.\n"
       "From RV Require Import C18.Types C18.Model C18.Tables Gen.Structs Gen.PyMirror Gen.DocOptions.\n"
       "Import ListNotations.\nOpen Scope string_scope. Open Scope Z_scope.\n")


# ----------------------------------------------------------------------------- parsing Coq terms printed by Eval
def coq_parse(txt):
    """Parse a printed Coq value built from lists, tuples, strings, integers, Some/None, true/false."""
    toks = re.findall(r'"(?:[^"]|"")*"|-?\d+|[A-Za-z_]\w*|[()\[\];,]', txt)
    pos = [0]

    def peek():
        return toks[pos[0]] if pos[0] < len(toks) else None

    def nxt():
        t = peek(); pos[0] += 1; return t

    def atom():
        t = nxt()
        if t is None:
            raise ValueError("unexpected end")
        if t.startswith('"'):
            return t[1:-1].replace('""', '"')
        if re.match(r"-?\d+$", t):
            return int(t)
        if t == "[":
            out = []
            if peek() == "]":
                nxt(); return out
            while True:
                out.append(term())
                t2 = nxt()
                if t2 == "]": return out
                if t2 != ";": raise ValueError("';' expected, got %r" % t2)
        if t == "(":
            items = [term()]
            while peek() == ",":
                nxt(); items.append(term())
            if nxt() != ")": raise ValueError("')' expected")
            return items[0] if len(items) == 1 else tuple(items)
        if t == "Some":
            return ("Some", atom())
        if t in ("None", "true", "false"):
            return {"None": None, "true": True, "false": False}[t]
        raise ValueError("unexpected token %r" % t)

    def term():
        return atom()
    v = term()
    return v


def eval_blocks(out):
    """Split coqc output into the values printed by successive  Eval vm_compute in  commands."""
    parts = re.split(r"^\s+= ", out, flags=re.M)[1:]
    vals = []
    for p in parts:
        body = re.split(r"^\s+: ", p, flags=re.M)[0]
        vals.append(coq_parse(body))
    return vals


# ----------------------------------------------------------------------------- gcc ground truth
def gcc_truth(ctx, sj, extra=()):
    d = os.path.join(vlib.BUILD, "c18")
    src = os.path.join(d, "truth_%d.c" % os.getpid()); exe = src[:-2]
    L = ["#include <stdio.h>", "#include <stddef.h>"] + ['#include "%s"' % h for h in sj["headers"]]
    L.append("int main(void){")
    for s in sj["structs"]:
        sp = s["spelling"]
        if not sp:
            continue
        for m in s["members"]:
            L.append('  printf("M %s %s %%zu %%zu\\n", offsetof(%s, %s), sizeof(((%s*)0)->%s));' % (s["name"], m, sp, m, sp, m))
        L.append('  printf("S %s %%zu %%zu\\n", sizeof(%s), (size_t)__alignof__(%s));' % (s["name"], sp, sp))
    for e in sj["enums"]:
        for c, _ in e["consts"]:
            L.append('  printf("E %s %%lld\\n", (long long)%s);' % (c, c))
    L.append("  return 0; }")
    open(src, "w").write("\n".join(L) + "\n")
    flags = [f for f in vlib.CFLAGS if f not in ("-O3", "-g")] + ["-O0"] + list(extra)
    r = subprocess.run(["gcc"] + flags + ["-I" + os.path.join(vlib.REPO, "src"), src, "-o", exe], capture_output=True, text=True)
    if r.returncode != 0:
        return None, "gcc failed: " + r.stderr[-1500:]
    r2 = subprocess.run([exe], capture_output=True, text=True, timeout=60)
    for f in (src, exe):
        try: os.remove(f)
        except OSError: pass
    if r2.returncode != 0:
        return None, "truth program failed"
    coff = {}; csize = {}; enum = {}
    for line in r2.stdout.splitlines():
        p = line.split(" ")
        if p[0] == "M":
            coff.setdefault(p[1], {})[p[2]] = [int(p[3]), int(p[4])]
        elif p[0] == "S":
            csize[p[1]] = [int(p[2]), int(p[3])]
        elif p[0] == "E":
            enum[p[1]] = int(p[2])
    return (coff, csize, enum), ""


def compare_c(sj, c_lines, coq_consts, truth):
    coff, csize, enum = truth
    bad = []; n_c = 0
    spelled = {s["name"] for s in sj["structs"] if s["spelling"]}
    coq_c = {}
    for st, mem, off, sz in c_lines:
        coq_c.setdefault(st, {})[mem] = [off, sz]
    for st in spelled:
        want = dict(coff.get(st, {})); want["<sizeof>"] = csize.get(st)
        got = coq_c.get(st, {})
        for mem in set(want) | set(got):
            n_c += 1
            if want.get(mem) != got.get(mem):
                bad.append(("%s.%s" % (st, mem), "gcc", want.get(mem), "coq", got.get(mem)))
    for c in set(enum) | set(coq_consts):
        n_c += 1
        if enum.get(c) != coq_consts.get(c):
            bad.append((c, "gcc", enum.get(c), "translated", coq_consts.get(c)))
    return n_c, bad


def avx512_variant(ctx):
    """thorough tier: the -DAVX512 build changes struct reb_particle_avx512 (vector members, aligned(64)); check the C layout
    model against gcc for that configuration too (the python side does not mirror that record)."""
    r = subprocess.run([vlib.PY, os.path.join(vlib.ROOT, "tools", "translate_structs.py")], capture_output=True, text=True,
                       env=dict(os.environ, VERIF_REPO=vlib.REPO, VERIF_C18_VARIANT="avx512"), timeout=300)
    ctx.obligation("regenerate:translate_structs.py[avx512]", r.returncode == 0, (r.stdout + r.stderr)[-1500:])
    if r.returncode != 0:
        return
    sj = json.load(open(os.path.join(vlib.BUILD, "c18", "structs_avx512.json")))
    truth, err = gcc_truth(ctx, sj, extra=["-DAVX512", "-mavx512f"])
    gen = open(os.path.join(vlib.BUILD, "c18", "Structs_avx512.v")).read()
    body = gen + ("From RV Require Import C18.Model.\n"
                  "Eval vm_compute in (match c_layouts c_structs with Some l => layout_lines l | None => [] end).\n"
                  "Eval vm_compute in (all_consts c_enums).\n")
    ok, out = vlib.coq_eval("c18_avx512", body, 300)
    vals = None
    if ok:
        try:
            vals = eval_blocks(out)
        except ValueError:
            vals = None
    if truth is None or vals is None or len(vals) != 2:
        ctx.obligation("correspondence:C18[avx512] evaluates", False, (err + out)[-1500:]); return
    n_c, bad = compare_c(sj, vals[0], dict(vals[1]), truth)
    ctx.obligation("correspondence:C18[avx512] Coq SysV layout (vector members, aligned(64)) == gcc -DAVX512 (%d items)" % n_c,
                   not bad, "mismatches: %s" % bad[:8])
    ctx.traces += n_c if not bad else 0


SYN_SCALARS = [("char", "c_char"), ("signed char", "c_byte"), ("unsigned char", "c_ubyte"), ("short", "c_short"),
               ("unsigned short", "c_ushort"), ("int", "c_int"), ("unsigned int", "c_uint"), ("long", "c_long"),
               ("unsigned long", "c_ulong"), ("long long", "c_longlong"), ("float", "c_float"), ("double", "c_double"),
               ("long double", "c_longdouble"), ("_Bool", "c_bool")]


def synthetic_layouts(ctx):
    """Edge-of-domain correspondence of the two layout MODELS, independent of rebound's structs: degenerate records (empty,
    one member, zero-length arrays, tail padding, arrays of records, nested empty records, long double, unions and aligned
    members on the C side) plus seeded random records.  Coq SysV model == gcc, Coq ctypes model == ctypes."""
    import ctypes
    rng = ctx.rng
    recs = []          # (name, union, [(member, type)])  type: ("s", idx) | ("p",) | ("f",) | ("a", n, t) | ("r", recname) ; aligned via ("al", n, t)
    sc = lambda cname: ("s", [c for c, _ in SYN_SCALARS].index(cname))
    recs.append(("E0", False, []))
    recs.append(("S1", False, [("a", sc("char"))]))
    recs.append(("S2", False, [("a", sc("char")), ("b", sc("double"))]))
    recs.append(("S3", False, [("a", sc("double")), ("b", sc("char"))]))
    recs.append(("S4", False, [("a", sc("char")), ("b", sc("short")), ("c", sc("char")), ("d", sc("int")), ("e", sc("char")), ("f", sc("long"))]))
    recs.append(("S5", False, [("n", sc("int")), ("tail", ("a", 0, sc("double")))]))
    recs.append(("S6", False, [("v", ("a", 3, ("r", "S3"))), ("z", sc("char"))]))
    recs.append(("S7", False, [("a", sc("char")), ("e", ("r", "E0")), ("b", sc("int")), ("e2", ("a", 2, ("r", "E0")))]))
    recs.append(("S8", False, [("a", sc("char")), ("ld", sc("long double")), ("b", sc("char"))]))
    recs.append(("S9", False, [("a", sc("_Bool")), ("b", ("a", 1024, sc("char"))), ("p", ("p",)), ("f", ("f",)), ("c", ("a", 1, sc("short")))]))
    recs.append(("S10", False, [("only", ("a", 0, sc("char")))]))
    recs.append(("S11", False, [("big", ("a", 100000, ("r", "S4"))), ("z", sc("char"))]))
    for k in range(ctx.scale(16, 200)):
        ms = []
        for j in range(rng.choice([0, 1, 1, 2, 3, 4, 5, 8])):
            u = rng.random()
            if u < 0.55: t = ("s", rng.randrange(len(SYN_SCALARS)))
            elif u < 0.65: t = ("p",) if rng.random() < 0.5 else ("f",)
            elif u < 0.8: t = ("a", rng.choice([0, 1, 2, 3, 7]), ("s", rng.randrange(len(SYN_SCALARS))))
            else:
                r_ = rng.choice(recs)[0]
                t = ("r", r_) if rng.random() < 0.6 else ("a", rng.choice([0, 1, 3]), ("r", r_))
            ms.append(("m%d" % j, t))
        recs.append(("R%d" % k, False, ms))
    py_n = len(recs)
    # C-only corners: unions, aligned members
    recs.append(("U0", True, []))
    recs.append(("U1", True, [("a", sc("char")), ("b", sc("double")), ("c", ("a", 3, sc("int")))]))
    recs.append(("U2", True, [("a", ("r", "S3")), ("b", ("a", 17, sc("char")))]))
    recs.append(("A1", False, [("a", sc("char")), ("b", ("al", 64, sc("double"))), ("c", sc("char"))]))
    recs.append(("A2", False, [("a", ("al", 1, sc("double"))), ("b", ("al", 16, sc("char"))), ("u", ("r", "U1"))]))

    def cq(t):
        if t[0] == "s": return 'CPrim "%s"' % SYN_SCALARS[t[1]][0]
        if t[0] == "p": return "CPtr CVoid"
        if t[0] == "f": return "CPtr (CFun CVoid [] false)"
        if t[0] == "a": return "CArr %d (%s)" % (t[1], cq(t[2]))
        if t[0] == "r": return 'CStruct "%s"' % t[1]
        if t[0] == "al": return cq(t[2])
    def pq(t):
        if t[0] == "s": return 'PPrim "%s"' % SYN_SCALARS[t[1]][1]
        if t[0] == "p": return 'PPrim "c_void_p"'
        if t[0] == "f": return "PFun PNone []"
        if t[0] == "a": return "PArr %d (%s)" % (t[1], pq(t[2]))
        if t[0] == "r": return 'PStruct "%s"' % t[1]
    def cdecl(name, t, isu):
        if t[0] == "s": return "%s %s" % (SYN_SCALARS[t[1]][0], name)
        if t[0] == "p": return "void* %s" % name
        if t[0] == "f": return "void (*%s)(void)" % name
        if t[0] == "a": return cdecl("%s[%d]" % (name, t[1]), t[2], isu)
        if t[0] == "r": return "%s %s %s" % ("union" if isu[t[1]] else "struct", t[1], name)
        if t[0] == "al": return cdecl(name, t[2], isu) + " __attribute__((aligned(%d)))" % t[1]
    isu = {n: u for n, u, _ in recs}
    body = HDR + "Definition syn_c : list cstruct := [\n" + ";\n".join(
        ' {| cs_name := "%s"; cs_union := %s; cs_header := "syn"; cs_members := [%s] |}' % (
            n, "true" if u else "false",
            "; ".join('{| cm_name := "%s"; cm_type := %s; cm_aligned := %d |}' % (m, cq(t), t[1] if t[0] == "al" else 0) for m, t in ms))
        for n, u, ms in recs) + "].\n"
    body += "Definition syn_py : list pyclass := [\n" + ";\n".join(
        ' {| pc_name := "%s"; pc_module := "syn"; pc_fields := [%s] |}' % (n, "; ".join('("%s", %s)' % (m, pq(t)) for m, t in ms))
        for n, u, ms in recs[:py_n]) + "].\n"
    body += "Eval vm_compute in (match c_layouts syn_c with Some l => layout_lines l | None => [] end).\n"
    body += "Eval vm_compute in (match py_layouts syn_py with Some l => layout_lines l | None => [] end).\n"
    ok, out = vlib.coq_eval("c18_synthetic", body, 300)
    vals = None
    if ok:
        try: vals = eval_blocks(out)
        except ValueError: vals = None
    if not vals or len(vals) != 2:
        ctx.obligation("correspondence:C18 synthetic records evaluate in the model", False, out[-1500:]); return
    # gcc
    d = os.path.join(vlib.BUILD, "c18"); src = os.path.join(d, "syn_%d.c" % os.getpid()); exe = src[:-2]
    L = ["#include <stdio.h>", "#include <stddef.h>"]
    for n, u, ms in recs:
        L.append("%s %s { %s };" % ("union" if u else "struct", n, " ".join(cdecl(m, t, isu) + ";" for m, t in ms)))
    L.append("int main(void){")
    for n, u, ms in recs:
        sp = ("union " if u else "struct ") + n
        for m, t in ms:
            L.append('  printf("%s %s %%zu %%zu\\n", offsetof(%s, %s), sizeof(((%s*)0)->%s));' % (n, m, sp, m, sp, m))
        L.append('  printf("%s <sizeof> %%zu %%zu\\n", sizeof(%s), (size_t)__alignof__(%s));' % (n, sp, sp))
    L.append("  return 0; }")
    open(src, "w").write("\n".join(L) + "\n")
    r = subprocess.run(["gcc", "-std=gnu99", "-w", src, "-o", exe], capture_output=True, text=True)
    r2 = subprocess.run([exe], capture_output=True, text=True) if r.returncode == 0 else None
    for f in (src, exe):
        try: os.remove(f)
        except OSError: pass
    if r2 is None or r2.returncode != 0:
        ctx.obligation("correspondence:C18 synthetic records compile with gcc", False, r.stderr[-1200:]); return
    gcc = {(a, b): [int(c), int(e)] for a, b, c, e in (l.split(" ") for l in r2.stdout.splitlines())}
    coqc_ = {(a, b): [c, e] for a, b, c, e in vals[0]}
    bad = [(k, "gcc", gcc.get(k), "coq", coqc_.get(k)) for k in sorted(set(gcc) | set(coqc_)) if gcc.get(k) != coqc_.get(k)]
    ctx.obligation("correspondence:C18 edge/random records: Coq SysV layout == gcc (%d records incl. empty, zero-length arrays, unions, aligned; %d items)" % (len(recs), len(gcc)),
                   not bad, "mismatches: %s" % bad[:8])
    # ctypes
    cls = {}
    def ct(t):
        if t[0] == "s": return getattr(ctypes, SYN_SCALARS[t[1]][1])
        if t[0] == "p": return ctypes.c_void_p
        if t[0] == "f": return ctypes.CFUNCTYPE(None)
        if t[0] == "a": return ct(t[2]) * t[1]
        if t[0] == "r": return cls[t[1]]
    got = {}
    for n, u, ms in recs[:py_n]:
        cls[n] = type(n, (ctypes.Structure,), {"_fields_": [(m, ct(t)) for m, t in ms]})
        for m, t in ms:
            dsc = getattr(cls[n], m); got[(n, m)] = [dsc.offset, dsc.size]
        got[(n, "<sizeof>")] = [ctypes.sizeof(cls[n]), ctypes.alignment(cls[n])]
    coqp = {(a, b): [c, e] for a, b, c, e in vals[1]}
    bad2 = [(k, "ctypes", got.get(k), "coq", coqp.get(k)) for k in sorted(set(got) | set(coqp)) if got.get(k) != coqp.get(k)]
    ctx.obligation("correspondence:C18 edge/random records: Coq ctypes layout == ctypes (%d classes, %d items)" % (py_n, len(got)),
                   not bad2, "mismatches: %s" % bad2[:8])
    ctx.traces += (len(gcc) if not bad else 0) + (len(got) if not bad2 else 0)
    for n, u, ms in recs:
        ctx.case(key=("synthetic", n, len(ms)), sample={"synthetic_record": n, "union": u, "members": [m for m, _ in ms]} if n in ("S7", "A2") else None)


def run(ctx):
    libdir = ctx.lib()
    ok1 = ctx.regen("translate_structs.py")
    ok2 = ctx.regen("translate_pymirror.py")
    ok3 = ctx.regen("translate_docoptions.py")
    proved = ctx.prove("C18") if (ok1 and ok2 and ok3) else False
    ctx.assumptions += [
        "platform: x86-64 SysV / LP64 (sizes and alignments of the scalar tables in coq/C18/Model.v); the tables and the "
        "placement function are validated against gcc and ctypes on every run (correspondence), not proved from the ABI document",
        "a C enum member and a python c_int/c_uint field are treated as the same type (4 bytes; every REBOUND enumerator < 2^31)",
        "c_void_p mirrors any data pointer; POINTER(T) must point to the class mapped to the C pointee; CFUNCTYPE signatures are compared argument by argument",
        "hand-kept tables (class map, 5 aliases, 1 array split, naming rules of 9 option dictionaries, keep-alive slots) in coq/C18/Tables.v are trusted as the statement of intent",
        "python sources are read with ast, not executed: a _fields_ list built by code other than a literal makes the translator fail closed",
    ]
    ctx.rule = ("exhaustive: every field of every ctypes.Structure class of the package, every item of every option dictionary, "
                "every property/setter, every clibrebound symbol; a case is distinct by (class, field) / (dict, key) / symbol; "
                "all are non-trivial (each names a real member of the loaded library)")
    sjp = os.path.join(vlib.BUILD, "c18", "structs.json")
    if not ok1 or not os.path.exists(sjp):
        return
    sj = json.load(open(sjp))

    # ---- values computed by the Coq model on the regenerated data
    body = HDR + "\n".join([
        "Eval vm_compute in (match c_layouts c_structs with Some l => layout_lines l | None => [] end).",
        "Eval vm_compute in (match py_layouts py_classes with Some l => layout_lines l | None => [] end).",
        "Eval vm_compute in (name_pairs tables0 py_classes).",
        "Eval vm_compute in (option_pairs tables0 py_dicts).",
        "Eval vm_compute in (match mirror_deviations tables0 c_structs py_classes with Some d => d | None => [(\"\",\"\",\"\",\"no-layout\")] end).",
        "Eval vm_compute in (option_deviations tables0 c_enums py_dicts).",
        "Eval vm_compute in (shadowing py_classes py_props).",
        "Eval vm_compute in (bad_setter_targets tables0 py_classes py_props).",
        "Eval vm_compute in (missing_symbols tables0 c_decls py_symbols).",
        "Eval vm_compute in (map (fun c => (pc_name c, pc_module c)) py_classes).",
        "Eval vm_compute in py_symbols.",
        "Eval vm_compute in (t_dead_modules tables0).",
        "Eval vm_compute in (all_consts c_enums).",
        "Eval vm_compute in (setter_getter_mismatch py_classes py_props py_getter_reads).",
        "Eval vm_compute in (map (fun e => let '(c, p, a, k, _) := e in (c, p, a, k)) (unguarded_loop_exits py_loop_exits)).",
        "Eval vm_compute in (search_mismatch py_loop_search).",
        "Eval vm_compute in (callback_mismatch tables0 c_structs py_classes py_props py_functypes py_setter_callbacks c_fun_types).",
        "Eval vm_compute in (callback_props py_classes py_props).",
        "Eval vm_compute in (doc_deviations tables0 doc_rules c_enums c_decls py_dicts py_named_callbacks doc_py_options doc_c_options doc_c_callbacks doc_pairs doc_enum_tokens).",
        "Eval vm_compute in doc_rules.",
        "Eval vm_compute in doc_py_options.",
        "Eval vm_compute in doc_pairs.",
        "Eval vm_compute in py_named_callbacks.",
        "Eval vm_compute in (named_callback_mismatch named_callback_prefixes py_named_callbacks).",
        "Eval vm_compute in named_callback_prefixes.",
    ]) + "\n"
    # the model files must be compiled for this (they are unless regeneration produced something Coq rejects)
    vlib.coq_make(["C18/Tables.vo", "Gen/Structs.vo", "Gen/PyMirror.vo", "Gen/DocOptions.vo"], 600)
    okc, outc = vlib.coq_eval("c18_values", body, 300)
    vals = None
    if okc:
        try:
            vals = eval_blocks(outc)
            if len(vals) != 25:
                vals = None
        except ValueError as e:
            outc += "\nparse error: %r" % (e,)
    ctx.obligation("model-evaluates: layouts / name pairs / deviations printed by vm_compute", vals is not None, outc[-1500:])
    truth, err = gcc_truth(ctx, sj)
    ctx.obligation("ground-truth: gcc compiles the offsetof/sizeof/enum program against the current headers", truth is not None, err)
    if vals is None or truth is None:
        return
    (c_lines, py_lines, name_pairs, option_pairs, mdevs, odevs, shadow, badset, missing, classes, symbols, dead, consts, sgm, ule, smm, cbm, cbprops, ddevs, docrules, docpy, docpairs, namedcb, ncm, ncpre) = vals
    coff, csize, enum = truth

    # ---- correspondence 1: Coq SysV model == gcc
    n_c, bad = compare_c(sj, c_lines, dict(consts), truth)
    ctx.obligation("correspondence:C18 Coq SysV layout + translated enums == gcc offsetof/sizeof/alignof/enum values (%d items)" % n_c,
                   not bad, "mismatches: %s" % bad[:8])
    ctx.traces += n_c if not bad else 0
    if ctx.thorough:
        avx512_variant(ctx)
    synthetic_layouts(ctx)

    # ---- probe on the library
    kinds = {}; memstruct = {}
    for s in sj["structs"]:
        for m, k in zip(s["members"], s["kinds"]):
            if k.startswith("struct:"):
                memstruct.setdefault(s["name"], {})[m] = k[7:]
            kinds.setdefault(s["name"], {})[m] = k
    job = {"classes": [list(c) for c in classes], "name_pairs": [list(x) for x in name_pairs], "coff": coff, "csize": csize,
           "ckind": kinds, "cmember_struct": memstruct, "enum": enum,
           "option_pairs": [list(x) for x in option_pairs], "symbols": [list(x) for x in symbols], "dead_modules": dead,
           "expect_pkg": os.path.realpath(os.path.join(vlib.REPO, "rebound")), "expect_lib": os.path.realpath(libdir),
           "tmpdir": os.path.join(vlib.BUILD, "c18"), "callback_props": [list(x) for x in cbprops],
           "doc_rules": [list(x) for x in docrules], "doc_rules_full": [list(x) for x in docrules], "doc_py": [list(x) for x in docpy], "doc_pairs": [list(x) for x in docpairs],
           "named_callbacks": [[a, b, c, list(d)] for a, b, c, d in namedcb], "named_prefixes": [list(x) for x in ncpre],
           "ctypes": {s_["name"]: dict(zip(s_["members"], s_["types"])) for s_ in sj["structs"]}}
    jp = os.path.join(vlib.BUILD, "c18", "job_%d.json" % os.getpid())
    json.dump(job, open(jp, "w"))
    r = vlib.run_py(libdir, os.path.join(vlib.ROOT, "tools", "c18_probe.py"), [jp], timeout=300)
    # edge-of-domain probe: its own process, so that a crash is attributed to it (and to the stage it was in)
    re_ = vlib.run_py(libdir, os.path.join(vlib.ROOT, "tools", "c18_edges.py"), [jp], timeout=300)
    os.remove(jp)
    m = re.search(r"^C18PROBE (.*)$", r.stdout, re.M)
    if "C18PROBE-WRONG-PACKAGE" in r.stdout:
        ctx.obligation("probe-environment: the probe imported the package and library under test", False, r.stdout[-800:])
        return
    if r.returncode != 0 or not m:
        # the package refuses to import when sizeof(Simulation) differs from the library: that is itself a finding
        sig = r.returncode < 0
        ctx.violation("import:rebound", {"how": "import rebound on the library built from the tree", "returncode": r.returncode,
                                        "stderr": r.stderr[-1500:]}, True,
                      "the python layer cannot be loaded / probed on the library built from this tree (%s)" %
                      ("signal" if sig else (r.stderr.strip().splitlines() or ["?"])[-1][:200]))
        return
    probe = json.loads(m.group(1))
    me = re.search(r"^C18EDGES (.*)$", re_.stdout, re.M)
    if re_.returncode != 0 or not me:
        stages = re.findall(r"C18EDGE-STAGE (\S+)", re_.stderr)
        ctx.violation("edge:crash:%s" % (stages[-1] if stages else "start"),
                      {"how": "tools/c18_edges.py on the library built from the tree", "returncode": re_.returncode, "last_stage": stages[-1:] ,
                       "stderr": re_.stderr[-1200:]}, True,
                      "the edge-of-domain probe died (status %d) in stage %s" % (re_.returncode, stages[-1] if stages else "start"))
    else:
        edges = json.loads(me.group(1))
        probe["mismatch"] += edges["mismatch"]
        probe["checked"]["edges"] = edges["checked"]

    # ---- correspondence 2: Coq ctypes model == ctypes
    bad2 = []
    got_py = {(a, b): [c, d] for a, b, c, d in probe["layout"]}
    want_py = {(a, b): [c, d] for a, b, c, d in py_lines}
    for k in set(got_py) | set(want_py):
        if got_py.get(k) != want_py.get(k):
            bad2.append((k, "ctypes", got_py.get(k), "coq", want_py.get(k)))
    ctx.obligation("correspondence:C18 Coq ctypes layout (from translated _fields_) == ctypes Class.field.offset/.size/sizeof/alignment (%d items)" % len(want_py),
                   not bad2, "mismatches: %s" % bad2[:8])
    ctx.traces += len(want_py) if not bad2 else 0

    # ---- coverage bookkeeping
    for cls, cs, pf, cm in name_pairs:
        ctx.case(key=("field", cls, pf), sample={"class": cls, "field": pf, "c_record": cs, "c_member": cm,
                                                 "c_offset_size": coff.get(cs, {}).get(cm)} if pf in ("N_active", "_kernel", "max_radius") else None)
    for dn, key, const, v in option_pairs:
        ctx.case(key=("option", dn, key), sample={"dict": dn, "key": key, "c_constant": const, "value": v} if key in ("whfast512", "h8,4,4") else None)
    for mod, sym in symbols:
        ctx.case(key=("symbol", sym))
    ctx.extra["exhaustive"] = True
    ctx.extra["probe_checked"] = probe["checked"]
    ctx.extra["probe_mismatches"] = [("%s %s.%s: %s" % (m_["what"], m_["struct"], m_["member"], m_["detail"]))[:400] for m_ in probe["mismatch"][:40]]
    ctx.extra["input_distribution"] = {"classes": len(classes), "fields": len(name_pairs), "option_items": len(option_pairs),
                                       "symbols": len(symbols), "c_records": len(sj["structs"]), "c_enum_constants": len(consts)}

    # ---- violations: what the searcher found on the library (concrete), then what only the model found
    reported = set()
    for mm in probe["mismatch"]:
        if mm["what"].startswith("option-"):
            key = "option:%s.%s" % (mm["struct"], mm["member"])
        elif mm["what"] == "edge-options":
            key = "option:%s.%s" % (mm["struct"], mm["member"])
        elif mm["what"].startswith("doc-"):
            key = "doc:%s.%s" % (mm["struct"], mm["member"])
        elif mm["what"].startswith("callback"):
            key = "callback:%s.%s" % (mm["struct"], mm["member"])
        elif mm["what"] == "symbol-missing":
            key = "symbol:%s" % mm["member"]
        else:
            key = "mirror:%s.%s" % (mm["struct"], mm["member"])
        if key in reported:
            continue
        reported.add(key)
        ctx.violation(key, {"struct": mm["struct"], "member": mm["member"], "what": mm["what"], "detail": mm["detail"],
                            "how": "tools/c18_probe.py on the library built from the tree"}, True,
                      "%s %s.%s: %s" % (mm["what"], mm["struct"], mm["member"], mm["detail"]))
    for cls, pf, cm, code in mdevs:
        key = "mirror:%s.%s" % (cls, pf if pf else cm)
        if key in reported:
            continue
        reported.add(key)
        ctx.violation(key, {"struct": cls, "member": pf, "c_member": cm, "code": code,
                            "how": "Eval vm_compute in (mirror_deviations tables0 c_structs py_classes)"}, False,
                      "python class %s field %s deviates from the C member %s (%s)" % (cls, pf, cm, code))
    for dn, key_, code in odevs:
        k = "option:%s.%s" % (dn, key_)
        if k not in reported:
            reported.add(k)
            ctx.violation(k, {"dict": dn, "key": key_, "code": code}, False, "option dictionary %s[%r]: %s" % (dn, key_, code))
    for cls, prop in shadow:
        k = "shadow:%s.%s" % (cls, prop)
        if k not in reported:
            reported.add(k)
            ctx.violation(k, {"class": cls, "property": prop}, False, "class %s has a field and a property both named %s" % (cls, prop))
    for cls, prop, attr in badset:
        k = "setter:%s.%s" % (cls, prop)
        if k not in reported:
            reported.add(k)
            ctx.violation(k, {"class": cls, "property": prop, "attribute": attr}, False,
                          "setter of %s.%s assigns self.%s which is neither a field nor a property" % (cls, prop, attr))
    for cls, prop, attr in sgm:
        k = "setter:%s.%s" % (cls, prop)
        if k not in reported:
            reported.add(k)
            ctx.violation(k, {"class": cls, "property": prop, "attribute": attr}, False,
                          "setter of %s.%s assigns field %s, which its getter does not read (getter and setter name different C members)" % (cls, prop, attr))
    for fn_, path_, item_, code in ddevs:
        k = "doc:%s.%s" % (path_, item_)
        if k not in reported:
            reported.add(k)
            ctx.violation(k, {"file": "docs/" + fn_, "path": path_, "item": item_, "code": code}, False,
                          "docs/%s documents %s = %s: %s" % (fn_, path_, item_, code))
    for cls, prop, nm in ncm:
        k = "callback:%s.%s" % (prop, nm)
        if k not in reported:
            reported.add(k)
            ctx.violation(k, {"class": cls, "property": prop, "name": nm}, False,
                          "%s.%s = %r does not store the built-in function of that name" % (cls, prop, nm))
    for cls, prop, what_, code in cbm:
        k = "callback:%s.%s" % (prop, what_)
        if k not in reported:
            reported.add(k)
            ctx.violation(k, {"class": cls, "property": prop, "item": what_, "code": code}, False,
                          "callback %s.%s: %s does not match the C member's prototype (%s)" % (cls, prop, what_, code))
    for cls, prop, acc, kind in ule:
        k = "mirror:%s.%s" % (cls, prop)
        if k not in reported:
            reported.add(k)
            ctx.violation(k, {"class": cls, "property": prop, "accessor": acc, "statement": kind}, False,
                          "%s of %s.%s leaves its for-loop by an unconditional %s: only the first array element is ever inspected" % (acc, cls, prop, kind))
    for cls, prop in smm:
        k = "mirror:%s.%s" % (cls, prop)
        if k not in reported:
            reported.add(k)
            ctx.violation(k, {"class": cls, "property": prop}, False,
                          "getter and setter of %s.%s search the C array with different conditions" % (cls, prop))
    for mod, sym in missing:
        k = "symbol:%s" % sym
        if k not in reported:
            reported.add(k)
            ctx.violation(k, {"module": mod, "symbol": sym}, False, "clibrebound.%s (module %s) is not declared DLLEXPORT in rebound.h" % (sym, mod))


def replay(ctx, rep):
    print(json.dumps(rep, indent=1))
    r = rep.get("replay", {})
    if "struct" in r:
        print("re-run:  ./check C18   (the probe recomputes %s.%s)" % (r.get("struct"), r.get("member")))
    return 0
