"""C17 — copies are independent and equal; compare reports exactly the real differences.

1. regeneration: coq/Gen/Descriptors.v (shared with C05) also carries the member lists compared by
   reb_particle_diff and by the var_config branch of reb_binary_diff, and the walltime prefix;
2. proof obligations: coq/C17 (meaning of reb_binary_diff's return value for all field lists; per-field soundness and
   completeness; record fields look only at the compared = non-pointer members; self-equality, refuted for NaN);
3. correspondence: the model's are_different on two library streams (vm_compute) vs the return value of
   reb_binary_diff(…, 2) on exactly these bytes: (state, copy), (state, state with one persisted field perturbed),
   (state, state with vanished / new fields);
4. library-only oracles: sim == copy, sim == load(save(sim)), one perturbation per persisted field flips ==,
   pointer-member / walltime perturbations do not, operations on the copy never change the source (and vice versa),
   NaN / signed-zero probes (particles, var_config.lrescale).
"""
import ctypes, json, os, sys, time, warnings
import vlib
import c05 as c05h


def norm_key(key, rec_id=""):
    """reb_particle arrays other than `particles` (ri_whfast.p_jh, ri_whfast512.pjh0) are compared with memcmp.
    * Injected bit flips of the address-valued members (c, ap, sim) inside those persisted records are OUT of scope
      (the property is about addresses the library itself stores; after 8ea0a2c it stores none there): dropped.
    * A simulation differing from its OWN copy because of never-written record members keeps one stable key."""
    import re
    if re.match(r"^perturb:spurious:(ri_whfast\.p_jh|ri_whfast512\.pjh0):(c|ap|sim)$", key):
        return None
    if rec_id.startswith("sei/") and re.match(r"^perturb:missed:ri_sei\.(lastdt|sindt|tandt|sindtz|tandtz)$", key):
        # with integrator SEI, reb_integrator_init (called by every save, hence by ==) recomputes these caches from
        # OMEGA, OMEGAZ and dt before they are written: an in-memory perturbation of a derived cache is not a
        # difference of a persisted quantity
        return None
    m = re.match(r"^eq:uninit:(ri_whfast\.p_jh|ri_whfast512\.pjh0)$", key)
    if m:
        return "memcmp:" + m.group(1)
    return key


def lrescale_probe(rebound):
    """var_config records: lrescale is the only double; NaN must still equal itself, -0.0 must differ from +0.0"""
    out = []
    def base():
        s = rebound.Simulation(); s.add(m=1.); s.add(m=1e-3, a=1.); s.add_variation(); return s
    s = base(); s.var_config[0].lrescale = float("nan")
    if not (s == s.copy()):
        out.append({"key": "nan:var_config.lrescale", "how": "2 particles, add_variation(), var_config[0].lrescale = nan; sim == sim.copy() is False"})
    s = base(); c = s.copy(); s.var_config[0].lrescale = 0.0; c.var_config[0].lrescale = -0.0
    if s == c:
        out.append({"key": "signed-zero:var_config.lrescale", "how": "copy with var_config[0].lrescale = -0.0 vs +0.0 compares equal"})
    return out


def record_member_oracle(rebound):
    """every value member of a particle record / var_config record: a one-bit change in a copy must flip =="""
    import struct
    out = []
    n = 0
    def base():
        s = rebound.Simulation(); s.add(m=1., r=0.01); s.add(m=1e-3, a=1., r=0.02); s.add_variation(); return s
    for name, ct in rebound.Particle._fields_:
        if name.startswith("_") or name in ("c", "ap", "sim") or ct not in (ctypes.c_double, ctypes.c_uint32, ctypes.c_uint):
            continue
        s = base(); c = s.copy()
        fld = getattr(rebound.Particle, name)
        addr = ctypes.addressof(c.particles[1]) + fld.offset
        b = (ctypes.c_ubyte * 1).from_address(addr); b[0] ^= 1
        n += 1
        if s == c:
            out.append({"key": "perturb:missed:particles." + name, "how": "low bit of particles[1].%s flipped in a copy; sim == copy still True" % name})
    vc = type(base().var_config[0])
    for name, ct in vc._fields_:
        if name.lstrip("_") == "sim" or ct not in (ctypes.c_double, ctypes.c_int, ctypes.c_uint):
            continue
        s = base(); c = s.copy()
        fld = getattr(vc, name)
        addr = ctypes.addressof(c.var_config[0]) + fld.offset
        b = (ctypes.c_ubyte * 1).from_address(addr); b[0] ^= 1
        n += 1
        if s == c:
            out.append({"key": "perturb:missed:var_config." + name.lstrip("_"), "how": "low bit of var_config[0].%s flipped in a copy; sim == copy still True" % name})
    return n, out


def binary_diff(rebound, b1, b2):
    f = rebound.clibrebound.reb_binary_diff
    f.restype = ctypes.c_int
    f.argtypes = [ctypes.c_char_p, ctypes.c_size_t, ctypes.c_char_p, ctypes.c_size_t, ctypes.c_void_p, ctypes.c_void_p, ctypes.c_int]
    return f(b1, len(b1), b2, len(b2), None, None, 2)


def run(ctx):
    warnings.simplefilter("ignore")
    libdir = ctx.lib()
    rebound, gen = c05h.import_lib(libdir)
    import c17_lib
    rng = ctx.rng
    ctx.regen("translate_descriptors.py")
    proved = ctx.prove("C17", extra_targets=["C17/Run.vo"])

    nrec = ctx.scale(300, 2000)
    recipes = gen.recipes(rng, nrec, thorough=ctx.thorough)

    # ------------------------------------------------------------------ correspondence: are_different
    pairs = []
    npairs = ctx.scale(45, 400)
    step = max(1, len(recipes) // 15)
    for rec in recipes[::step]:
        if len(pairs) >= npairs:
            break
        try:
            for (b1, b2, ret) in c17_lib.diff_pairs(rebound, rng, rec, 3):
                if len(b1) < 30000 and len(b2) < 30000:
                    # re-evaluate the library on exactly these bytes (self-contained pair)
                    pairs.append((rec, b1, b2, binary_diff(rebound, b1, b2)))
        except Exception as e:
            ctx.obligation("generator:diff_pairs", False, "%r on %s" % (e, json.dumps(rec)[:300]))
    pairs = pairs[:npairs]
    # synthetic pairs that isolate the two loops of reb_binary_diff: a stream vs the same stream with ONE field removed
    # (new field in stream 2 / vanished field, nothing else differs) and vs the same fields in a rotated order (equal)
    for rec in recipes[:: max(1, len(recipes) // 6)][:6]:
        try:
            b = gen.save_bytes(rebound, gen.build(rebound, rec))
            if len(b) > 30000:
                continue
            hdr, fields, trailer = gen.parse(b)
            j = rng.randrange(len(fields))
            less = gen.unparse(hdr, fields[:j] + fields[j + 1:], trailer)
            k = rng.randrange(1, len(fields))
            rot = gen.unparse(hdr, fields[k:] + fields[:k], trailer)
            for (x, y) in ((less, b), (b, less), (b, rot), (rot, b)):
                pairs.append((dict(rec, synthetic="drop/rotate field %d" % j), x, y, binary_diff(rebound, x, y)))
        except Exception as e:
            ctx.obligation("generator:synthetic pairs", False, "%r" % (e,))
    jobs = []
    chunk = 3
    for c0 in range(0, len(pairs), chunk):
        body = ("From Coq Require Import NArith List Bool.\nFrom RV Require Import C05.Model C05.Run C17.Run.\nImport ListNotations.\n"
                "Open Scope N_scope.\n")
        terms = []
        for j, (rec, b1, b2, ret) in enumerate(pairs[c0:c0 + chunk]):
            body += "Definition a%d : list N := %s.\nDefinition b%d : list N := %s.\n" % (j, c05h.coq_list(b1), j, c05h.coq_list(b2))
            terms.append("diff_case a%d b%d %s" % (j, j, "true" if ret else "false"))
        body += "Eval vm_compute in (bad_idx [%s]).\n" % "; ".join(terms)
        jobs.append(("c17_%d" % (c0 // chunk), body))
    bad_cases = []
    corr_ok = True
    for (name, ok, out), c0 in zip(vlib.coq_eval_many(jobs, timeout=600), range(0, len(pairs), chunk)):
        bad = vlib.parse_coq_list_nat(out) if ok else None
        if bad is None:
            corr_ok = False
            ctx.obligation("correspondence:C17:" + name, False, out[-1500:])
        else:
            bad_cases += [c0 + k for k in bad]
    ndiff = sum(1 for p in pairs if p[3])
    for k, p in enumerate(pairs):
        ctx.case(key=("pair", k, p[3]), sample={"recipe": p[0], "library_ret": p[3], "sizes": [len(p[1]), len(p[2])]} if k < 2 else None)
    ctx.traces = len(pairs) if corr_ok else 0
    ctx.obligation("correspondence:C17 model are_different == reb_binary_diff(...,2) on %d stream pairs (%d different, %d equal)"
                   % (len(pairs), ndiff, len(pairs) - ndiff),
                   corr_ok and not bad_cases and ndiff >= 5 and len(pairs) - ndiff >= 5,
                   "mismatching pairs: %s" % [(json.dumps(pairs[k][0])[:150], pairs[k][3]) for k in bad_cases[:4]])

    # ------------------------------------------------------------------ library-only oracles
    t0 = time.time()
    fails = []
    # audited claim of C17_no_row_copies_an_address: the c / ap / sim members of the reb_particle records in
    # ri_whfast.p_jh and ri_whfast512.pjh0 never hold an address (all zero) in any stream the library writes
    pspans = [(getattr(rebound.Particle, n).offset, 8) for n in ("_c", "_ap", "_sim") if hasattr(rebound.Particle, n)]
    if len(pspans) != 3:
        pspans = [(96, 8), (112, 8), (120, 8)]
    names_by_id = {d["id"]: d["name"] for d in gen.descriptors(rebound)}
    nz = 0
    def audited_zero(stream, rec):
        for t, pl in gen.parse(stream)[1]:
            if names_by_id.get(t) in ("ri_whfast.p_jh", "ri_whfast512.pjh0"):
                for r0 in range(0, len(pl), 128):
                    for o, n in pspans:
                        if any(pl[r0 + o:r0 + o + n]):
                            return {"key": "address-in:" + names_by_id[t], "recipe": rec, "record": r0 // 128, "offset": o}
        return None
    # the continuation histories of C05 (option sweep sample + fixed reproducers of fixed findings) are used here for
    # "copy evolves bitwise identically": source vs copy through the full continuation oracle (1, 7, 50 further steps)
    hist = c05h.continuation_histories(ctx, rebound, gen, rng)
    nh_ok = 0
    for rec in hist:
        try:
            fs = gen.continuation_oracle(rebound, rec, ks=(1, 7, 50))
            nh_ok += 1
        except Exception as e:
            try:
                plain = gen.build(rebound, rec)
                for k in (1, 7, 50):
                    gen.steps(plain, k)
                fs = [{"recipe": rec, "key": "exception:continuation", "detail": repr(e)}]
            except Exception:
                fs = []          # the plain, never-copied run raises as well: combination rejected by the library
        for f in fs:
            if str(f.get("key", "")).startswith("twin:") or f.get("detail") not in ("copy", None):
                continue         # C17 judges the copy; restored-vs-original is C05's clause
            f = dict(f, check="evolved")
            fails.append(f)
        ctx.case(key=("hist", rec.get("id")))
    ctx.obligation("oracle:continuation histories (shared with C05) ran for the copy clause", nh_ok * 10 >= 4 * max(1, len(hist)), "%d of %d" % (nh_ok, len(hist)))
    for i, rec in enumerate(recipes):
        try:
            st = gen.save_bytes(rebound, gen.build(rebound, rec))
            bad = audited_zero(st, rec)
            nz += 1
            if bad:
                fails.append(bad)
        except Exception:
            pass
        try:
            fails += c17_lib.eq_oracle(rebound, rec)
            if i % 3 == 0:
                fails += c17_lib.independence_oracle(rebound, rec, rng)
        except Exception as e:
            fails.append({"recipe": rec, "key": "exception:oracle", "detail": repr(e)})
        ctx.case(key=("eq", json.dumps(rec, sort_keys=True)[:80]))
    ctx.obligation("oracle:audited-zero check ran on the recipes' streams", nz * 10 >= len(recipes) * 9, str(nz))
    nper = 0
    for rec in recipes[:: max(1, len(recipes) // ctx.scale(12, 60))]:
        try:
            n, f, sk = c17_lib.perturbation_oracle(rebound, rng, rec)
        except Exception as e:
            n, f = 0, [{"recipe": rec, "key": "exception:perturbation", "detail": repr(e)}]
        nper += n
        fails += f
    ctx.evaluations += nper
    for i in range(min(nper, 400)):
        ctx.nontrivial.add(("perturb", i))
    ntw = 0   # twin builds (two independently constructed simulations) are NOT required to compare equal: heap residue in
              # ri_whfast.p_jh is persisted content; only sim-vs-own-copy/restored clauses are checked (eq_oracle)
    # independence through every Python handle (raw bytes) + raw back pointers of the derived simulation
    import c17_handles
    nh, hf = c17_handles.run(rebound, gen)
    ctx.evaluations += nh
    ctx.obligation("oracle:handle sweep ran (>= 400 pointer / edit checks on simulations with 1-4 variation sets)", nh >= 400, str(nh))
    fails += hf
    # Simulationarchive histories in which arrays appear and disappear between snapshots: restored snapshot vs live simulation
    import c05_archive
    hists = c05_archive.histories(rebound, rng, thorough=ctx.thorough)
    nsnap = 0
    shared = any(str(f.get("key", "")).startswith("shared-heap:") for f in hf)
    if shared:       # copies share heap blocks with their source: freeing both would abort the harness before it can report
        hists, nsnap = [], 60
    for h in hists:
        try:
            f, c = c05_archive.run_history(rebound, gen, h, want_streams=True)
        except Exception as e:
            f, c = [{"key": "archive:exception", "history": h["label"], "detail": repr(e)}], []
        fails += f
        nsnap += len(c)
        ctx.case(key=("archive", h["label"]))
    ctx.evaluations += nsnap
    ctx.obligation("oracle:archive histories produced >= 60 restored-vs-live snapshot comparisons", nsnap >= 60, str(nsnap))
    # model vs library on the ADDRESSES the reader writes: Coq reader + regenerated fix-up loops + Coq writer == save(restored),
    # particles and var_config fields compared unmasked, addr = addressof(restored)
    rcases, keep_alive = c17_handles.relink_cases(rebound, gen)
    b0 = gen.save_bytes(rebound, rebound.Simulation())
    rjobs = []
    for c0 in range(0, len(rcases), 2):
        body = ("From Coq Require Import NArith List.\nFrom RV Require Import C05.Model C05.Run C17.Relink.\nImport ListNotations.\n"
                "Open Scope N_scope.\nDefinition b0 : list N := %s.\n" % c05h.coq_list(b0))
        terms = []
        for j, (lab, b, rb, addr) in enumerate(rcases[c0:c0 + 2]):
            body += "Definition s%d : list N := %s.\nDefinition r%d : list N := %s.\n" % (j, c05h.coq_list(b), j, c05h.coq_list(rb))
            terms.append("relink_corr b0 s%d r%d %d" % (j, j, addr))
        body += "Eval vm_compute in (bad_idx [%s]).\n" % "; ".join(terms)
        rjobs.append(("c17_relink_%d" % (c0 // 2), body))
    rbad, rok = [], True
    for (name, ok, out), c0 in zip(vlib.coq_eval_many(rjobs, timeout=600), range(0, len(rcases), 2)):
        bad = vlib.parse_coq_list_nat(out) if ok else None
        if bad is None:
            rok = False
            ctx.obligation("correspondence:C17:" + name, False, out[-1500:])
        else:
            rbad += [c0 + k for k in bad]
    del keep_alive
    ctx.traces += len(rcases) if rok else 0
    ctx.obligation("correspondence:C17 Coq reader + regenerated fix-up loops + Coq writer == library save(restored) with particles and "
                   "var_config UNMASKED (actual addresses) on %d copies / restored simulations with 1-4 variation sets" % len(rcases),
                   rok and not rbad and len(rcases) >= 6, "mismatching: %s" % [rcases[k][0] for k in rbad[:6]])
    # edge-of-domain states: == / copy / restore / archive / co-evolution at N = 0, 1, 2, degenerate values, integer limits, after errors
    import c05_edges
    est = c05_edges.states(rebound)
    edge_ran = 0
    for lab, mk, ra, cs in est:
        try:
            ran, f, b = c05_edges.check_state(rebound, gen, lab, mk, ra, cs)
        except Exception as e:
            ran, f = True, [{"key": "edge:exception", "state": lab, "detail": repr(e)}]
        edge_ran += bool(ran)
        fails += f
        ctx.case(key=("edge", lab))
    ctx.obligation("oracle:edge-of-domain states ran (>= 90%% of %d)" % len(est), edge_ran * 10 >= len(est) * 9, "%d of %d" % (edge_ran, len(est)))
    nanp = c17_lib.nan_probe(rebound)
    szp = c17_lib.signed_zero_probe(rebound)
    ctx.obligation("oracle:NaN / signed-zero probes ran", "particle_x_nan_sim_eq_copy" in nanp and "particle_z_pm0_sim_eq_copy" in szp, str((nanp, szp))[:300])
    if nanp.get("particle_x_nan_sim_eq_copy") is False:
        fails.append(dict(nanp, key="nan:particles"))
    if szp.get("particle_z_pm0_sim_eq_copy") is True and szp.get("particle_z_bits_differ") is True:
        fails.append(dict(szp, key="signed-zero:particles"))
    fails += lrescale_probe(rebound)
    nrm, rmf = record_member_oracle(rebound)
    ctx.evaluations += nrm
    ctx.obligation("oracle:record member sweep covered the value members of particle and var_config records", nrm >= 17, str(nrm))
    fails += rmf
    ctx.log("oracles: %d recipes, %d perturbations, %.1fs" % (len(recipes), nper, time.time() - t0))
    for f in fails:
        rec = f.get("recipe") or {}
        if f.get("check") == "evolved" and (rec.get("gravity") == "tree" or rec.get("collision") in ("tree", "linetree")):
            f["key"] = "continue:tree-rebuilt"     # same root cause as C05's finding with this key
    for f in fails:
        # residual of the BS restart defect fixed in 78f405f: if N changed in the LAST step before the save point (merge,
        # open boundary), the original recreates its ODE at the next step and resets first_or_last_step to 1, whereas the
        # restored simulation allocates a fresh ODE and keeps the persisted 0
        rec = f.get("recipe") or {}
        if f.get("key") == "continue:bs:first_or_last_step" and (rec.get("collision_resolve") == "merge" or rec.get("boundary") == "open"
                                                                 or any(op.get("op") in ("add", "remove") for op in rec.get("after", []))):
            f["key"] = "continue:bs:N_changed_before_save"
    seen = set()
    for f in fails:
        key = norm_key(f.get("key") or "unkeyed:" + json.dumps(f, default=str)[:60],
                       str(f.get("recipe_id") or (f.get("recipe") or {}).get("id") or ""))
        if key is None or key in seen:
            continue
        seen.add(key)
        ctx.violation(key, f, True, "C17 oracle failure on the real library: %s" % key)
    ctx.extra["perturbations"] = nper
    ctx.rule = ("recipes from tools/c05_gen.py (every integrator x options, modules, variational particles, save points); pairs = "
                "(state, copy) / (state, one-field perturbation) / (state, vanished or new fields); perturbation sweep over every "
                "descriptor row present in the stream")
    ctx.assumptions += [
        "the theorems are about field lists with unique types per stream (true of writer output: C05_table_ok) ",
        "copy = reader(writer s) and reb_simulation_diff = reb_binary_diff(writer a, writer b) by inspection of rebound.c (10 lines each); "
        "the writer/reader models are tied by C05's correspondence",
        "independence of a copy (no shared heap arrays) is validated on the library (address comparison + mutate-one-observe-other), "
        "not proved: the model has value semantics",
    ]


def replay(ctx, rep):
    print(json.dumps(rep.get("replay", rep), indent=1, default=str)[:4000])
    return 0
