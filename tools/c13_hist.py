"""C13 histories for the hybrid integrators (MERCURIUS, TRACE): steps, removals, mergers, additions of particles of
various radii (into freed slots or beyond), more steps.  Judge: a brute-force oracle at every step boundary — every
planet-planet or star-planet pair that overlaps (with a margin) while approaching after a step must have been handed to the
resolve routine during that step."""
import math, ctypes


def gen_history(rng, integrator):
    """a scenario = initial bodies + a list of operations; impact courses are set up relative to a body's CURRENT state
    when the operation is executed (op 'add_target'), so nothing depends on a particular history"""
    dt = rng.choice([1e-3, 2e-3, 5e-3])
    nplanets = rng.randint(2, 4)
    bodies = []
    for i in range(nplanets):
        bodies.append(dict(m=10 ** rng.uniform(-10, -6), r=rng.choice([1e-4, 3e-4, 1e-3]), a=0.6 + 0.35 * i + rng.uniform(-0.05, 0.05),
                           f=rng.uniform(0, 2 * math.pi), e=rng.uniform(0, 0.05), inc=rng.uniform(0, 0.02)))
    ops = [("steps", rng.randint(1, 30))]
    nrem = 0
    for _ in range(rng.randint(1, 3)):
        u = rng.random()
        if u < 0.35:
            ops.append(("remove", rng.randrange(1 << 30))); nrem += 1
        elif u < 0.7:
            ops.append(("merge_pair", rng.randrange(1 << 30), rng.choice([1e-4, 1e-3, 5e-3]))); nrem += 1
        else:
            ops.append(("steps", rng.randint(1, 20)))
    ops.append(("steps", rng.randint(1, 10)))
    nadd = rng.randint(1, max(1, nrem + rng.choice([0, 0, 1])))
    for _ in range(nadd):
        ops.append(("add_target", rng.randrange(1 << 30), rng.choice([1e-4, 1e-3, 5e-3, 2e-2, 3e-2]),
                    10 ** rng.uniform(-10, -7), rng.uniform(0.02, 0.1), rng.uniform(0.0, 0.7), rng.uniform(1.3, 2.5)))
        if rng.random() < 0.3:
            ops.append(("steps", rng.randint(1, 5)))
    ops.append(("steps", rng.randint(200, 500)))
    return dict(integrator=integrator, dt=dt, bodies=bodies, ops=ops, seed=rng.randrange(1, 2 ** 31))


def build(rebound, sc):
    sim = rebound.Simulation()
    sim.G = 1.0
    sim.integrator = sc["integrator"]
    sim.dt = sc["dt"]
    sim.collision = "direct"
    sim.rand_seed = sc["seed"]
    sim.add(m=1.0, r=1e-3, hash=1)
    for i, b in enumerate(sc["bodies"]):
        sim.add(m=b["m"], r=b["r"], a=b["a"], f=b["f"], e=b["e"], inc=b["inc"], hash=10 + i)
    return sim


def planets(sim):
    return [i for i in range(1, sim.N)]


def overlapping(sim, margin=0.97):
    """pairs (hash_i, hash_j) that overlap with a margin while approaching, positions/velocities as stored"""
    out = []
    ps = sim.particles
    for i in range(sim.N):
        for j in range(i + 1, sim.N):
            dx, dy, dz = ps[i].x - ps[j].x, ps[i].y - ps[j].y, ps[i].z - ps[j].z
            dvx, dvy, dvz = ps[i].vx - ps[j].vx, ps[i].vy - ps[j].vy, ps[i].vz - ps[j].vz
            sr = ps[i].r + ps[j].r
            d2 = dx * dx + dy * dy + dz * dz
            app = dx * dvx + dy * dvy + dz * dvz
            if sr > 0 and d2 < (margin * sr) ** 2 and app < -1e-12 * math.sqrt(d2 * (dvx * dvx + dvy * dvy + dvz * dvz) + 1e-300):
                out.append((ps[i].hash.value, ps[j].hash.value, math.sqrt(d2) / sr))
    return out


def snapshot(sim):
    return dict(t=sim.t, parts=[dict(m=p.m, r=p.r, x=p.x, y=p.y, z=p.z, vx=p.vx, vy=p.vy, vz=p.vz, hash=p.hash.value,
                                      lc=p.last_collision) for p in sim.particles])


def new_sim(rebound, sc):
    sim = rebound.Simulation()
    sim.G = 1.0
    sim.integrator = sc["integrator"]
    sim.dt = sc["dt"]
    sim.collision = "direct"
    sim.rand_seed = sc["seed"]
    return sim


def merge_recorder(rebound, sim, handed, counters, grown):
    clib = rebound.clibrebound
    fm = clib.reb_collision_resolve_merge
    fm.argtypes = [ctypes.POINTER(rebound.Simulation), rebound.simulation.CollisionS]
    fm.restype = ctypes.c_int
    def cb(sp, c):
        s = sp.contents
        h1, h2 = s.particles[c.p1].hash.value, s.particles[c.p2].hash.value
        handed.add(frozenset((h1, h2)))
        counters["handed"] += 1
        o = fm(sp, c)
        if o:
            counters["merges"] += 1
            grown.add(h1 if c.p1 < c.p2 else h2)      # the survivor (lower index) got a larger radius and mass
        return o
    sim.collision_resolve = cb
    return cb


def step_and_judge(sim, handed, nsteps):
    """-> (violation or None, steps done)"""
    # a pair may start to overlap at the very end of a step because a merger in the last search of that step enlarged one of
    # the two bodies: it then has to be handed over during the NEXT step.  Violation = overlapping while approaching at the end
    # of two consecutive steps without having been handed to resolve in the second one.
    suspects = set()
    for k in range(nsteps):
        handed.clear()
        try:
            sim.step()
        except RuntimeError:
            return None, k       # the integrator reported an error (e.g. NaN in the BS substep): not this property's business
        now = set()
        for (h1, h2, depth) in overlapping(sim):
            key = frozenset((h1, h2))
            if key not in handed:
                if key in suspects:
                    return dict(pair=[h1, h2], depth=depth, t=sim.t), k + 1
                now.add(key)
        suspects = now
    return None, nsteps


def fresh_run(rebound, sc, snap, nsteps):
    """the same state in a freshly built simulation, same number of steps, same judge"""
    sim = new_sim(rebound, sc)
    sim.t = snap["t"]
    for q in snap["parts"]:
        sim.add(m=q["m"], r=q["r"], x=q["x"], y=q["y"], z=q["z"], vx=q["vx"], vy=q["vy"], vz=q["vz"], hash=q["hash"])
    handed = set()
    merge_recorder(rebound, sim, handed, dict(handed=0, merges=0), set())
    v, _ = step_and_judge(sim, handed, nsteps)
    return v


def cause_of(sim, sc, pair, grown, added):
    """why could the pair not be flagged as an encounter?  derived from the library's own state"""
    idx = {p.hash.value: i for i, p in enumerate(sim.particles)}
    i, j = idx[pair[0]], idx[pair[1]]
    ps = sim.particles
    if sc["integrator"] == "mercurius":
        rim = sim.ri_mercurius
        n = rim._N_allocated_dcrit
        if i >= n or j >= n:
            return "no_dcrit", None
        dc = (rim._dcrit[i], rim._dcrit[j])
        info = dict(dcrit=dc, radii=(ps[i].r, ps[j].r))
        if 1.1 * max(dc) < ps[i].r + ps[j].r:
            stale = [h for h, k, d in ((pair[0], i, dc[0]), (pair[1], j, dc[1])) if d < 2 * ps[k].r]
            if any(h in grown for h in stale):
                return "stale_dcrit_after_merge", info
            if any(h in added for h in stale):
                return "stale_dcrit_after_add", info
            return "stale_dcrit", info
        return "other", info
    else:
        m0 = ps[0].m
        hill = []
        for k in (i, j):
            d = math.sqrt((ps[k].x - ps[0].x) ** 2 + (ps[k].y - ps[0].y) ** 2 + (ps[k].z - ps[0].z) ** 2)
            hill.append(sim.ri_trace.r_crit_hill * d * (ps[k].m / (3 * m0)) ** (1. / 3) if k != 0 else ps[0].r)
        info = dict(hill_crit=hill, radii=(ps[i].r, ps[j].r))
        if ps[i].r + ps[j].r > max(hill):
            return "radius>hill_criterion", info
        return "other", info


def run_history(rebound, sc):
    import random
    sim = build(rebound, sc)
    handed = set()
    counters = dict(merges=0, handed=0)
    grown, added = set(), set()
    merge_recorder(rebound, sim, handed, counters, grown)
    nexthash = [100]
    violation = None
    steps = 0
    for op in sc["ops"]:
        if violation:
            break
        if not all(math.isfinite(v) for q in sim.particles for v in (q.x, q.y, q.z, q.vx, q.vy, q.vz, q.m, q.r)):
            break      # a non-finite state is not this property's business: stop the history
        if op[0] == "steps":
            snap = snapshot(sim)
            v, done = step_and_judge(sim, handed, op[1])
            steps += done
            if v:
                cause, info = cause_of(sim, sc, v["pair"], grown, added)
                fv = fresh_run(rebound, sc, snap, done)
                v.update(cause=cause, info=info, fresh_simulation_also_misses=fv is not None, step=steps, N=sim.N)
                violation = v
        elif op[0] == "remove":
            pl = planets(sim)
            if len(pl) >= 2:
                sim.remove(random.Random(op[1]).choice(pl))
        elif op[0] == "merge_pair":
            pl = planets(sim)
            if pl:
                rr = random.Random(op[1])
                p = sim.particles[rr.choice(pl)]
                sim.add(m=p.m * rr.uniform(0.1, 10), r=op[2], x=p.x + 0.5 * (p.r + op[2]), y=p.y, z=p.z,
                        vx=p.vx - 1e-3, vy=p.vy, vz=p.vz, hash=nexthash[0]); added.add(nexthash[0]); nexthash[0] += 1
        elif op[0] == "add_target":
            pl = planets(sim)
            if pl:
                rr = random.Random(op[1])
                p = sim.particles[rr.choice(pl)]
                rC, mC, vrel, bfrac, gap = op[2], op[3], op[4], op[5], op[6]
                v = math.sqrt(p.vx ** 2 + p.vy ** 2 + p.vz ** 2) or 1.0
                ux, uy, uz = p.vx / v, p.vy / v, p.vz / v
                px_, py_ = -uy, ux
                pn = math.sqrt(px_ ** 2 + py_ ** 2) or 1.0
                px_, py_ = px_ / pn, py_ / pn
                sr = rC + p.r
                b = bfrac * sr
                sim.add(m=mC, r=rC, x=p.x - gap * sr * ux + b * px_, y=p.y - gap * sr * uy + b * py_, z=p.z - gap * sr * uz,
                        vx=p.vx + vrel * ux, vy=p.vy + vrel * uy, vz=p.vz + vrel * uz, hash=nexthash[0])
                added.add(nexthash[0]); nexthash[0] += 1
    return dict(violation=violation, steps=steps, N=sim.N, merges=counters["merges"], handed=counters["handed"])
